#!/usr/bin/env python3
"""Static checks for dd-native-iast-rewriter-js.  usage: check.py <Cxx> [--tier quick|thorough]
Every run analyses /repo's current working tree (facts are rebuilt whenever any source changed)."""
import argparse
import importlib
import os
import sys
import traceback

sys.path.insert(0, os.path.dirname(os.path.abspath(__file__)))

from iast import facts as factsmod  # noqa: E402
from iast.engine import Program, Check, finish  # noqa: E402


def main():
    ap = argparse.ArgumentParser()
    ap.add_argument("prop", nargs="?")
    ap.add_argument("--tier", default=os.environ.get("VERIF_TIER", "quick"))
    ap.add_argument("--warm", action="store_true")
    ap.add_argument("--repo", default=factsmod.REPO)
    ap.add_argument("--replay")
    ap.add_argument("--gen-anchors", action="store_true", help="regenerate rules/anchors.json from the current (reviewed) tree")
    args = ap.parse_args()
    if args.replay:
        import json

        with open(args.replay) as fh:
            r = json.load(fh)
        print(json.dumps(r, indent=1))
        args.prop = r["property"]
    try:
        facts = factsmod.get_facts(args.repo)
    except factsmod.FactsError as e:
        print("ERROR: cannot extract facts: %s" % e, file=sys.stderr)
        return 2
    if args.gen_anchors:
        from iast import anchors

        print("anchors: %d functions" % anchors.generate(facts))
        return 0
    if args.warm:
        print("facts ready: %s (%s)" % (facts["_meta"]["path"], "fresh" if facts["_meta"]["fresh"] else "cached"))
        factsmod.prune_cache()
        return 0
    if not args.prop:
        ap.error("property id required")
    prop = args.prop.upper()
    # watchdog: the analyses are polynomial on the reviewed tree (seconds); a run that takes minutes is
    # a checker defect and must end as one (exit 2), never hang the caller
    import signal

    def _timeout(signum, frame):
        print("ERROR: checker exceeded its time budget (this is a checker defect, not a verdict)", file=sys.stderr)
        os._exit(2)

    signal.signal(signal.SIGALRM, _timeout)
    signal.alarm(int(os.environ.get("VERIF_RULE_BUDGET_S", "600")) if args.tier == "quick" else 0)
    try:
        mod = importlib.import_module("iast.props.%s" % prop.lower())
    except ImportError:
        print("ERROR: no check for %s" % prop, file=sys.stderr)
        return 2

    def evaluate(facts_, helpers_inlined):
        facts_["_view_helpers_inlined"] = helpers_inlined
        check_ = Check(prop, args.tier, Program(facts_))
        return check_, mod.run(check_)

    def open_violations(check_):
        from iast.engine import load_known

        known = {(k["property"], k["key"]) for k in load_known().get("findings", [])}
        return [i for i in check_.instances if i["verdict"] == "violation" and (check_.prop, i["key"]) not in known]

    try:
        check, meta = evaluate(facts, False)
        view_note = None

        def known_hits(check_):
            from iast.engine import load_known

            listed = {k["key"] for k in load_known().get("findings", []) if k["property"] == check_.prop}
            return {i["key"] for i in check_.instances if i["verdict"] == "violation" and i["key"] in listed}, listed

        hits_a, listed = known_hits(check)
        if open_violations(check) or hits_a != listed:
            # Second reading.  The rules are stated over the shape of the code; a helper function that the
            # reviewed tree does not have (the usual product of an "extract function" clean-up) hides that
            # shape from some of them.  Reading every such helper at its call sites is a semantics-preserving
            # rewriting of the program, so a rule that is satisfied by that reading is satisfied by the
            # program.  The tree is only reported when both readings violate a rule.
            factsmod._cache.clear()
            facts2 = factsmod.get_facts(args.repo)
            try:
                check2, meta2 = evaluate(facts2, True)
            except Exception:
                check2 = None
            better = check2 is not None and not open_violations(check2) and (open_violations(check) or len(known_hits(check2)[0]) > len(hits_a))
            if better:
                absorbed = sorted({i["key"] for i in open_violations(check)})
                check, meta = check2, meta2
                view_note = {"reading": "helpers that are not in the reviewed tree are read at their call sites", "reports_of_the_literal_reading_absorbed": absorbed[:20]}
    except Exception:
        traceback.print_exc()
        print("ERROR: checker crashed (this is a checker defect, not a verdict)", file=sys.stderr)
        return 2
    extra = dict(meta.get("extra") or {})
    if view_note:
        extra["second_reading"] = view_note
    st_problems = 0
    if args.tier == "thorough" and os.path.abspath(args.repo) == os.path.abspath(factsmod.REPO):
        # checker self-test: breaking edits for this property must fire, preserving edits stay silent
        import selftest

        results, dt = selftest.run(props=[prop])
        st_problems = sum(1 for r in results if r["status"] in ("MISSED", "FALSE-ALARM", "invalid"))
        extra["selftest"] = {
            "edits": len(results),
            "breaking_caught": sum(1 for r in results if r["kind"] == "breaking" and r["status"] == "ok"),
            "preserving_silent": sum(1 for r in results if r["kind"] == "preserving" and r["status"] == "ok"),
            "skipped": [r["name"] for r in results if r["status"] == "skipped"],
            "problems": [{"name": r["name"], "status": r["status"], "detail": r.get("detail") or r["results"].get(prop)} for r in results if r["status"] in ("MISSED", "FALSE-ALARM", "invalid")],
            "wall_s": round(dt, 1),
            "samples": [{"name": r["name"], "status": r["status"], "report": (r["results"].get(prop) or {}).get("report", "")} for r in results if r["kind"] == "breaking"][:8],
        }
        for r in results:
            if r["status"] in ("MISSED", "FALSE-ALARM", "invalid"):
                print("SELFTEST-PROBLEM %s %s: %s" % (r["status"], r["name"], str(r.get("detail") or r["results"].get(prop))[:300]))
        print("self-test for %s: %d edits, %d caught, %d silent, %d problems (%.0fs)" % (prop, len(results), extra["selftest"]["breaking_caught"], extra["selftest"]["preserving_silent"], st_problems, dt))
    rc = finish(check, meta["explanation"], meta["assumptions"], meta["not_decided"], extra)
    if rc == 0 and st_problems:
        print("ERROR: the checker's self-test failed (checker defect, not a verdict on the property)", file=sys.stderr)
        return 2
    return rc


if __name__ == "__main__":
    sys.exit(main())
