#!/usr/bin/env python3
"""Regenerate MANIFEST.json from the table below (kept in one place so it stays valid)."""
import json
import os

VERIF = os.path.dirname(os.path.dirname(os.path.abspath(__file__)))

CLAIMED = {
    "C04": {
        "technique": "custom static analysis over typed HIR: path enumeration of visitor overrides vs ADT-graph slots (TRAV-COVER/ROOT/DISPATCH), block-driver, arrow-block and receiver-table rules",
        "text": "Decides, for every structural path of every visit_mut_* override of the instrumenting visitors, that every expression-bearing child is traversed unless the path matches a documented exclusion, that the five transforms are dispatched on their node kind under nothing but the documented gates, and the receiver table. A necessary structural condition of the property for all inputs; it does not decide what each transform emits.",
        "design_ref": "DESIGN.md §2 TRAV, §3 C04",
        "note": "Trusted: rustc front-end as fact source; swc's generated default visitor visits every child; swc parser classification of syntax.",
    },
}

PENDING = "check not built yet (implementation in progress; see DESIGN.md)"
NOT_APPLICABLE = {}


def main():
    props = [json.loads(l) for l in open(os.path.join(VERIF, "properties.jsonl"))]
    checks = []
    na = []
    for p in props:
        pid = p["id"]
        if pid in CLAIMED:
            c = CLAIMED[pid]
            checks.append(
                {
                    "property_id": pid,
                    "quick_cmd": "python3 bin/check.py %s --tier quick" % pid,
                    "thorough_cmd": "python3 bin/check.py %s --tier thorough" % pid,
                    "evidence_file": "evidence/%s.json" % pid,
                    "replay_cmd_template": "python3 bin/check.py --replay {path}",
                    "engine": "iast-static",
                    "level_claimed": {"category": "other", "text": c["text"], "design_ref": c["design_ref"]},
                    "level_note": c["note"],
                    "technique": c["technique"],
                }
            )
        else:
            na.append({"property_id": pid, "reason": NOT_APPLICABLE.get(pid, PENDING)})
    m = {
        "version": 1,
        "setup_cmd": "bash bin/setup.sh",
        "hooks": {
            "guard": "datadog_dd_native_iast_rewriter_js_verif",
            "enable": "none: the static analysis reads /repo's sources through a rustc driver; no hook code is compiled into /repo",
            "baseline_off_cmd": "cd /repo && cargo test --workspace --no-fail-fast --offline",
            "source_commits": [],
            "add_only": True,
        },
        "engines": [
            {
                "name": "iast-static",
                "path": "bin/check.py",
                "serves_properties": sorted(CLAIMED),
                "kind_free_text": "rustc_private fact extractor (typed HIR, MIR, ADT graph, type queries) + swc-based JS syntax dumper + Python rule engine; decides structural necessary conditions from source, never runs the rewriter",
            }
        ],
        "checks": checks,
        "not_applicable": na,
        "notes": "All checks are static analyses of /repo's current working tree (facts rebuilt whenever a source file changes). Repairs of genuine defects are unguarded 'fix:' commits in /repo, listed in known_findings.json.",
    }
    with open(os.path.join(VERIF, "MANIFEST.json"), "w") as fh:
        json.dump(m, fh, indent=1)
    print("MANIFEST.json: %d checks, %d not applicable" % (len(checks), len(na)))


if __name__ == "__main__":
    main()
