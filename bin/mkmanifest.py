#!/usr/bin/env python3
"""Regenerate MANIFEST.json from the table below (kept in one place so it stays valid)."""
import json
import os

VERIF = os.path.dirname(os.path.dirname(os.path.abspath(__file__)))

CLAIMED = {
    "C04": {
        "technique": "custom static analysis over typed HIR: path enumeration of visitor overrides vs ADT-graph slots (TRAV-COVER/ROOT/DISPATCH), block-driver, arrow-block and receiver-table rules",
        "text": "Decides, for every structural path of every visit_mut_* override of the instrumenting visitors, that every expression-bearing child is traversed unless the path matches a documented exclusion, that the five transforms are dispatched on their node kind under nothing but the documented gates, and the receiver table. A necessary structural condition of the property for all inputs; it does not decide what each transform emits.",
        "design_ref": "DESIGN.md §2 TRAV, §3 C04",
        "note": "Trusted: rustc front-end as fact source; swc's generated default visitor visits every child; swc parser classification of syntax.",
    },
    "C06": {
        "technique": "who-may-call + control-dependence + RAII-style rules over typed HIR; traversal completeness with target Ident (TRAV-IDENT); ADT-graph rule over slots evaluated in another activation (TYPEGRAPH)",
        "text": "Decides that temporaries are only created by the registering helper and declared by the block driver on the non-refused edge, the counter-reset discipline (reset only on return to the root context; transforms run under with_child_ctx guards), which other-activation AST slots the block traversal reaches (findings D5) and which identifiers the collision check cannot see (findings D9). Does not decide liveness of temporaries in generated code.",
        "design_ref": "DESIGN.md §3 C06",
        "note": "Trusted: rustc front-end facts; ECMAScript evaluation rules in the frozen slot table. Known findings D5/D9 are listed in known_findings.json by exact instance key.",
    },
    "C07": {
        "technique": "value-set / provenance analysis of the index argument of every statement-list insertion (VALUESET), sibling agreement of the three sites",
        "text": "Decides that each insertion index is the count of leading can_precede_directive statements of the list it inserts into; a bounded constant set or an is_use_strict-based index is reported. Necessary and (given swc's predicate) sufficient for 'after the whole directive prologue'.",
        "design_ref": "DESIGN.md §3 C07",
        "note": "Trusted: Stmt::can_precede_directive of the compiled swc_ecma_ast version.",
    },
    "C12": {
        "technique": "control-dependence (print/prologue/trailer gates), context-sensitive provenance of results reaching update_status (MODIFIED-HOOK), path rule COUNT-ONCE, JS syntax-tree rule for the hand-back",
        "text": "Decides that printing, prologue and trailer happen only under status Modified, that Modified is only set from hook-built results, that NotModified carries empty strings, and that main.js hands back the caller's text for the status string the Rust side produces.",
        "design_ref": "DESIGN.md §3 C12",
        "note": "Trusted: swc prints the tree it is given; serde field names.",
    },
    "C14": {
        "technique": "traversal completeness of the collector with exact-conjunct exclusion gates, discarded-predicate lint (BOOLDISCARD), constant/operator checks, dedupe-key and ordering rules, inventory of Str constructions",
        "text": "Decides collector coverage on every path, that the two exclusions apply only under their four documented conjuncts, the window operators/constants and location arithmetic, the dedupe key, the enable gate and that instrumentation cannot add string literals.",
        "design_ref": "DESIGN.md §3 C14",
        "note": "Trusted: swc keeps spans on clone; lookup_char_pos conventions.",
    },
    "C15": {
        "technique": "control-dependence of Telemetry::inc on the status parameter (INC-GATE), provenance (MODIFIED-HOOK, TAGS), path rule COUNT-ONCE, sibling agreement of the Telemetry impls, shaping rules",
        "text": "Decides that a propagation is counted only when this result is Modified and hook-built, exactly once per transform result on every path, with documented tags, and that the three telemetry implementations and the metrics shaping agree with the statement.",
        "design_ref": "DESIGN.md §3 C15",
        "note": "Trusted: u32 arithmetic does not overflow for realistic files.",
    },
    "C09": {
        "technique": "context-sensitive provenance of every span initialiser (SPAN-PROV), inventory of span constructors/overwrites (SPAN-CTOR), escape rule for AST parsed in a private source map (ESCAPE), constant checks of PrintArgs",
        "text": "Decides where every span placed in the output tree comes from: DUMMY_SP or the span of an input node, through helpers and all call sites; no constructed/shifted span; no foreign-source-map AST escapes un-normalised; print arguments and printed program. It does not decide what swc's code generator emits from those spans.",
        "design_ref": "DESIGN.md §3 C09",
        "note": "Trusted: swc codegen emits mappings from node spans only and nothing for DUMMY_SP.",
    },
    "C10": {
        "technique": "provenance rule on the printed text (TEXTEDIT), fallback/chain wiring by argument provenance, constant evaluation of the trailer format against the JS reader's constant, ordering/sibling rules for comment removal",
        "text": "Decides that the printed text is never edited position-blind, which map is emitted under which conditions, that add_raw/lookup_token are fed the right positions of the right tokens, that the single trailer text equals what the JS reader expects, and that the superseded comment is removed through the comment map by the same predicate that found it.",
        "design_ref": "DESIGN.md §3 C10",
        "note": "Trusted: sourcemap crate lookup/encoding; base64.",
    },
    "C11": {
        "technique": "syntax-tree rules over main.js / js/source-map / js/stack-trace parsed with the repository's swc parser: path enumeration of CacheRewriter.rewrite (CACHE-DISCIPLINE), cross-language constant agreement, index-conversion and pass-through shapes",
        "text": "Decides writer/reader agreement on trailer and status strings, that every outcome of a rewrite updates the cached map of that file and nothing else writes the cache, the +/-1 index conversions, pass-through returns and try/catch wrappers. Does not decide V8 stack formatting.",
        "design_ref": "DESIGN.md §3 C11",
        "note": "Trusted: vendored node_source_map.js, V8 CallSite API.",
    },
    "C13": {
        "technique": "panic-obligation inventory from typed HIR cross-checked with MIR assert terminators, discharged by guard rules on structural path conditions (G1-G12) or a reviewed table; loop and call-graph-cycle rules",
        "text": "Decides that every crate-written unwrap/index/Vec::insert/unchecked access/arithmetic assert is dominated by a guard that makes it safe (or is a reviewed entry), that there is no unbounded loop and that call-graph cycles are the reviewed terminating ones. Panics inside dependencies are outside.",
        "design_ref": "DESIGN.md §2 PANIC, §3 C13",
        "note": "Trusted base: swc, sourcemap, base64, serde, wasm-bindgen generated code.",
    },
    "C16": {
        "technique": "inventory and type-level rules: statics vs call graph, rustc Freeze query and deep ownership walk of Rewriter/Config, borrow kinds, who-constructs / who-calls rules, nondeterminism-source inventory",
        "text": "Decides that no state reachable from a rewrite call outlives it and that the configuration cannot change between calls (type-level argument checked by the compiler facts), that the random prefix is drawn once per rewriter, and that nondeterminism sources are exactly the reviewed ones.",
        "design_ref": "DESIGN.md §3 C16",
        "note": "Trusted: global state inside swc (interner), hash seeds of dependencies.",
    },
    "C01": {
        "technique": "structural necessary conditions over typed HIR: TRAV-ROOT (root dispatch), ORDER (hoisting vs ECMAScript order table, no reordering calls), GROUP (hoisted comma expressions parenthesised), IDENT-MODE wiring, PAREN-WRAP, FANOUT (single use)",
        "text": "Does NOT decide observational equivalence (that would be a proof of the transformation). Decides structural parts each of which, broken, changes behaviour for some input: every expression is dispatched at its root, operands are hoisted in ECMAScript order and never reordered, hoisted comma expressions and injected sequences are parenthesised, identifier keep/replace wiring, and no input sub-tree is copied into two output positions (finding D3).",
        "design_ref": "DESIGN.md §3 C01",
        "note": "Only necessary conditions; the behaviour itself is not decided by this family. Known finding D3 listed by exact key.",
    },
    "C02": {
        "technique": "INVENTORY of constructed AST node kinds vs the documented instrumentation shapes, per-function FANOUT analysis, NOTHING-DROPPED (complete operand processing), print-path wiring",
        "text": "Does NOT decide tree equality after erasure. Decides that only erasable shapes can be constructed (closed set, `let` and `=` only), that no function copies an input sub-tree into two output positions (finding D3), that operand lists are processed completely and that the visited program is the printed one.",
        "design_ref": "DESIGN.md §3 C02",
        "note": "Necessary conditions only. Cross-function duplication is covered only along the hoisting path (C03 MIRROR).",
    },
    "C03": {
        "technique": "counted-effect analysis of the hook argument vector over all structural paths with callee summaries (EFFECT), same-origin provenance (MIRROR), shape/order rules (HOOK-SHAPE, CALL-SIGNATURE, SPREAD-ONCE, ORDER)",
        "text": "Decides that each operand contributes exactly one hook argument on every path (finding D14), that the reported value is the value left in place, the argument order of the hook and of method-call hooks, identity of callee/receiver between the emitted .call and the reported arguments, and single evaluation of spreads. Run-time equality of values is not decided.",
        "design_ref": "DESIGN.md §3 C03",
        "note": "Trusted: Take::map_with_mut runs its closure exactly once.",
    },
    "C05": {
        "technique": "control-dependence of every hook emission on its configuration gate through callers (OP-GATE, METHOD-GATE), provenance of hook names (HOOK-NAMES), JS syntax-tree rule on the prologue template (PROLOGUE), recognised-idiom checks of defaults (DEFAULTS)",
        "text": "Decides that operator/method hooks are only built behind the matching configuration lookup, that the emitted member name is always a configured replacement name on the constant namespace, that the prologue defines a pass-through for every configured name without overwriting, and every documented default.",
        "design_ref": "DESIGN.md §3 C05",
        "note": "Trusted: serde option-name mapping; dst values are identifier names.",
    },
    "C08": {
        "technique": "grammar-position rules on constructed output: PAREN-WRAP, GROUP (assign-right, paren-strip), PROGRAM-KIND, trailer-is-a-line-comment",
        "text": "Does NOT decide validity of swc's printed text. Decides the structural conditions the rewriter itself controls: sequences parenthesised, hoisted comma expressions parenthesised, program kind untouched, trailer on its own comment line.",
        "design_ref": "DESIGN.md §3 C08",
        "note": "Trusted: swc code generator prints a valid program for a well-formed tree.",
    },
}

PENDING = "check not built yet (implementation in progress; see DESIGN.md)"
NOT_APPLICABLE = {}


def main():
    props = [json.loads(l) for l in open(os.path.join(VERIF, "properties.jsonl"))]
    checks = []
    na = []
    for p in props:
        pid = p["id"]
        if pid in CLAIMED:
            c = CLAIMED[pid]
            checks.append(
                {
                    "property_id": pid,
                    "quick_cmd": "python3 bin/check.py %s --tier quick" % pid,
                    "thorough_cmd": "python3 bin/check.py %s --tier thorough" % pid,
                    "evidence_file": "evidence/%s.json" % pid,
                    "replay_cmd_template": "python3 bin/check.py --replay {path}",
                    "engine": "iast-static",
                    "level_claimed": {"category": "other", "text": c["text"], "design_ref": c["design_ref"]},
                    "level_note": c["note"],
                    "technique": c["technique"],
                }
            )
        else:
            na.append({"property_id": pid, "reason": NOT_APPLICABLE.get(pid, PENDING)})
    m = {
        "version": 1,
        "setup_cmd": "bash bin/setup.sh",
        "hooks": {
            "guard": "datadog_dd_native_iast_rewriter_js_verif",
            "enable": "none: the static analysis reads /repo's sources through a rustc driver; no hook code is compiled into /repo",
            "baseline_off_cmd": "cd /repo && cargo test --workspace --no-fail-fast --offline",
            "source_commits": [],
            "add_only": True,
        },
        "engines": [
            {
                "name": "iast-static",
                "path": "bin/check.py",
                "serves_properties": sorted(CLAIMED),
                "kind_free_text": "rustc_private fact extractor (typed HIR, MIR, ADT graph, type queries) + swc-based JS syntax dumper + Python rule engine; decides structural necessary conditions from source, never runs the rewriter",
            }
        ],
        "checks": checks,
        "not_applicable": na,
        "notes": "All checks are static analyses of /repo's current working tree (facts rebuilt whenever a source file changes). Repairs of genuine defects are unguarded 'fix:' commits in /repo, listed in known_findings.json.",
    }
    with open(os.path.join(VERIF, "MANIFEST.json"), "w") as fh:
        json.dump(m, fh, indent=1)
    print("MANIFEST.json: %d checks, %d not applicable" % (len(checks), len(na)))


if __name__ == "__main__":
    main()
