#!/usr/bin/env python3
"""Development aid (NOT a registered check): a generic mutation campaign over /repo's Rust sources.

For every generated mutant: does it compile, does the pinned suite still pass (a "survivor" of the
tests), and if so which of the sixteen checks report it.  Survivors that no check reports are printed
for manual triage (equivalent mutant / outside every property / a gap of the checker).

usage: mutcamp.py [--jobs N] [--limit N] [--files glob,glob] [--out FILE] [--ops a,b,c]
Scratch copies and build output live under /tmp/mc and are removed at the end.
"""
import argparse
import fnmatch
import json
import os
import re
import shutil
import subprocess
import sys
import time
from concurrent.futures import ThreadPoolExecutor
from queue import Queue

HERE = os.path.dirname(os.path.abspath(__file__))
REPO = "/repo"
ROOT = "/tmp/mc"
PROPS = ["C%02d" % i for i in range(1, 17)]

SWAPS = [
    ("eqne", r"(?<![=!<>])==(?!=)", "!="),
    ("neeq", r"!=(?!=)", "=="),
    ("andor", r"&&", "||"),
    ("orand", r"\|\|", "&&"),
    ("somenone", r"\.is_some\(\)", ".is_none()"),
    ("nonesome", r"\.is_none\(\)", ".is_some()"),
    ("true", r"\btrue\b", "false"),
    ("false", r"\bfalse\b", "true"),
    ("gtge", r"(?<= )>(?= )", ">="),
    ("lelt", r"<=", "<"),
    ("modekeep", r"IdentMode::Replace", "IdentMode::Keep"),
    ("modereplace", r"IdentMode::Keep", "IdentMode::Replace"),
    ("expandyes", r"ExpandArrays::No", "ExpandArrays::Yes"),
    ("expandno", r"ExpandArrays::Yes", "ExpandArrays::No"),
    ("kindspread", r"IdentKind::Expr", "IdentKind::Spread"),
    ("kindexpr", r"IdentKind::Spread", "IdentKind::Expr"),
    ("statusnm", r"Status::Modified", "Status::NotModified"),
    ("zeroone", r"(?<![\w.])0(?![\w.])", "1"),
    ("onezero", r"(?<![\w.])1(?![\w.])", "0"),
    ("notdrop", r"(?<=[\s(])!(?=[a-zA-Z_(])", ""),
    ("childrenwith", r"visit_mut_children_with", "visit_mut_with"),
    ("iterrev", r"\.iter\(\)(?!\.rev)", ".iter().rev()"),
    ("clonespan", r"\bDUMMY_SP\b", "span"),
    # second campaign: type-compatible API confusions and boundary arithmetic
    ("litident", r"\.is_lit\(\)", ".is_ident()"),
    ("identlit", r"\.is_ident\(\)", ".is_lit()"),
    ("firstlast", r"\.first\(\)", ".last()"),
    ("srcdstline", r"get_src_line\(\)", "get_dst_line()"),
    ("dstsrcline", r"get_dst_line\(\)", "get_src_line()"),
    ("srcdstcol", r"get_src_col\(\)", "get_dst_col()"),
    ("dstsrccol", r"get_dst_col\(\)", "get_src_col()"),
    ("lohi", r"\.lo\b", ".hi"),
    ("trimstart", r"\.trim\(\)", ".trim_start()"),
    ("startscontains", r"\.starts_with\(", ".contains("),
    ("startsends", r"\.starts_with\(", ".ends_with("),
    ("plusone", r" \+ 1\b", " + 0"),
    ("minusone", r" - 1\b", " - 0"),
    ("somenoneval", r"Some\(([a-z_]+)\)(?=[,;)\s])", "None"),
    ("anyall", r"\.any\(", ".all("),
    ("allany", r"\.all\(", ".any("),
    ("skip1", r"\.skip\(1\)", ".skip(0)"),
    ("isempty", r"\.is_empty\(\)", ".is_empty() == false"),
    ("unwrapordefault", r"\.unwrap_or\(false\)", ".unwrap_or(true)"),
    ("addassign", r"AssignOp::AddAssign", "AssignOp::Assign"),
    ("binadd", r"BinaryOp::Add\b", "BinaryOp::Sub"),
    ("eqeq", r"BinaryOp::EqEq\b", "BinaryOp::EqEqEq"),
    ("letkind", r"VarDeclKind::Let", "VarDeclKind::Var"),
]
STMT_DELETE = re.compile(r"^\s*[A-Za-z_][\w.:]*(?:\([^;]*\))?(?:\.[\w]+\([^;]*\))+;\s*$")


def production_files(globs):
    out = []
    for d, _, fs in os.walk(os.path.join(REPO, "src")):
        if "/tests" in d:
            continue
        for f in fs:
            if not f.endswith(".rs") or f in ("lib_napi.rs", "tracer_logger.rs"):
                continue
            rel = os.path.relpath(os.path.join(d, f), REPO)
            if globs and not any(fnmatch.fnmatch(rel, g) for g in globs):
                continue
            out.append(rel)
    return sorted(out)


def in_test_or_comment(lines, i):
    s = lines[i].lstrip()
    if s.startswith("//") or s.startswith("*") or s.startswith("/*") or s.startswith("#["):
        return True
    return False


def generate(files, ops):
    muts = []
    for rel in files:
        text = open(os.path.join(REPO, rel)).read()
        lines = text.split("\n")
        cut = len(lines)
        for i, l in enumerate(lines):
            if "#[cfg(test)]" in l:
                cut = i
                break
        for i in range(cut):
            l = lines[i]
            if in_test_or_comment(lines, i) or l.strip().startswith("use ") or "debug!" in l or "log::" in l:
                continue
            code = l.split("//")[0]
            for name, pat, rep in SWAPS:
                if ops and name not in ops:
                    continue
                for k, m in enumerate(re.finditer(pat, code)):
                    # skip matches inside string literals (rough: odd number of quotes before)
                    if code[: m.start()].count('"') % 2 == 1:
                        continue
                    new = l[: m.start()] + rep + l[m.end() :]
                    muts.append({"file": rel, "line": i + 1, "op": name, "k": k, "old": l, "new": new})
            if (not ops or "delstmt" in ops) and STMT_DELETE.match(code) and "let " not in code and "return" not in code:
                muts.append({"file": rel, "line": i + 1, "op": "delstmt", "k": 0, "old": l, "new": re.match(r"^\s*", l).group(0) + "// (deleted)"})
    return muts


def setup_worker(i):
    w = os.path.join(ROOT, "w%d" % i)
    if os.path.exists(w):
        shutil.rmtree(w)
    os.makedirs(w)
    for name in os.listdir(REPO):
        if name in ("target", ".git", "node_modules", "wasm", "benchmark", "integration-test", "docker"):
            continue
        s, d = os.path.join(REPO, name), os.path.join(w, name)
        if os.path.isdir(s):
            shutil.copytree(s, d, symlinks=True)
        else:
            shutil.copy2(s, d)
    t = os.path.join(ROOT, "t%d" % i)
    if not os.path.exists(t):
        seed = "/tmp/probe-target"
        if os.path.isdir(seed):
            shutil.copytree(seed, t, symlinks=True)
    return w, t


def run_one(w, t, m):
    p = os.path.join(w, m["file"])
    orig = open(p).read()
    lines = orig.split("\n")
    if lines[m["line"] - 1] != m["old"]:
        return dict(m, verdict="stale")
    lines[m["line"] - 1] = m["new"]
    open(p, "w").write("\n".join(lines))
    env = dict(os.environ, CARGO_NET_OFFLINE="true", CARGO_TARGET_DIR=t, RUSTFLAGS="-Awarnings")
    try:
        r = subprocess.run(["cargo", "test", "--offline", "--lib", "--no-fail-fast", "-q"], cwd=w, env=env, capture_output=True, text=True, timeout=900)
        out = r.stdout + r.stderr
        if "error[" in out or "error:" in out and "could not compile" in out:
            verdict = "compile-fail"
        else:
            mm = re.search(r"test result: (\w+)\. (\d+) passed; (\d+) failed", out)
            if not mm:
                verdict = "no-result"
            elif mm.group(1) == "ok" and int(mm.group(3)) == 0:
                verdict = "survived"
            else:
                verdict = "killed-by-tests"
        res = dict(m, verdict=verdict)
        if verdict == "survived":
            flagged = {}
            for pr in PROPS:
                c = subprocess.run([sys.executable, os.path.join(HERE, "check.py"), pr, "--repo", w], capture_output=True, text=True, timeout=600)
                if c.returncode != 0:
                    rules = sorted(set(re.findall(r": rule ([A-Z0-9-]+):", c.stdout)))
                    flagged[pr] = rules or ["exit %d" % c.returncode]
            res["flagged"] = flagged
        return res
    except subprocess.TimeoutExpired:
        return dict(m, verdict="timeout")
    finally:
        open(p, "w").write(orig)


def main():
    ap = argparse.ArgumentParser()
    ap.add_argument("--jobs", type=int, default=6)
    ap.add_argument("--limit", type=int, default=0)
    ap.add_argument("--files", default="")
    ap.add_argument("--ops", default="")
    ap.add_argument("--out", default=os.path.join(ROOT, "results.jsonl"))
    ap.add_argument("--stride", type=int, default=1)
    ap.add_argument("--keep", action="store_true")
    a = ap.parse_args()
    os.makedirs(ROOT, exist_ok=True)
    files = production_files([g for g in a.files.split(",") if g])
    muts = generate(files, set(x for x in a.ops.split(",") if x))
    muts = muts[:: a.stride]
    if a.limit:
        muts = muts[: a.limit]
    print("%d mutants over %d files" % (len(muts), len(files)), flush=True)
    q = Queue()
    for i in range(a.jobs):
        q.put(setup_worker(i))
    t0 = time.time()
    done = [0]
    fh = open(a.out, "a")

    def work(m):
        w, t = q.get()
        try:
            r = run_one(w, t, m)
        finally:
            q.put((w, t))
        fh.write(json.dumps(r) + "\n")
        fh.flush()
        done[0] += 1
        if done[0] % 10 == 0:
            print("  %d/%d (%.0fs)" % (done[0], len(muts), time.time() - t0), flush=True)
        return r

    with ThreadPoolExecutor(max_workers=a.jobs) as ex:
        res = list(ex.map(work, muts))
    fh.close()
    from collections import Counter

    print(Counter(r["verdict"] for r in res))
    surv = [r for r in res if r["verdict"] == "survived"]
    caught = [r for r in surv if r.get("flagged")]
    print("survived the tests: %d; reported by a check: %d; silent: %d" % (len(surv), len(caught), len(surv) - len(caught)))
    for r in surv:
        if not r.get("flagged"):
            print("SILENT %s:%d [%s] %s  ->  %s" % (r["file"], r["line"], r["op"], r["old"].strip()[:70], r["new"].strip()[:70]))
    if not a.keep:
        for i in range(a.jobs):
            shutil.rmtree(os.path.join(ROOT, "w%d" % i), ignore_errors=True)
            shutil.rmtree(os.path.join(ROOT, "t%d" % i), ignore_errors=True)


if __name__ == "__main__":
    main()
