#!/usr/bin/env python3
"""Checker self-test: apply each library edit to a scratch copy of /repo's working tree (outside /repo
and /verif), analyse it with the same driver invocation as the real build, and verify that breaking
edits fire the named rule of the named property while behaviour-preserving edits stay silent.
usage: selftest.py [--props C04,C05] [--only NAME] [--jobs N] [--json out.json]"""
import argparse
import json
import os
import re
import shutil
import subprocess
import sys
import tempfile
import time
from concurrent.futures import ThreadPoolExecutor

HERE = os.path.dirname(os.path.abspath(__file__))
sys.path.insert(0, HERE)
from iast import facts as factsmod  # noqa: E402
from iast import mutants  # noqa: E402

ALL_PROPS = ["C%02d" % i for i in range(1, 17)]


def make_base(tmp):
    base = os.path.join(tmp, "base")
    os.makedirs(base)
    for name in os.listdir(factsmod.REPO):
        if name in ("target", ".git", "node_modules", "wasm", "benchmark", "integration-test", "docker", "test"):
            continue
        src = os.path.join(factsmod.REPO, name)
        dst = os.path.join(base, name)
        if os.path.isdir(src):
            shutil.copytree(src, dst, symlinks=True)
        else:
            shutil.copy2(src, dst)
    return base


def apply_edits(d, edits):
    if isinstance(edits, str):
        # a patch file (seeded change recorded under /verif/seeded)
        r = subprocess.run(["patch", "-p1", "-s", "-d", d, "-i", edits], capture_output=True, text=True)
        return None if r.returncode == 0 else "patch does not apply: " + (r.stdout + r.stderr)[-200:]
    for rel, old, new in edits:
        p = os.path.join(d, rel)
        with open(p, encoding="utf-8") as fh:
            s = fh.read()
        if old not in s:
            return "edit not applicable: text not found in %s" % rel
        s = s.replace(old, new) if re.match(r"^\w+$", old) else s.replace(old, new, 1)
        with open(p, "w", encoding="utf-8") as fh:
            fh.write(s)
    return None


_LAST_KNOWN = {}


def run_check(prop, repo):
    r = subprocess.run([sys.executable, os.path.join(HERE, "check.py"), prop, "--repo", repo], capture_output=True, text=True)
    lines = r.stdout.splitlines()
    viol = [l for l in lines if ": rule " in l]
    # the keys of the known findings this run reported (the bracketed `[KEY at file:line]` tail)
    known = set()
    for l in lines:
        if l.startswith("KNOWN-FINDING:"):
            m = re.search(r"\[([^\[\]]+?)(?: at [^\[\]]*)?\]\s*$", l)
            known.add(m.group(1) if m else l[:120])
    _LAST_KNOWN[(prop, repo)] = known
    return r.returncode, viol, r.stderr[-1500:]


_BASE_KNOWN = {}


def base_known(prop):
    """known findings reported on the unchanged tree: a behaviour-preserving edit must keep them visible"""
    if prop not in _BASE_KNOWN:
        run_check(prop, factsmod.REPO)
        _BASE_KNOWN[prop] = _LAST_KNOWN.get((prop, factsmod.REPO), set())
    return _BASE_KNOWN[prop]


def one(args):
    tmp, base, kind, name, expected, edits, props = args
    d = os.path.join(tmp, re.sub(r"[^A-Za-z0-9_-]", "_", name))
    shutil.copytree(base, d)
    res = {"name": name, "kind": kind, "results": {}, "status": "ok"}
    try:
        err = apply_edits(d, edits)
        if err:
            res["status"] = "skipped"
            res["detail"] = err
            return res
        if kind == "breaking":
            for prop, want in expected.items():
                if props and prop not in props:
                    continue
                rc, viol, stderr = run_check(prop, d)
                if rc == 2:
                    res["status"] = "invalid"
                    res["detail"] = "scratch copy does not compile / checker error: " + stderr[-400:]
                    return res
                hit = [v for v in viol if want in v]
                res["results"][prop] = {"rc": rc, "expected": want, "fired": bool(hit), "report": (hit or viol or [""])[0][:300]}
                if rc != 1 or not hit:
                    res["status"] = "MISSED"
        else:
            for prop in props or ALL_PROPS:
                rc, viol, stderr = run_check(prop, d)
                if rc == 2:
                    res["status"] = "invalid"
                    res["detail"] = "scratch copy does not compile / checker error: " + stderr[-400:]
                    return res
                res["results"][prop] = {"rc": rc, "reports": [v[:300] for v in viol[:3]]}
                if rc != 0:
                    res["status"] = "FALSE-ALARM"
                else:
                    lost = sorted(base_known(prop) - _LAST_KNOWN.get((prop, d), set()))
                    if lost and not res.get("may_lose_known"):
                        # the defect is still in the code, the analysis no longer sees it
                        res["results"][prop]["lost_known_findings"] = lost
                        res["status"] = "LOST-FINDING"
    finally:
        shutil.rmtree(d, ignore_errors=True)
    return res


def run(props=None, only=None, jobs=12, include_open=False):
    t0 = time.time()
    factsmod.get_facts(factsmod.REPO)  # make sure the reference invocation exists
    tmp = tempfile.mkdtemp(prefix="verif-selftest-")
    out = []
    try:
        base = make_base(tmp)
        work = []
        for name, expected, edits in mutants.BREAKING:
            if only and not any(o in name for o in only.split(',')):
                continue
            if props and not (set(expected) & set(props)):
                continue
            work.append((tmp, base, "breaking", name, expected, edits, props))
        seeded_dir = os.path.join(os.path.dirname(HERE), "seeded")
        if os.path.isdir(seeded_dir):
            for sd in sorted(os.listdir(seeded_dir)):
                mp = os.path.join(seeded_dir, sd, "meta.json")
                pp = os.path.join(seeded_dir, sd, "patch.diff")
                if not (os.path.exists(mp) and os.path.exists(pp)):
                    continue
                with open(mp) as fh:
                    meta = json.load(fh)
                expected = meta.get("caught_by") or {}
                name = "S-" + sd
                if only and not any(o in name for o in only.split(',')):
                    continue
                if not expected or (props and not (set(expected) & set(props))):
                    continue
                work.append((tmp, base, "breaking", name, expected, pp, props))
                silent = [q for q in (meta.get("must_stay_silent") or []) if not props or q in props]
                if silent:
                    work.append((tmp, base, "preserving", name + "-silent", None, pp, silent))
        for name, edits in mutants.PRESERVING:
            if only and not any(o in name for o in only.split(',')):
                continue
            work.append((tmp, base, "preserving", name, None, edits, props))
        # behaviour-preserving refactorings kept as patches (too large for a string edit)
        # preserving_open/: deep restructurings some rules are still not robust against (DESIGN.md section 10);
        # evaluated only on request (--open), moved to preserving/ once every check stays silent
        dirs = [os.path.join(os.path.dirname(HERE), "preserving")] + ([os.path.join(os.path.dirname(HERE), "preserving_open")] if include_open else [])
        for pres_dir in [d for d in dirs if os.path.isdir(d)]:
            for sd in sorted(os.listdir(pres_dir)):
                pp = os.path.join(pres_dir, sd, "patch.diff")
                name = "PP-" + sd
                if not os.path.exists(pp) or (only and not any(o in name for o in only.split(','))):
                    continue
                work.append((tmp, base, "preserving", name, None, pp, props))
        with ThreadPoolExecutor(max_workers=jobs) as ex:
            out = list(ex.map(one, work))
    finally:
        shutil.rmtree(tmp, ignore_errors=True)
    return out, time.time() - t0


def main():
    ap = argparse.ArgumentParser()
    ap.add_argument("--props")
    ap.add_argument("--only")
    ap.add_argument("--jobs", type=int, default=12)
    ap.add_argument("--json")
    ap.add_argument("--open", action="store_true", help="also run the restructurings in preserving_open/")
    a = ap.parse_args()
    props = a.props.split(",") if a.props else None
    out, dt = run(props, a.only, a.jobs, a.open)
    bad = 0
    for r in out:
        line = "%-12s %-40s" % (r["status"], r["name"])
        if r["status"] in ("MISSED", "FALSE-ALARM", "invalid", "skipped"):
            line += " " + json.dumps(r.get("detail") or r["results"])[:400]
        if r["status"] == "LOST-FINDING":
            line += " " + json.dumps({p_: v_["lost_known_findings"] for p_, v_ in r["results"].items() if v_.get("lost_known_findings")})[:400]
        print(line)
        if r["status"] in ("MISSED", "FALSE-ALARM", "invalid", "LOST-FINDING"):
            bad += 1
    print("self-test: %d edits, %d problems (%.0fs)" % (len(out), bad, dt))
    if a.json:
        with open(a.json, "w") as fh:
            json.dump(out, fh, indent=1)
    return 1 if bad else 0


if __name__ == "__main__":
    sys.exit(main())
