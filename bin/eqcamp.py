#!/usr/bin/env python3
"""Development aid (NOT a registered check): an *equivalence* campaign - mechanical, behaviour-preserving
rewrites of /repo's Rust sources, one site at a time (operands of == swapped, is_some() <-> !is_none(),
clone() <-> to_owned(), Box::new <-> Box::from, Vec::new() <-> Vec::default(), a != b <-> !(a == b),
a struct-literal field hoisted into a `let`, a local renamed, `x += 1` <-> `x = x + 1`, ...).
Every mutant that still compiles must leave all sixteen checks silent and keep the known findings
visible; whatever alarms is printed for triage (a false alarm of the checker, or a lost finding).

usage: eqcamp.py [--jobs N] [--limit N] [--ops a,b] [--files glob] [--out FILE]
Scratch copies live in a temporary directory outside /repo and /verif and are removed at the end."""
import argparse
import fnmatch
import json
import os
import random
import re
import shutil
import sys
import tempfile
import time
from concurrent.futures import ThreadPoolExecutor

HERE = os.path.dirname(os.path.abspath(__file__))
sys.path.insert(0, HERE)
import selftest as ST  # noqa: E402
from iast import facts as factsmod  # noqa: E402

SIMPLE = r"[A-Za-z_][\w]*(?:(?:\.|::)[A-Za-z_]\w*)*(?:\(\))?"

# (name, regex, replacement) applied to ONE match at a time
OPS = [
    ("eqswap", r"(?<![=!<>&|])\b(" + SIMPLE + r") == (" + SIMPLE + r")\b(?!\()", r"\2 == \1"),
    ("neswap", r"\b(" + SIMPLE + r") != (" + SIMPLE + r")\b(?!\()", r"\2 != \1"),
    ("issome", r"(?<![!\w.])((?:[A-Za-z_]\w*)(?:\.[A-Za-z_]\w*(?:\(\))?)*)\.is_some\(\)", r"!\1.is_none()"),
    ("isnone", r"(?<![!\w.])((?:[A-Za-z_]\w*)(?:\.[A-Za-z_]\w*(?:\(\))?)*)\.is_none\(\)", r"!\1.is_some()"),
    ("toowned", r"\.clone\(\)", ".to_owned()"),
    ("boxfrom", r"\bBox::new\(", "Box::from("),
    ("vecdefault", r"\bVec::new\(\)", "Vec::default()"),
    ("strfrom", r"\bString::from\(([a-z_][\w.]*)\)", r"\1.to_string()"),
    ("optsome", r"(?<![:\w])Some\(", "Option::Some("),
    ("nenot", r"\b(" + SIMPLE + r") != (" + SIMPLE + r")\b(?!\()", r"!(\1 == \2)"),
    ("pluseq", r"\b([a-z_][\w.]*) \+= 1;", r"\1 = \1 + 1;"),
    ("isempty", r"(?<![!\w.])((?:[A-Za-z_]\w*)(?:\.[A-Za-z_]\w*)*)\.is_empty\(\)", r"(\1.len() == 0)"),
    ("retnone", r"^(\s*)None$", r"\1return None;"),
    ("derefclone", r"\bexpr\.clone\(\)", "Clone::clone(expr)"),
]


def production_files(globs):
    out = []
    for d, _, fs in os.walk(os.path.join(factsmod.REPO, "src")):
        if "/tests" in d:
            continue
        for f in fs:
            if not f.endswith(".rs") or f in ("lib_napi.rs", "tracer_logger.rs"):
                continue
            rel = os.path.relpath(os.path.join(d, f), factsmod.REPO)
            if globs and not any(fnmatch.fnmatch(rel, g) for g in globs):
                continue
            out.append(rel)
    return sorted(out)


def generate(files, ops):
    muts = []
    for rel in files:
        text = open(os.path.join(factsmod.REPO, rel)).read()
        cut = text.find("#[cfg(test)]")
        body = text if cut < 0 else text[:cut]
        for name, rx, rep in OPS:
            if ops and name not in ops:
                continue
            for m in re.finditer(rx, body, re.M):
                ls = body.rfind("\n", 0, m.start()) + 1
                line = body[ls : body.find("\n", m.start())]
                if line.lstrip().startswith(("//", "*", "/*", "#[", "use ")):
                    continue
                new = body[: m.start()] + m.expand(rep) + body[m.end() :]
                muts.append(("%s:%s:%d" % (name, rel, body.count("\n", 0, m.start()) + 1), rel, new + (text[cut:] if cut >= 0 else ""), line.strip()[:100]))
        # hoist a struct-literal field initialiser into a `let` in front of the statement that contains it
        lines = body.split("\n")
        for i, l in enumerate(lines):
            m = re.match(r"^(\s+)([a-z_]+): ([a-z_][\w.]*(?:\.clone\(\))?),$", l)
            if not m or (ops and "hoistfield" not in ops):
                continue
            j = i
            while j > 0 and not re.match(r"^\s*(let |return |[A-Za-z_:]+\(|TransformResult)", lines[j]):
                j -= 1
            if j == i or i - j > 12:
                continue
            ind = re.match(r"^\s*", lines[j]).group(0)
            nl = list(lines)
            nl[i] = "%s%s: hoisted_%s," % (m.group(1), m.group(2), m.group(2))
            nl.insert(j, "%slet hoisted_%s = %s;" % (ind, m.group(2), m.group(3)))
            muts.append(("hoistfield:%s:%d" % (rel, i + 1), rel, "\n".join(nl) + (text[cut:] if cut >= 0 else ""), l.strip()[:100]))
        # structural rewrites that need brace matching
        def block_end(txt, i):
            """index just after the `}` that closes the `{` at txt[i]"""
            depth, j, n = 0, i, len(txt)
            while j < n:
                ch = txt[j]
                if ch == '"':
                    j += 1
                    while j < n and txt[j] != '"':
                        j += 2 if txt[j] == "\\" else 1
                elif ch == "/" and txt[j : j + 2] == "//":
                    j = txt.find("\n", j)
                    if j < 0:
                        return -1
                elif ch == "{":
                    depth += 1
                elif ch == "}":
                    depth -= 1
                    if depth == 0:
                        return j + 1
                j += 1
            return -1

        tail = text[cut:] if cut >= 0 else ""
        if not ops or "ifswap" in ops:
            for m in re.finditer(r"\bif ([^{}\n;]{3,90}?) \{", body):
                if re.match(r"\s*let\b", m.group(1)) or " let " in m.group(1):
                    continue
                pre = body[max(0, m.start() - 5) : m.start()]
                if "else" in pre:
                    continue
                b1 = m.end() - 1
                e1 = block_end(body, b1)
                if e1 < 0:
                    continue
                m2 = re.match(r"\s*else \{", body[e1:])
                if not m2:
                    continue
                b2 = e1 + m2.end() - 1
                e2 = block_end(body, b2)
                if e2 < 0 or re.match(r"\s*else\b", body[e2:]):
                    continue
                new = body[: m.start()] + "if !(" + m.group(1) + ") " + body[b2:e2] + " else " + body[b1:e1] + body[e2:]
                muts.append(("ifswap:%s:%d" % (rel, body.count("\n", 0, m.start()) + 1), rel, new + tail, m.group(0)[:100]))
        if not ops or "foreach" in ops:
            for m in re.finditer(r"([A-Za-z_][\w.]*(?:\.iter\(\)|\.iter_mut\(\)|\.iter\(\)\.rev\(\)))\s*\.for_each\(\|(\w+)\| \{", body):
                b1 = m.end() - 1
                e1 = block_end(body, b1)
                if e1 < 0 or not re.match(r"\s*\)\s*;?", body[e1:]) or "return" in body[b1:e1]:
                    continue
                close = re.match(r"\s*\)\s*;?", body[e1:]).end()
                new = body[: m.start()] + "for " + m.group(2) + " in " + m.group(1) + " " + body[b1:e1] + body[e1 + close :]
                muts.append(("foreach:%s:%d" % (rel, body.count("\n", 0, m.start()) + 1), rel, new + tail, m.group(0)[:100]))
        if not ops or "hoistcond" in ops:
            for m in re.finditer(r"^(\s*)if ([^{}\n;]{8,100}?) \{$", body, re.M):
                if " let " in " " + m.group(2) or m.group(2).startswith("let "):
                    continue
                ls = m.start()
                prev = body[:ls].rstrip()
                if prev.endswith("else") or prev.endswith("=>") or prev.endswith("="):
                    continue
                new = body[:ls] + m.group(1) + "let hoisted_condition = " + m.group(2) + ";\n" + m.group(1) + "if hoisted_condition {" + body[m.end() :]
                muts.append(("hoistcond:%s:%d" % (rel, body.count("\n", 0, m.start()) + 1), rel, new + tail, m.group(2)[:100]))
        # rename a local (declared once with `let`, long enough not to collide)
        if not ops or "renamelocal" in ops:
            for m in re.finditer(r"\blet (?:mut )?([a-z][a-z_]{5,})\b", body):
                nm = m.group(1)
                if len(re.findall(r"\blet (?:mut )?%s\b" % nm, body)) != 1 or re.search(r"\.%s\b" % nm, body) or re.search(r"\b%s:" % nm, body) or re.search(r"\{%s[}:]" % nm, body):
                    continue
                new = re.sub(r"\b%s\b" % nm, nm + "_r", body)
                muts.append(("renamelocal:%s:%s" % (rel, nm), rel, new + (text[cut:] if cut >= 0 else ""), "let %s" % nm))
    return muts


JS_FILES = ["main.js", "js/source-map/index.js", "js/stack-trace/index.js", "js/source-map/node_source_map.js"]


def generate_js(ops):
    muts = []

    def block_end(txt, i):
        depth, j, n = 0, i, len(txt)
        while j < n:
            ch = txt[j]
            if ch in "'\"`":
                q = ch
                j += 1
                while j < n and txt[j] != q:
                    j += 2 if txt[j] == "\\" else 1
            elif ch == "/" and txt[j : j + 2] == "//":
                j = txt.find("\n", j)
                if j < 0:
                    return -1
            elif ch == "{":
                depth += 1
            elif ch == "}":
                depth -= 1
                if depth == 0:
                    return j + 1
            j += 1
        return -1

    for rel in JS_FILES:
        path = os.path.join(factsmod.REPO, rel)
        if not os.path.exists(path):
            continue
        body = open(path).read()
        if not ops or "jseqswap" in ops:
            for m in re.finditer(r"([A-Za-z_][\w.]*(?:\[[\w.]+\])?) (===|!==) ('[^'\n]*'|[A-Za-z_][\w.]*(?:\[[\w.]+\])?(?![\w.\[(])|\d+(?![\w.]))", body):
                new = body[: m.start()] + "%s %s %s" % (m.group(3), m.group(2), m.group(1)) + body[m.end() :]
                muts.append(("jseqswap:%s:%d" % (rel, body.count("\n", 0, m.start()) + 1), rel, new, m.group(0)[:100]))
        if not ops or "jsifswap" in ops:
            for m in re.finditer(r"\bif \(([^{}\n]{2,90})\) \{", body):
                pre = body[max(0, m.start() - 6) : m.start()]
                if "else" in pre:
                    continue
                b1 = m.end() - 1
                e1 = block_end(body, b1)
                if e1 < 0:
                    continue
                m2 = re.match(r"\s*else \{", body[e1:])
                if not m2:
                    continue
                b2 = e1 + m2.end() - 1
                e2 = block_end(body, b2)
                if e2 < 0:
                    continue
                new = body[: m.start()] + "if (!(" + m.group(1) + ")) " + body[b2:e2] + " else " + body[b1:e1] + body[e2:]
                muts.append(("jsifswap:%s:%d" % (rel, body.count("\n", 0, m.start()) + 1), rel, new, m.group(0)[:100]))
        if not ops or "jsconstlet" in ops:
            for m in re.finditer(r"^(\s+)const ([a-z]\w+) = ", body, re.M):
                new = body[: m.start()] + m.group(1) + "let " + m.group(2) + " = " + body[m.end() :]
                muts.append(("jsconstlet:%s:%d" % (rel, body.count("\n", 0, m.start()) + 1), rel, new, m.group(0).strip()[:100]))
        if not ops or "jsrename" in ops:
            for m in re.finditer(r"^\s+(?:const|let) ([a-z][A-Za-z]{5,}) = ", body, re.M):
                nm = m.group(1)
                if len(re.findall(r"\b(?:const|let) %s\b" % nm, body)) != 1 or re.search(r"\.%s\b" % nm, body) or re.search(r"\b%s:" % nm, body) or re.search(r"[{,] *%s *[},]" % nm, body):
                    continue
                # never inside a string or template literal (a word in a message, a marker text)
                parts = re.split(r"('[^'\n]*'|\"[^\"\n]*\"|`[^`]*`|/(?![*/ ])(?:[^/\n\\]|\\.)+/[gimsuy]*)", body)
                if any(i % 2 == 1 and re.search(r"\b%s\b" % nm, part) for i, part in enumerate(parts)):
                    continue
                new = "".join(part if i % 2 == 1 else re.sub(r"\b%s\b" % nm, nm + "R", part) for i, part in enumerate(parts))
                muts.append(("jsrename:%s:%s" % (rel, nm), rel, new, "const %s" % nm))
        if not ops or "jshoistcond" in ops:
            for m in re.finditer(r"^(\s*)if \(([^{}\n]{6,90})\) \{$", body, re.M):
                prev = body[: m.start()].rstrip()
                if prev.endswith("else"):
                    continue
                new = body[: m.start()] + m.group(1) + "const hoistedCondition = " + m.group(2) + "\n" + m.group(1) + "if (hoistedCondition) {" + body[m.end() :]
                muts.append(("jshoistcond:%s:%d" % (rel, body.count("\n", 0, m.start()) + 1), rel, new, m.group(2)[:100]))
    return muts


def one(args):
    tmp, base, name, rel, new_text, line = args
    d = os.path.join(tmp, re.sub(r"[^A-Za-z0-9_-]", "_", name))
    shutil.copytree(base, d)
    res = {"name": name, "line": line, "status": "ok", "alarms": {}, "lost": {}}
    try:
        with open(os.path.join(d, rel), "w") as fh:
            fh.write(new_text)
        for prop in ST.ALL_PROPS:
            rc, viol, stderr = ST.run_check(prop, d)
            if rc == 2:
                res["status"] = "nocompile"
                res["detail"] = stderr[-300:]
                return res
            if rc != 0:
                res["status"] = "ALARM"
                res["alarms"][prop] = [v[:260] for v in viol[:3]]
            else:
                lost = sorted(ST.base_known(prop) - ST._LAST_KNOWN.get((prop, d), set()))
                if lost:
                    res["status"] = "ALARM" if res["status"] == "ALARM" else "LOST"
                    res["lost"][prop] = lost
    finally:
        shutil.rmtree(d, ignore_errors=True)
    return res


def main():
    ap = argparse.ArgumentParser()
    ap.add_argument("--jobs", type=int, default=12)
    ap.add_argument("--limit", type=int, default=0)
    ap.add_argument("--ops")
    ap.add_argument("--files")
    ap.add_argument("--out", default="/tmp/eqcamp.json")
    ap.add_argument("--seed", type=int, default=1)
    ap.add_argument("--rerun", help="a previous --out file: run only the mutants it reported as ALARM / LOST")
    a = ap.parse_args()
    files = production_files(a.files.split(",") if a.files else None)
    ops_ = a.ops.split(",") if a.ops else None
    muts = generate(files, ops_) if not (ops_ and all(o.startswith("js") for o in ops_)) else []
    if not ops_ or any(o.startswith("js") for o in ops_):
        muts += generate_js(ops_)
    if a.rerun:
        prev = {r["name"] for r in json.load(open(a.rerun)) if r["status"] in ("ALARM", "LOST")}
        muts = [m for m in muts if m[0] in prev]
    random.Random(a.seed).shuffle(muts)
    if a.limit:
        muts = muts[: a.limit]
    print("%d equivalence mutants over %d files" % (len(muts), len(files)))
    factsmod.get_facts(factsmod.REPO)
    for p in ST.ALL_PROPS:
        ST.base_known(p)
    tmp = tempfile.mkdtemp(prefix="verif-eqcamp-")
    t0 = time.time()
    try:
        base = ST.make_base(tmp)
        with ThreadPoolExecutor(max_workers=a.jobs) as ex:
            out = list(ex.map(one, [(tmp, base, n, r, t, l) for n, r, t, l in muts]))
    finally:
        shutil.rmtree(tmp, ignore_errors=True)
    st = {}
    for r in out:
        st[r["status"]] = st.get(r["status"], 0) + 1
    print("done in %.0fs: %s" % (time.time() - t0, st))
    for r in out:
        if r["status"] in ("ALARM", "LOST"):
            print("%s %s   [%s]" % (r["status"], r["name"], r["line"]))
            for p, v in r["alarms"].items():
                for x in v[:2]:
                    print("    %s %s" % (p, x))
            for p, v in r["lost"].items():
                print("    %s lost %s" % (p, v))
    with open(a.out, "w") as fh:
        json.dump(out, fh, indent=1)


if __name__ == "__main__":
    main()
