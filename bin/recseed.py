#!/usr/bin/env python3
"""development aid: record a confirmed seeded change under /verif/seeded/<name>/
usage: recseed.py <outdir> <name> <breaks> '<caught_by json>' '<note>' [must_stay_silent csv]"""
import json, os, shutil, sys
out, name, breaks, caught, note = sys.argv[1:6]
silent = sys.argv[6].split(",") if len(sys.argv) > 6 and sys.argv[6] else []
d = os.path.join("/verif/seeded", name)
os.makedirs(d, exist_ok=True)
shutil.copy(os.path.join(out, "patch.diff"), os.path.join(d, "patch.diff"))
for f in ("demo.diff", "demo.js"):
    if os.path.exists(os.path.join(out, f)):
        shutil.copy(os.path.join(out, f), os.path.join(d, f))
m = json.load(open(os.path.join(out, "meta.json")))
meta = {
    "id": name,
    "breaks_property": breaks,
    "summary": m.get("summary"),
    "needs_to_manifest": m.get("needs"),
    "why_tests_miss": m.get("why_tests_miss"),
    "author": "independent sub-agent (rounds 5-13: option interplay, leaking state, special syntax positions, scopes, clone-vs-take, overrides, lossy conversions, JS glue; fast paths, memo keys, error paths, visit order, boundaries, wasm/JS interface, prefix, telemetry, swc options; JS-semantics corners, type-level changes, laziness, casts, encodings, source-map spec details, sharing) given only the property text and a scratch worktree",
    "confirmed_by_me": {"how": "bin/seedeval.sh", "suite_with_change": "98 passed", "demo_with_change": "fails", "demo_without_change": "passes"},
    "agent_commands": m.get("commands"),
    "caught_by": json.loads(caught),
    "note": note,
}
if silent:
    meta["must_stay_silent"] = silent
json.dump(meta, open(os.path.join(d, "meta.json"), "w"), indent=1)
print("recorded", d)
