#!/usr/bin/env python3
import sys, os, importlib
sys.path.insert(0, os.path.dirname(os.path.abspath(__file__)))
from iast import facts
from iast.engine import Program, Check
p = Program(facts.get_facts(sys.argv[2] if len(sys.argv) > 2 else facts.REPO))
c = Check(sys.argv[1].upper(), 'quick', p)
m = importlib.import_module('iast.props.' + sys.argv[1].lower()); m.run(c)
for i in c.instances:
    print(i['verdict'][:4], i['key'], '@', i['where'], '|', i['detail'][:160])
