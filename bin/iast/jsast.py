"""Helpers over the ESTree-like JSON (swc serde) of the JS files."""


def walk(n):
    stack = [n]
    while stack:
        x = stack.pop()
        if isinstance(x, dict):
            yield x
            for v in x.values():
                if isinstance(v, (dict, list)):
                    stack.append(v)
        elif isinstance(x, list):
            stack.extend(reversed(x))


def ident_name(n):
    if not isinstance(n, dict):
        return None
    if n.get("type") == "Identifier":
        return n["value"]
    if n.get("type") == "ThisExpression":
        return "this"
    if n.get("type") == "ParenthesisExpression":
        return ident_name(n["expression"])
    return None


def param_name(p):
    pat = p.get("pat", p)
    if pat.get("type") == "Identifier":
        return pat["value"]
    if pat.get("type") == "AssignmentPattern":
        return ident_name(pat["left"])
    return None


def member_chain(n):
    """a.b.c -> ['a','b','c'] (non-optional, non-computed), else None"""
    if not isinstance(n, dict):
        return None
    t = n.get("type")
    if t in ("Identifier", "ThisExpression"):
        return [ident_name(n)]
    if t == "Super":
        return ["super"]
    if t == "MemberExpression":
        base = member_chain(n["object"])
        prop = n["property"]
        if base is None or prop.get("type") != "Identifier":
            return None
        return base + [prop["value"]]
    if t == "SuperPropExpression":
        prop = n["property"]
        return ["super", prop["value"]] if prop.get("type") == "Identifier" else None
    if t == "ParenthesisExpression":
        return member_chain(n["expression"])
    return None


def opt_member_chain(n):
    """a?.b?.c or a.b.c -> ['a','b','c']"""
    if not isinstance(n, dict):
        return None
    t = n.get("type")
    if t == "OptionalChainingExpression":
        b = n["base"]
        if b.get("type") == "MemberExpression":
            base = opt_member_chain(b["object"])
            prop = b["property"]
            if base is None or prop.get("type") != "Identifier":
                return None
            return base + [prop["value"]]
        return None
    if t == "MemberExpression":
        base = opt_member_chain(n["object"])
        prop = n["property"]
        if base is None or prop.get("type") != "Identifier":
            return None
        return base + [prop["value"]]
    return member_chain(n)


def strict_eq_literal(n, consts=None):
    """(expr, 'literal') for `expr === 'literal'` (or a module-level string constant)"""
    if n.get("type") == "BinaryExpression" and n["operator"] in ("===", "=="):
        l, r = n["left"], n["right"]
        if r.get("type") == "StringLiteral":
            return (l, r["value"])
        if l.get("type") == "StringLiteral":
            return (r, l["value"])
        if consts:
            if r.get("type") == "Identifier" and r["value"] in consts:
                return (l, consts[r["value"]])
            if l.get("type") == "Identifier" and l["value"] in consts:
                return (r, consts[l["value"]])
    return None


def _normalise_js(program):
    """`const c = <condition>; if (c) {..}` - a name computed for the very next `if` and used nowhere else - is
    that `if`'s condition (the JS side of the normaliser in engine._normalise)"""
    # a module-level string constant written by derivation - a template literal (or a `+`) over string
    # literals and earlier module-level string constants - is that string
    top = program.get("body") if isinstance(program.get("body"), list) else (program.get("program") or {}).get("body") or []
    consts = {}

    def const_str(e):
        t = (e or {}).get("type")
        if t == "StringLiteral":
            return e["value"]
        if t == "Identifier":
            return consts.get(e.get("value"))
        if t == "ParenthesisExpression":
            return const_str(e["expression"])
        if t == "TemplateLiteral":
            parts = []
            for i, q in enumerate(e.get("quasis") or []):
                if q.get("cooked") is None:
                    return None
                parts.append(q["cooked"])
                if i < len(e.get("expressions") or []):
                    v = const_str(e["expressions"][i])
                    if v is None:
                        return None
                    parts.append(v)
            return "".join(parts)
        if t == "BinaryExpression" and e.get("operator") == "+":
            a, b = const_str(e["left"]), const_str(e["right"])
            return a + b if a is not None and b is not None else None
        return None

    for st in top:
        if not (isinstance(st, dict) and st.get("type") == "VariableDeclaration" and st.get("kind") == "const"):
            continue
        for d in st.get("declarations") or []:
            if (d.get("id") or {}).get("type") != "Identifier" or not d.get("init"):
                continue
            v = const_str(d["init"])
            if v is None:
                continue
            consts[d["id"]["value"]] = v
            if d["init"].get("type") != "StringLiteral":
                d["init"] = {"type": "StringLiteral", "value": v, "raw": repr(v), "span": d["init"].get("span"), "derived": True}
    for n in list(walk(program)):
        for key in ("body", "stmts"):
            lst = n.get(key)
            if not isinstance(lst, list):
                continue
            i = 0
            while i + 1 < len(lst):
                st, nx = lst[i], lst[i + 1]
                if not (isinstance(st, dict) and st.get("type") == "VariableDeclaration" and len(st.get("declarations", [])) == 1 and isinstance(nx, dict) and nx.get("type") == "IfStatement"):
                    i += 1
                    continue
                d = st["declarations"][0]
                nm = ident_name(d.get("id")) if (d.get("id") or {}).get("type") == "Identifier" else None
                if nm is None or d.get("init") is None:
                    i += 1
                    continue
                def cond_positions(e):
                    """identifiers standing where a truth value is wanted: the test itself, under !, && and ||"""
                    t = e.get("type")
                    if t == "Identifier":
                        return [e]
                    if t == "ParenthesisExpression":
                        return cond_positions(e["expression"])
                    if t == "UnaryExpression" and e.get("operator") == "!":
                        return cond_positions(e["argument"])
                    if t in ("BinaryExpression", "LogicalExpression") and e.get("operator") in ("&&", "||"):
                        return cond_positions(e["left"]) + cond_positions(e["right"])
                    return []

                uses_test = [x for x in cond_positions(nx["test"]) if x.get("value") == nm]
                uses_all = [x for rest in lst[i + 1 :] for x in walk(rest) if x.get("type") == "Identifier" and x.get("value") == nm]
                if len(uses_test) != 1 or len(uses_all) != 1:
                    i += 1
                    continue
                use = uses_test[0]
                init = d["init"]
                use.clear()
                use.update({"type": "ParenthesisExpression", "span": init.get("span"), "expression": init})
                del lst[i]


def cache_roles(jsfile):
    """the two module-level caches of js/source-map/index.js by what they are, not by what they are called:
    `rewritten` is the plain `new Map()`, `original` the other module-level `new <Class>(..)` (the LRU)"""
    roles = {"rewritten": "rewrittenSourceMapsCache", "original": "originalSourceMapsCache"}
    maps, others = [], []
    for stmt in jsfile.body:
        if stmt.get("type") != "VariableDeclaration":
            continue
        for d in stmt["declarations"]:
            init = d.get("init") or {}
            nm = ident_name(d["id"]) if (d.get("id") or {}).get("type") == "Identifier" else None
            if nm and init.get("type") == "NewExpression":
                (maps if ident_name(init.get("callee")) == "Map" else others).append(nm)
    if len(maps) == 1:
        roles["rewritten"] = maps[0]
    if len(others) == 1:
        roles["original"] = others[0]
    return roles


class JsFile:
    def __init__(self, js, name):
        from .engine import AnchorMissing

        self.name = name
        rec = js.get(name)
        if not rec or not rec.get("ok"):
            raise AnchorMissing("JS file %s" % name)
        self.rec = rec
        if not rec.get("_normalised"):
            _normalise_js(rec["program"])
            rec["_normalised"] = True
        self.program = rec["program"]
        self.body = self.program["body"]

    def line(self, node):
        sp = node.get("span")
        if not sp:
            return 0
        off = sp["start"] - self.rec["base"]
        ls = self.rec["line_starts"]
        lo, hi = 0, len(ls)
        while lo + 1 < hi:
            mid = (lo + hi) // 2
            if ls[mid] <= off:
                lo = mid
            else:
                hi = mid
        return lo + 1

    def loc(self, node):
        return "%s:%d" % (self.name, self.line(node))

    def class_decl(self, name):
        from .engine import AnchorMissing

        for n in walk(self.program):
            if n.get("type") == "ClassDeclaration" and ident_name(n.get("identifier")) == name:
                return n
        raise AnchorMissing("class %s in %s" % (name, self.name))

    def method(self, cls, name):
        from .engine import AnchorMissing

        for m in cls["body"]:
            if m.get("type") == "ClassMethod" and m["key"].get("value") == name:
                return m
        raise AnchorMissing("method %s.%s" % (ident_name(cls.get("identifier")), name))

    def function(self, name):
        from .engine import AnchorMissing

        for n in walk(self.program):
            if n.get("type") == "FunctionDeclaration" and ident_name(n.get("identifier")) == name:
                return n
        raise AnchorMissing("function %s in %s" % (name, self.name))

    def marker_strings(self):
        """(plain marker, inline marker) the reader looks for at the start of the last line, by what they are:
        the module-level string that ends in `sourceMappingURL=` and the one that says
        `data:application/json;base64,` - written as one constant or as the plain marker plus the data-URL
        prefix tested on what follows it"""
        from .engine import AnchorMissing

        strs = {}
        for stmt in self.body:
            if stmt.get("type") != "VariableDeclaration":
                continue
            for d in stmt["declarations"]:
                init = d.get("init") or {}
                if (d.get("id") or {}).get("type") == "Identifier" and init.get("type") == "StringLiteral":
                    strs[d["id"]["value"]] = init["value"]
        plain = [v for v in strs.values() if v.rstrip().endswith("sourceMappingURL=")]
        inline = [v for v in strs.values() if "sourceMappingURL=" in v and "base64," in v]
        data = [v for v in strs.values() if v.startswith("data:") and "base64," in v]
        if len(plain) != 1:
            raise AnchorMissing("the `sourceMappingURL=` marker string in %s" % self.name)
        if len(inline) == 1:
            return plain[0], inline[0]
        if len(data) == 1:
            return plain[0], plain[0] + data[0]
        raise AnchorMissing("the inline (base64 data URL) marker string in %s" % self.name)

    def const_string(self, name):
        from .engine import AnchorMissing

        for n in walk(self.program):
            if n.get("type") == "VariableDeclarator" and ident_name(n.get("id")) == name:
                init = n.get("init")
                if init and init.get("type") == "StringLiteral":
                    return init["value"]
        raise AnchorMissing("string constant %s in %s" % (name, self.name))
