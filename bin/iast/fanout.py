"""FANOUT: within one function and one structural path, an input-rooted AST sub-tree copied into two
places of the constructed output."""
import re

from . import hir
from .prov import Prov
from .trav import core_type

AST_TYPES = {"Expr", "AssignTarget", "SimpleAssignTarget", "MemberExpr", "CallExpr", "OptCall", "ExprOrSpread", "Callee", "BinExpr", "AssignExpr", "Tpl", "OptChainExpr", "OptChainBase", "BlockStmtOrExpr", "MemberProp", "Pat", "AssignTargetPat"}
COPIES = {"clone", "to_owned", "to_vec", "cloned"}


def _ast_ty(ty):
    t = core_type(ty or "")
    return t.startswith("swc_ecma_ast::") and t.split("::")[-1].split("<")[0] in AST_TYPES


def exclusive(fn, a, b):
    """True if nodes a and b lie in different branches of a common If / Match (cannot both run)."""
    anc_a = [a] + list(fn.ancestors(a))
    anc_b = [b] + list(fn.ancestors(b))
    ids_b = {x["id"]: i for i, x in enumerate(anc_b)}
    for i, x in enumerate(anc_a):
        if x["id"] in ids_b:
            j = ids_b[x["id"]]
            if i == 0 or j == 0:
                return False
            ca, cb = anc_a[i - 1], anc_b[j - 1]
            if x.get("k") == "If":
                ba = "then" if ca is x["then"] else ("else" if ca is x.get("else") else "cond")
                bb = "then" if cb is x["then"] else ("else" if cb is x.get("else") else "cond")
                return {ba, bb} == {"then", "else"}
            if x.get("k") == "Match":
                def arm_of(c):
                    for k, arm in enumerate(x["arms"]):
                        if c is arm["body"] or c is arm.get("guard"):
                            return k
                    return None
                ka, kb = arm_of(ca), arm_of(cb)
                return ka is not None and kb is not None and ka != kb
            return False
    return False


def sinks_into_output(fn, n, depth=0):
    """Does the value of node n syntactically flow (through Box::new / into / Some / a let) into a
    struct-literal field, constructor argument, push() or the function result?"""
    r = _sinks(fn, n)
    if r and r.startswith("local ") and depth < 3:
        # `let x = <copy>; ... S { f: x }`: the copy ends up wherever the (single-assignment) local is used
        par = fn.parent(n)
        while par is not None and par.get("k") != "Block":
            par = fn.parent(par)
        lid = None
        if par is not None:
            for s_ in par["stmts"]:
                if s_["k"] == "Let" and s_.get("init") is not None and any(x is n for x in hir.walk(s_["init"])):
                    b = hir.pat_bindings(s_["pat"])
                    if len(b) == 1:
                        lid = b[0]["local"]
        if lid is not None and not fn.assignments_to(lid):
            for u in fn.nodes():
                if u.get("k") == "Path" and (hir.local_of(u) or (None,))[0] == lid:
                    ru = sinks_into_output(fn, u, depth + 1)
                    if ru and ru.startswith(("field of", "pushed", "constructor")):
                        return ru
    return r


def _sinks(fn, n):
    cur = n
    for _ in range(12):
        par = fn.parent(cur)
        if par is None:
            return "result"
        k = par.get("k")
        if k in ("AddrOf", "DropTemps", "Cast", "Type", "Use") or (k == "Unary" and par.get("op") == "Deref"):
            cur = par
            continue
        if k == "Struct":
            return "field of %s" % (par["res"].get("path") or "?").split("::")[-1]
        if k in ("Call", "MethodCall"):
            name = hir.callee_name(par) or par.get("method")
            f0 = hir.peel(par["f"]) if k == "Call" else {}
            if f0.get("res", {}).get("ctor_path"):
                cp = f0["res"]["ctor_path"].split("::")[-1]
                if cp in ("Some", "Ok"):
                    cur = par
                    continue
                return "constructor %s" % cp
            if name in ("new",) and "Box" in (par.get("callee") or {}).get("path", ""):
                cur = par
                continue
            if name in ("into", "from", "unwrap", "expect") and (k == "Call" or hir.peel(par["recv"]) is hir.peel(cur) or par["recv"] is cur):
                cur = par
                continue
            if name in ("push", "insert", "append") and k == "MethodCall" and par["recv"] is not cur:
                return "pushed"
            if k == "MethodCall" and (par["recv"] is cur or hir.peel(par["recv"]) is hir.peel(cur)):
                # a method applied to the copy (e.g. .args, .is_lit()): follow only projections
                if name in ("expr", "take", "unwrap_or", "map_or", "map_or_else"):
                    cur = par
                    continue
                return None
            return "argument of %s" % name
        if k == "Field":
            cur = par
            continue
        if k == "Block":
            # let x = <copy>  -> is x used in an output position?
            for s in par["stmts"]:
                if s["k"] == "Let" and s.get("init") is cur:
                    b = hir.pat_bindings(s["pat"])
                    if b:
                        return "local %s" % b[0]["name"]
            if par.get("tail") is cur:
                cur = par
                continue
            return None
        if k in ("BlockExpr", "If", "Match", "Closure", "Ret"):
            cur = par
            continue
        if k in ("Tup", "Array"):
            return "tuple/array element"
        if k == "Assign":
            return "assigned to %s" % (hir.place(par["l"]) or "?")
        if k == "LetCond":
            return "matched"
        return None
    return None


_COPIED_MEMO = {}
_COPIED_SINK = {}


def _copied_params(prog, pv, h):
    """indices of the parameters of h that h copies (clone / to_owned ..) into its result or an output position"""
    if h.def_path in _COPIED_MEMO:
        return _COPIED_MEMO[h.def_path]
    out = set()
    _COPIED_MEMO[h.def_path] = out
    for n in h.nodes():
        if hir.is_call(n) and (hir.callee_name(n) or n.get("method")) in COPIES:
            recv = hir.call_args(n)[0]
            if not _ast_ty(hir.peel(recv).get("ty")):
                continue
            if not sinks_into_output(h, n):
                continue
            for r, p in pv.origins(h, recv):
                if r[0] == "param" and r[1] == h.def_path and not [q for q in p if q != "[]" and not re.match(r"^[A-Z][A-Za-z]*\.\d+$", str(q))]:
                    out.add(r[2])
                    _COPIED_SINK.setdefault((h.def_path, r[2]), sinks_into_output(h, n))
    return out


def candidates(prog, fns):
    pv = Prov(prog)
    out = []
    for f in fns:
        sites = []
        for n in f.nodes():
            if hir.is_call(n) and (hir.callee_name(n) or n.get("method")) in COPIES:
                recv = hir.call_args(n)[0]
                if not (_ast_ty(hir.peel(recv).get("ty")) or "Vec<swc_ecma_ast::ExprOrSpread>" in (hir.peel(recv).get("ty") or "")):
                    continue
                roots = set()
                for r, p in pv.origins(f, recv):
                    if r[0] == "param" and r[1] == f.def_path:
                        roots.add((r[2],) + tuple(x for x in p if x not in ("[]",) and not x.endswith(".0") or x.startswith("Simple") is False and False))
                        roots.add((r[2],) + tuple(q for q in p if q != "[]"))
                roots = {r for r in roots if r}
                sink = sinks_into_output(f, n)
                if roots and sink:
                    sites.append((n, roots, sink))
        # copies made by a crate helper: `h(&input.part, ..)` where h clones that parameter into what it
        # returns - the call is a copy site of `input.part`, placed wherever the call's value goes
        for n in f.nodes():
            if not hir.is_call(n) or n.get("exp"):
                continue
            h = prog.resolve_local(n)
            if h is None or h is f or h.body is None or h.rec.get("gen"):
                continue
            copied = _copied_params(prog, pv, h)
            if not copied:
                continue
            roots = set()
            for i_ in copied:
                a_ = hir.call_args(n)
                if i_ >= len(a_) or not (_ast_ty(hir.peel(a_[i_]).get("ty")) or _ast_ty(a_[i_].get("ty"))):
                    continue
                for r, p in pv.origins(f, a_[i_]):
                    if r[0] == "param" and r[1] == f.def_path:
                        roots.add((r[2],) + tuple(q for q in p if q != "[]"))
            roots = {r for r in roots if r}
            # where the copy lands: the structure the helper builds around it
            sink = _COPIED_SINK.get((h.def_path, sorted(copied)[0])) or sinks_into_output(f, n)
            if roots and sink:
                sites.append((n, roots, sink))
        for i in range(len(sites)):
            for j in range(i + 1, len(sites)):
                a, ra, sa = sites[i]
                b, rb, sb = sites[j]
                if exclusive(f, a, b):
                    continue
                ov = None
                for x in ra:
                    for y in rb:
                        m = min(len(x), len(y))
                        if _norm(x[:m]) == _norm(y[:m]):
                            ov = (x, y)
                if ov:
                    out.append((f, a, b, ov, sa, sb))
    return out


def _norm(t):
    # pattern projections like 'Simple.0' denote the same sub-tree as the enum value itself
    return tuple(q for q in t if not re.match(r"^[A-Z][A-Za-z]*\.\d+$", str(q)))


def place_str(fn, root):
    names = [x["pat"].get("name", "?") for x in fn.rec["params"]]
    i = root[0]
    s = names[i] if i < len(names) else "param%d" % i
    for q in _norm(root[1:]):
        s += "." + str(q)
    return s
