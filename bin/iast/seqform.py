"""Symbolic evaluation of expressions that build an ordered collection.

seq_of(fn, e) -> list of items, each ("one", node) - one element given by an expression - or
("all", place, node) - all elements of an existing collection, in order - or ("?", why).
Understands vec![..], Vec::new()/push/append/extend/insert-free imperative building of a local,
iter()/into_iter()/cloned()/copied()/to_vec()/collect()/map(<wrapper>)/chain(..)/std::iter::once(..),
and rev() (reported as ("rev", items) so that a rule can reject it)."""
from . import hir

TRANSPARENT_ITER = {"iter", "iter_mut", "into_iter", "cloned", "copied", "to_vec", "collect", "clone", "to_owned", "as_slice", "by_ref", "into_boxed_slice", "into_vec"}
MUTATORS = {"push", "append", "extend", "extend_from_slice", "insert", "reverse", "sort", "sort_by", "sort_by_key", "swap", "remove", "rotate_left", "rotate_right", "retain", "dedup", "truncate", "pop", "clear", "drain", "splice"}


def _wrapping_closure(e):
    """is e a function value that only wraps / clones its argument (Box::new, |a| Box::new(a.clone()))?"""
    e = hir.peel(e)
    if e.get("k") == "Path":
        p = (e.get("res") or {}).get("path") or hir.def_path_of(e) or ""
        return p.endswith("Box::<T>::new") or p.endswith("Box::new") or p.split("::")[-1] in ("clone", "from", "into")
    if e.get("k") == "Closure" and len(e.get("params", [])) == 1:
        bs = hir.pat_bindings(e["params"][0])
        if len(bs) != 1:
            return False
        body = hir.peel_transparent(e["body"], extra=("take",))
        l = hir.local_of(body)
        return bool(l) and l[0] == bs[0]["local"]
    return False


def seq_of(fn, e, depth=0, upto=None):
    if depth > 8:
        return [("?", "depth")]
    e0 = e
    e = hir.peel(e)
    k = e.get("k")
    if k == "MethodCall":
        m = e["method"]
        if m in TRANSPARENT_ITER:
            return seq_of(fn, e["recv"], depth + 1, upto)
        if m == "map" and e["args"] and _wrapping_closure(e["args"][0]):
            return seq_of(fn, e["recv"], depth + 1, upto)
        if m == "chain" and e["args"]:
            return seq_of(fn, e["recv"], depth + 1, upto) + seq_of(fn, e["args"][0], depth + 1, upto)
        if m == "drain" and e["args"] and "RangeFull" in (hir.peel(e["args"][0]).get("ty") or ""):
            return seq_of(fn, e["recv"], depth + 1, upto)
        if m == "rev":
            return [("rev", seq_of(fn, e["recv"], depth + 1, upto))]
        return [("?", "method %s" % m)]
    if k == "Call":
        nm = hir.callee_name(e) or ""
        path = (e.get("callee") or {}).get("path", "")
        if nm == "once" and "iter" in path and e["args"]:
            return [("one", e["args"][0])]
        if nm in ("new", "with_capacity") and "Vec" in path:
            return []
        if nm == "from" or nm == "into" or nm == "from_iter":
            return seq_of(fn, e["args"][-1], depth + 1, upto) if e["args"] else [("?", nm)]
        # vec![a, b]: box_assume_init_into_vec_unsafe(.. Array ..)
        arrs = [x for x in hir.walk(e) if x.get("k") == "Array"]
        if ("into_vec" in nm or "box_assume_init" in nm) and len(arrs) == 1:
            return [("one", x) for x in arrs[0].get("elems", [])]
        return [("?", "call %s" % nm)]
    if k == "BlockExpr" and "tail" in e.get("block", {}):
        # `{ let mut v = ..; v.push(..); v }`: the value of the block (its locals are locals of fn)
        return seq_of(fn, e["block"]["tail"], depth + 1, None)
    if k == "Array":
        return [("one", x) for x in e.get("elems", [])]
    l = hir.local_of(e)
    if l is not None:
        b = fn.bindings().get(l[0])
        if b is None:
            return [("?", "local")]
        muts = []
        for n in fn.nodes():
            if hir.is_call(n) and (hir.callee_name(n) or n.get("method")) in MUTATORS and hir.call_args(n) and (hir.local_of(hir.call_args(n)[0]) or (None,))[0] == l[0]:
                if upto is None or n["id"] < upto:
                    muts.append(n)
        if b["origin"][0] == "param" and not muts:
            return [("all", hir.place(e), e)]
        if b["origin"][0] == "param":
            items = [("all", hir.place(e), e)]
        elif b["origin"][0] == "let" and b["origin"][1] is not None:
            items = seq_of(fn, b["origin"][1], depth + 1, None)
        else:
            return [("?", "binding %s" % b["origin"][0])]
        for n in sorted(muts, key=lambda x: x["id"]):
            m = hir.callee_name(n) or n.get("method")
            a = hir.call_args(n)
            if m == "push":
                items = items + [("one", a[1])]
            elif m in ("append", "extend", "extend_from_slice"):
                items = items + seq_of(fn, a[1], depth + 1, None)
            elif m == "insert" and hir.lit_value(a[1]) == 0:
                items = [("one", a[2])] + items
            else:
                items = items + [("?", "mutation %s" % m)]
        return items
    if k == "Field":
        # a collection held in a field: what it held, then what this function has appended to it so far
        pl = hir.place(e)
        items = [("all", pl, e)]
        muts = [n for n in fn.nodes() if hir.is_call(n) and (hir.callee_name(n) or n.get("method")) in MUTATORS and hir.call_args(n) and pl is not None and hir.place(hir.call_args(n)[0]) == pl and (upto is None or n["id"] < upto) and n["id"] < e.get("id", 1 << 62) and not any(x is e for x in hir.walk(n))]
        for n in sorted(muts, key=lambda x: x["id"]):
            m = hir.callee_name(n) or n.get("method")
            a = hir.call_args(n)
            if m == "push":
                items = items + [("one", a[1])]
            elif m in ("append", "extend", "extend_from_slice"):
                items = items + seq_of(fn, a[1], depth + 1, None)
            else:
                items = items + [("?", "mutation %s" % m)]
        return items
    return [("?", k)]


def show(items):
    import re

    out = []
    for it in items:
        if it[0] == "one":
            out.append(re.sub(r"#\d+", "", hir.describe(it[1]))[:30])
        elif it[0] == "all":
            out.append("..." + re.sub(r"#\d+", "", it[1] or "?"))
        elif it[0] == "rev":
            out.append("reversed(" + show(it[1]) + ")")
        else:
            out.append("?" + str(it[1]))
    return "[" + ", ".join(out) + "]"
