"""Helpers over the typed-HIR JSON produced by tools/iastfacts."""
import os
import re

# ---------------------------------------------------------------------------------------------
# generic traversal


def is_expr(n):
    return isinstance(n, dict) and "id" in n and "k" in n


def child_exprs(n):
    """Direct sub-expressions (and blocks) of an expression / block node, in evaluation order."""
    k = n.get("k")
    out = []
    if k == "Block":
        for s in n["stmts"]:
            if s["k"] == "Let":
                if "init" in s:
                    out.append(s["init"])
                if "els" in s:
                    out.append(s["els"])
            elif s["k"] in ("Expr", "Semi"):
                out.append(s["e"])
        if "tail" in n:
            out.append(n["tail"])
        return out
    if k == "BlockExpr":
        return [n["block"]]
    if k == "Call":
        return [n["f"]] + n["args"]
    if k == "MethodCall":
        return [n["recv"]] + n["args"]
    if k in ("Tup", "Array"):
        return list(n["elems"])
    if k in ("Binary", "Assign", "AssignOp"):
        return [n["l"], n["r"]]
    if k in ("Unary", "Cast", "Type", "DropTemps", "Field", "AddrOf", "Repeat", "Yield", "Use"):
        return [n["x"]]
    if k in ("Break", "Ret"):
        return [n["x"]] if "x" in n else []
    if k == "LetCond":
        out = [n["init"]]
        out += pat_exprs(n["pat"])
        return out
    if k == "If":
        out = [n["cond"], n["then"]]
        if "else" in n:
            out.append(n["else"])
        return out
    if k == "Loop":
        return [n["body"]]
    if k == "Match":
        out = [n["scrut"]]
        for a in n["arms"]:
            out += pat_exprs(a["pat"])
            if "guard" in a:
                out.append(a["guard"])
            out.append(a["body"])
        return out
    if k == "Closure":
        return [n["body"]]
    if k == "Index":
        return [n["x"], n["i"]]
    if k == "Struct":
        out = [f["e"] for f in n["fields"]]
        if "base" in n:
            out.append(n["base"])
        return out
    return []


def pat_exprs(p):
    """Expressions embedded in a pattern (guard patterns)."""
    out = []
    if p.get("k") == "Guard":
        out.append(p["cond"])
        out += pat_exprs(p["inner"])
    for key in ("sub", "inner"):
        if key in p and p.get("k") != "Guard":
            out += pat_exprs(p[key])
    for key in ("pats",):
        for q in p.get(key, []):
            out += pat_exprs(q)
    for f in p.get("fields", []):
        out += pat_exprs(f["pat"])
    return out


def walk(n):
    """Pre-order over all expression/block nodes below (and including) n, closures included."""
    stack = [n]
    while stack:
        x = stack.pop()
        yield x
        cs = child_exprs(x)
        stack.extend(reversed(cs))


def walk_no_closure(n):
    stack = [n]
    while stack:
        x = stack.pop()
        yield x
        if x.get("k") == "Closure" and x is not n:
            continue
        stack.extend(reversed(child_exprs(x)))


def walk_pat(p):
    yield p
    for key in ("sub", "inner"):
        if key in p:
            yield from walk_pat(p[key])
    for q in p.get("pats", []):
        yield from walk_pat(q)
    if "rest_pat" in p:
        yield from walk_pat(p["rest_pat"])
    for f in p.get("fields", []):
        yield from walk_pat(f["pat"])


def pat_bindings(p):
    return [q for q in walk_pat(p) if q.get("k") == "Binding"]


# ---------------------------------------------------------------------------------------------
# spans / source text

_src_cache = {}


def parse_span(sp):
    m = re.match(r"^(.*):(\d+):(\d+)-(\d+):(\d+)$", sp)
    if not m:
        return (sp, 0, 0, 0, 0)
    return (m.group(1), int(m.group(2)), int(m.group(3)), int(m.group(4)), int(m.group(5)))


def loc(n):
    f, l1, c1, l2, c2 = parse_span(n.get("sp", "?:0:0-0:0"))
    return "%s:%d" % (f, l1)


def src_text(repo, sp, max_lines=12):
    f, l1, c1, l2, c2 = parse_span(sp)
    path = f if os.path.isabs(f) else os.path.join(repo, f)
    if path not in _src_cache:
        try:
            with open(path, encoding="utf-8", errors="replace") as fh:
                _src_cache[path] = fh.read().split("\n")
        except OSError:
            _src_cache[path] = []
    lines = _src_cache[path]
    if not lines or l1 < 1:
        return ""
    seg = lines[l1 - 1 : l2]
    if not seg:
        return ""
    if l1 == l2:
        return seg[0][c1 - 1 : c2 - 1]
    seg = list(seg)
    seg[-1] = seg[-1][: c2 - 1]
    seg[0] = seg[0][c1 - 1 :]
    if len(seg) > max_lines:
        seg = seg[:max_lines] + ["..."]
    return "\n".join(seg)


# ---------------------------------------------------------------------------------------------
# callee helpers


def callee(n):
    """Resolved callee record of a Call / MethodCall / overloaded operator node, else None."""
    return n.get("callee")


def callee_path(n):
    c = n.get("callee")
    if not c:
        return None
    return c.get("resolved") or c["path"]


def callee_decl_path(n):
    c = n.get("callee")
    return c["path"] if c else None


def callee_name(n):
    c = n.get("callee")
    return c["name"] if c else None


def is_call(n):
    return n.get("k") in ("Call", "MethodCall")


def call_args(n):
    """All arguments of a call including the receiver (receiver first)."""
    if n["k"] == "MethodCall":
        return [n["recv"]] + n["args"]
    if n["k"] == "Call":
        return list(n["args"])
    return []


def calls_in(n, name=None, path_suffix=None, closures=True):
    it = walk(n) if closures else walk_no_closure(n)
    for x in it:
        if not is_call(x):
            continue
        c = x.get("callee")
        if not c:
            continue
        if name is not None and c["name"] != name:
            continue
        if path_suffix is not None:
            p = c.get("resolved") or c["path"]
            if not (p.endswith(path_suffix) or c["path"].endswith(path_suffix)):
                continue
        yield x


# ---------------------------------------------------------------------------------------------
# peeling / places

TRANSPARENT_METHODS = {
    "clone",
    "as_ref",
    "as_mut",
    "as_str",
    "as_deref",
    "as_deref_mut",
    "borrow",
    "borrow_mut",
    "deref",
    "deref_mut",
    "to_owned",
    "to_string",
    "into",
    "cloned",
    "copied",
    "as_slice",
    "as_mut_slice",
    "to_vec",
    "iter",
    "iter_mut",
    "into_iter",
    "as_bytes",
}


def peel(n):
    """Strip wrappers that do not change which value is denoted (borrows, derefs, temps, casts)."""
    while True:
        k = n.get("k")
        if k in ("DropTemps", "AddrOf", "Cast", "Type", "Use"):
            n = n["x"]
        elif k == "Unary" and n.get("op") == "Deref":
            n = n["x"]
        elif k == "BlockExpr" and not n["block"]["stmts"] and "tail" in n["block"]:
            n = n["block"]["tail"]
        else:
            return n


def peel_transparent(n, extra=()):
    """peel + transparent methods (clone/as_ref/...) and Box::new / Some / From::from wrappers."""
    while True:
        n = peel(n)
        k = n.get("k")
        if k == "MethodCall" and (n["method"] in TRANSPARENT_METHODS or n["method"] in extra):
            n = n["recv"]
            continue
        if k == "Call" and len(n["args"]) == 1:
            c = n.get("callee")
            f = peel(n["f"])
            if c and (c["path"].endswith("Box::<T>::new") or c["path"] in ("std::boxed::Box::<T>::new",)):
                n = n["args"][0]
                continue
            if c and c["name"] in ("from", "into") and c.get("trait", "").startswith("std::convert::"):
                n = n["args"][0]
                continue
            if f.get("k") == "Path" and f.get("res", {}).get("ctor_path", "").split("::")[-1] == "Some":
                n = n["args"][0]
                continue
        return n


def local_of(n):
    """(local id, name) if n (peeled) is a path to a local binding."""
    n = peel(n)
    if n.get("k") == "Path" and n["res"].get("res") == "Local":
        return (n["res"]["local"], n["res"]["name"])
    return None


def def_path_of(n):
    n = peel(n)
    if n.get("k") == "Path" and n["res"].get("res") == "Def":
        return n["res"]["path"]
    return None


def place(n, transparent=True):
    """Canonical string of a place expression, modulo borrows/derefs (and clones if transparent).
    Returns None when n is not a place-like expression."""
    n = peel_transparent(n) if transparent else peel(n)
    k = n.get("k")
    if k == "Path":
        r = n["res"]
        if r.get("res") == "Local":
            return "%s#%d" % (r["name"], r["local"])
        if r.get("res") == "Def":
            return r["path"]
        return None
    if k == "Field":
        b = place(n["x"], transparent)
        return None if b is None else "%s.%s" % (b, n["field"])
    if k == "Index":
        b = place(n["x"], transparent)
        i = peel(n["i"])
        if b is None:
            return None
        if i.get("k") == "Lit":
            return "%s[%s]" % (b, i["lit"]["v"])
        return "%s[*]" % b
    return None


def lit_value(n):
    n = peel(n)
    if n.get("k") == "Lit":
        return n["lit"]["v"]
    return None


# ---------------------------------------------------------------------------------------------
# per-function indexes


class Fn:
    """Wrapper around one function record with lazily built indexes."""

    def __init__(self, rec, facts):
        self.rec = rec
        self.facts = facts
        self.def_path = rec["def"]
        self.name = rec.get("name")
        self.body = rec.get("body")
        self._parents = None
        self._bind = None
        self._conds = None
        self._byid = None

    def __repr__(self):
        return "<Fn %s>" % self.def_path

    @property
    def file(self):
        return parse_span(self.rec["sp"])[0]

    def nodes(self):
        return walk(self.body) if self.body else iter(())

    def by_id(self, i):
        if self._byid is None:
            self._byid = {n["id"]: n for n in self.nodes()}
        return self._byid[i]

    def parents(self):
        if self._parents is None:
            self._parents = {}
            for n in self.nodes():
                for c in child_exprs(n):
                    self._parents[c["id"]] = n
        return self._parents

    def parent(self, n):
        return self.parents().get(n["id"])

    def ancestors(self, n):
        p = self.parent(n)
        while p is not None:
            yield p
            p = self.parent(p)

    # -- bindings ------------------------------------------------------------------------------
    def bindings(self):
        """local id -> dict(name, mut, origin=..., node=pattern node)
        origin: ('param', index, proj) | ('let', init_expr|None, proj) | ('match', scrut_expr, proj, arm_pat)
                | ('closure_param', closure_node, index, proj)"""
        if self._bind is not None:
            return self._bind
        b = {}

        def add(pat, origin_maker):
            for bnd, proj in pat_binding_projs(pat):
                b[bnd["local"]] = {
                    "name": bnd["name"],
                    "mut": bnd["mode"].endswith("Mut)"),
                    "byref": "Yes" in bnd["mode"],
                    "origin": origin_maker(proj),
                    "node": bnd,
                    "ty": bnd.get("ty"),
                }

        for i, p in enumerate(self.rec.get("params", [])):
            add(p["pat"], lambda proj, i=i: ("param", i, proj))
        if self.body:
            for n in self.nodes():
                k = n.get("k")
                if k == "Block":
                    for s in n["stmts"]:
                        if s["k"] == "Let":
                            init = s.get("init")
                            add(s["pat"], lambda proj, init=init: ("let", init, proj))
                elif k == "Match":
                    for a in n["arms"]:
                        add(a["pat"], lambda proj, n=n, a=a: ("match", n["scrut"], proj, a["pat"]))
                elif k == "LetCond":
                    add(n["pat"], lambda proj, n=n: ("match", n["init"], proj, n["pat"]))
                elif k == "Closure":
                    for i, p in enumerate(n["params"]):
                        add(p, lambda proj, n=n, i=i: ("closure_param", n, i, proj))
        # `for pat in ITER`: the pattern binds the elements of ITER (through complete-iteration adapters)
        if self.body:
            for n in self.nodes():
                if n.get("k") == "Match" and n.get("source", "").startswith("ForLoopDesugar") and is_call(peel(n["scrut"])) and (callee_name(peel(n["scrut"])) or "") == "into_iter":
                    it = call_args(peel(n["scrut"]))
                    if not it:
                        continue
                    src = peel(it[0])
                    extra = []
                    while src.get("k") == "MethodCall" and src["method"] in ("iter", "iter_mut", "into_iter", "by_ref", "rev", "flatten", "skip", "take", "cloned", "copied"):
                        if src["method"] == "flatten":
                            extra.append("Some.0")
                        src = peel(src["recv"])
                    for m in walk(n):
                        if m is not n and m.get("k") == "Match" and m.get("source", "").startswith("ForLoopDesugar"):
                            for a in m["arms"]:
                                if str(pat_variant(a["pat"])).endswith("Some"):
                                    for bnd, proj in pat_binding_projs(a["pat"]):
                                        b[bnd["local"]] = {
                                            "name": bnd["name"],
                                            "mut": bnd["mode"].endswith("Mut)"),
                                            "byref": "Yes" in bnd["mode"],
                                            "origin": ("match", src, [("[]",)] + [(x,) for x in extra] + list(proj[1:]), a["pat"]),
                                            "node": bnd,
                                            "ty": bnd.get("ty"),
                                        }
                            break
        self._bind = b
        return b

    def assignments_to(self, local_id):
        out = []
        for n in self.nodes():
            if n.get("k") in ("Assign", "AssignOp"):
                l = local_of(n["l"])
                if l and l[0] == local_id:
                    out.append(n)
        return out

    # -- conditions ----------------------------------------------------------------------------
    def conds(self):
        """node id -> list of condition records that hold whenever the node is evaluated."""
        if self._conds is None:
            self._conds = {}
            if self.body:
                _assign_conds(self.body, [], self._conds)
        return self._conds

    def conds_at(self, n):
        return self.conds().get(n["id"], [])


def pat_binding_projs(pat, proj=()):
    """[(binding pattern, projection tuple from the matched value)]"""
    out = []
    k = pat.get("k")
    if k == "Binding":
        out.append((pat, proj))
        if "sub" in pat:
            out += pat_binding_projs(pat["sub"], proj)
    elif k == "TupleStruct":
        name = pat["res"].get("ctor_path") or pat["res"].get("path") or pat.get("qname")
        for i, q in enumerate(pat["pats"]):
            out += pat_binding_projs(q, proj + (("variant", name, str(i)),))
    elif k == "Struct":
        name = pat["res"].get("path") or pat.get("qname")
        for f in pat["fields"]:
            out += pat_binding_projs(f["pat"], proj + (("variant", name, f["name"]),))
    elif k == "Tuple":
        for i, q in enumerate(pat["pats"]):
            out += pat_binding_projs(q, proj + (("tuple", str(i)),))
    elif k == "Slice":
        for i, q in enumerate(pat["pats"]):
            out += pat_binding_projs(q, proj + (("[]",),))
        if "rest_pat" in pat:
            out += pat_binding_projs(pat["rest_pat"], proj)
    elif k in ("Box", "Deref", "Ref", "Guard"):
        out += pat_binding_projs(pat["inner"], proj)
    elif k == "Or":
        for q in pat["pats"]:
            out += pat_binding_projs(q, proj)
    return out


# ---------------------------------------------------------------------------------------------
# divergence and path conditions


def diverges(n):
    k = n.get("k")
    if k in ("Ret", "Break", "Continue"):
        return True
    if n.get("ty") == "!" and k not in ("Closure",):
        return True
    if k == "BlockExpr":
        return diverges(n["block"])
    if k == "Block":
        for s in n["stmts"]:
            if s["k"] in ("Expr", "Semi") and diverges(s["e"]):
                return True
            if s["k"] == "Let" and "init" in s and diverges(s["init"]):
                return True
        return "tail" in n and diverges(n["tail"])
    if k == "DropTemps":
        return diverges(n["x"])
    if k == "If":
        return "else" in n and diverges(n["then"]) and diverges(n["else"])
    if k == "Match":
        return bool(n["arms"]) and all(diverges(a["body"]) for a in n["arms"])
    return False


def split_cond(e, v):
    """Decompose a boolean condition with known value v into atomic condition records."""
    e = peel(e)
    k = e.get("k")
    if k == "Binary" and e["op"] == "And" and v:
        return split_cond(e["l"], True) + split_cond(e["r"], True)
    if k == "Binary" and e["op"] == "Or" and not v:
        return split_cond(e["l"], False) + split_cond(e["r"], False)
    if k == "Unary" and e["op"] == "Not":
        return split_cond(e["x"], not v)
    if k == "LetCond":
        return [{"t": "pat", "scrut": e["init"], "pat": e["pat"], "v": v}]
    return [{"t": "bool", "e": e, "v": v}]


def _branch_conds_after(n):
    """If evaluating statement-expression n can only fall through on some branches, the conditions
    that hold afterwards (single surviving branch); else []."""
    n = peel(n) if n.get("k") == "DropTemps" else n
    k = n.get("k")
    if k == "If":
        t_div = diverges(n["then"])
        e_div = "else" in n and diverges(n["else"])
        if t_div and not e_div:
            return split_cond(n["cond"], False)
        if e_div and not t_div:
            return split_cond(n["cond"], True)
        return []
    if k == "Match":
        live = [a for a in n["arms"] if not diverges(a["body"])]
        if len(live) == 1 and len(n["arms"]) > 1:
            a = live[0]
            if n.get("source", "").startswith("TryDesugar"):
                return [{"t": "try", "e": n["scrut"]}]
            out = [{"t": "pat", "scrut": n["scrut"], "pat": a["pat"], "v": True}]
            if "guard" in a:
                out += split_cond(a["guard"], True)
            return out
        if len(live) > 1 and not n.get("source", "").startswith(("TryDesugar", "ForLoop")):
            # several surviving arms: at least the arms that leave (return / break / continue) were not taken -
            # said of the scrutinee only when no surviving arm before them could have matched the same variant
            out = []
            for i, a in enumerate(n["arms"]):
                if not diverges(a["body"]) or "guard" in a:
                    continue
                v = pat_variant(a["pat"])
                if not isinstance(v, str) or v == "_":
                    continue
                earlier = [pat_variant(b["pat"]) for b in n["arms"][:i] if not diverges(b["body"])]
                flat = [y for x in earlier for y in (x if isinstance(x, tuple) else (x,))]
                if any(y == v or y == "_" or y is None for y in flat):
                    continue
                out.append({"t": "pat", "scrut": n["scrut"], "pat": a["pat"], "v": False})
            return out
        return []
    if k == "BlockExpr":
        return []
    return []


def _assign_conds(n, conds, out):
    out[n["id"]] = conds
    k = n.get("k")
    if k == "Block":
        cur = list(conds)
        for s in n["stmts"]:
            if s["k"] == "Let":
                if "init" in s:
                    _assign_conds(s["init"], cur, out)
                    extra = _branch_conds_after(s["init"])
                    if extra:
                        cur = cur + extra
                if "els" in s:
                    _assign_conds(
                        s["els"], cur + [{"t": "pat", "scrut": s.get("init"), "pat": s["pat"], "v": False}], out
                    )
                    cur = cur + [{"t": "pat", "scrut": s.get("init"), "pat": s["pat"], "v": True}]
            elif s["k"] in ("Expr", "Semi"):
                _assign_conds(s["e"], cur, out)
                extra = _branch_conds_after(s["e"])
                if extra:
                    cur = cur + extra
        if "tail" in n:
            _assign_conds(n["tail"], cur, out)
        return
    if k == "If":
        _assign_conds(n["cond"], conds, out)
        _assign_conds(n["then"], conds + split_cond(n["cond"], True), out)
        if "else" in n:
            _assign_conds(n["else"], conds + split_cond(n["cond"], False), out)
        return
    if k == "Binary" and n["op"] in ("And", "Or"):
        _assign_conds(n["l"], conds, out)
        _assign_conds(n["r"], conds + split_cond(n["l"], n["op"] == "And"), out)
        return
    if k == "Match":
        _assign_conds(n["scrut"], conds, out)
        prior = []
        is_try = n.get("source", "").startswith("TryDesugar")
        for a in n["arms"]:
            c = conds + prior + [{"t": "pat", "scrut": n["scrut"], "pat": a["pat"], "v": True}]
            for pe in pat_exprs(a["pat"]):
                _assign_conds(pe, c, out)
            if "guard" in a:
                _assign_conds(a["guard"], c, out)
                c = c + split_cond(a["guard"], True)
            _assign_conds(a["body"], c, out)
            if "guard" in a:
                prior = prior + [{"t": "arm_not", "scrut": n["scrut"], "pat": a["pat"], "guard": a["guard"]}]
            else:
                prior = prior + [{"t": "pat", "scrut": n["scrut"], "pat": a["pat"], "v": False}]
        return
    if k == "Closure":
        _assign_conds(n["body"], conds + [{"t": "closure", "node": n}], out)
        return
    if k == "Loop":
        _assign_conds(n["body"], conds + [{"t": "loop", "node": n}], out)
        return
    for c in child_exprs(n):
        _assign_conds(c, conds, out)


# ---------------------------------------------------------------------------------------------
# describing conditions


def cond_call(c):
    """For a boolean condition record whose expression is a (method) call: (callee name, callee path,
    receiver/first-arg node, value)."""
    if c["t"] != "bool":
        return None
    e = peel(c["e"])
    if is_call(e) and e.get("callee"):
        args = call_args(e)
        return (e["callee"]["name"], callee_path(e), args[0] if args else None, c["v"], e)
    return None


def is_cancelled_test(e):
    """`<..>.status == Status::Cancelled` (either order)"""
    e = peel(e)
    if e.get("k") != "Binary" or e.get("op") != "Eq":
        return False
    sides = [peel(e["l"]), peel(e["r"])]
    has_status = any(s_.get("k") == "Field" and s_.get("field") == "status" for s_ in sides)
    has_const = any(s_.get("k") == "Path" and ((s_.get("res") or {}).get("ctor_path") or "").endswith("Status::Cancelled") for s_ in sides)
    return has_status and has_const


def is_cancel_write(n):
    """`<..>.status = Status::Cancelled` on a TransformStatus"""
    if n.get("k") != "Assign":
        return False
    l, r = peel(n["l"]), peel(n["r"])
    return l.get("k") == "Field" and l.get("field") == "status" and "TransformStatus" in (l.get("base_ty") or "") and r.get("k") == "Path" and ((r.get("res") or {}).get("ctor_path") or "").endswith("Status::Cancelled")


def pat_variant(p):
    """Constructor path matched by a pattern (peeling refs/boxes/bindings with sub-patterns)."""
    while True:
        k = p.get("k")
        if k in ("Box", "Deref", "Ref", "Guard"):
            p = p["inner"]
            continue
        if k == "Binding" and "sub" in p:
            p = p["sub"]
            continue
        break
    k = p.get("k")
    if k in ("TupleStruct", "Struct", "Path"):
        r = p.get("res", {})
        return r.get("ctor_path") or r.get("path") or p.get("qname")
    if k == "Or":
        vs = [pat_variant(q) for q in p["pats"]]
        return tuple(vs)
    if k == "Wild":
        return "_"
    if k == "Binding":
        return "_"
    if k == "Lit":
        return ("lit", p["lit"]["v"])
    return None


def cond_str(c, repo=None):
    t = c["t"]
    if t == "bool":
        e = c["e"]
        s = describe(e)
        return ("" if c["v"] else "!") + "(" + s + ")"
    if t == "pat":
        return "%s %s %s" % (describe(c["scrut"]) if c.get("scrut") else "?", "matches" if c["v"] else "!matches", pat_variant(c["pat"]))
    if t == "arm_not":
        return "!(%s matches %s if %s)" % (describe(c["scrut"]), pat_variant(c["pat"]), describe(c["guard"]))
    if t == "try":
        return "ok(%s?)" % describe(c["e"])
    if t == "closure":
        return "in-closure"
    if t == "loop":
        return "in-loop"
    return t


def describe(n, depth=0):
    """Compact, text-free rendering of an expression from its resolved structure."""
    if n is None:
        return "?"
    if depth > 6:
        return "…"
    n0 = n
    n = peel(n)
    k = n.get("k")
    if k == "Path":
        r = n["res"]
        if r.get("res") == "Local":
            return r["name"]
        return short_path(r.get("ctor_path") or r.get("path") or n.get("qname", "?"))
    if k == "Field":
        return describe(n["x"], depth + 1) + "." + n["field"]
    if k == "MethodCall":
        return "%s.%s(%s)" % (describe(n["recv"], depth + 1), n["method"], ", ".join(describe(a, depth + 1) for a in n["args"]))
    if k == "Call":
        c = n.get("callee")
        name = short_path(c["path"]) if c else describe(n["f"], depth + 1)
        return "%s(%s)" % (name, ", ".join(describe(a, depth + 1) for a in n["args"]))
    if k == "Binary":
        return "%s %s %s" % (describe(n["l"], depth + 1), n["op"], describe(n["r"], depth + 1))
    if k == "Unary":
        return "%s(%s)" % (n["op"], describe(n["x"], depth + 1))
    if k == "Lit":
        return repr(n["lit"]["v"])
    if k == "Index":
        return "%s[%s]" % (describe(n["x"], depth + 1), describe(n["i"], depth + 1))
    if k == "Struct":
        return short_path(n["res"].get("path", n.get("qname", "?"))) + "{..}"
    if k == "Closure":
        return "|..| " + describe(n["body"], depth + 1)
    if k == "LetCond":
        return "let %s = %s" % (pat_variant(n["pat"]), describe(n["init"], depth + 1))
    if k == "BlockExpr":
        return "{..}"
    return k or "?"


def short_path(p):
    if not p:
        return "?"
    parts = p.split("::")
    return "::".join(parts[-2:]) if len(parts) > 1 else p


def while_let_shape(loop):
    """(cur local id, bound local id, then-block) for `while let Some(x) = cur { .. }`, else None"""
    body = loop.get("body")
    if not body or body.get("k") != "Block" or body["stmts"] or "tail" not in body:
        return None
    t = peel(body["tail"])
    if t.get("k") != "If" or "else" not in t:
        return None
    c = peel(t["cond"])
    if c.get("k") != "LetCond":
        return None
    cur = local_of(c["init"])
    if cur is None or str(pat_variant(c["pat"])).split("::")[-1] != "Some":
        return None
    bs = pat_bindings(c["pat"])
    if len(bs) != 1:
        return None
    then = peel(t["then"])
    blk = then["block"] if then.get("k") == "BlockExpr" else then
    if blk.get("k") != "Block":
        return None
    return cur[0], bs[0]["local"], blk


def root_path(fn, e, depth=0, stop=()):
    """(root local id, [field names]) of a place-like expression, looking through borrows, clones,
    as_*/unwrap projections, From::from, and immutable let / pattern bindings; None if unknown"""
    if depth > 8:
        return None
    e = peel_transparent(e, extra=("unwrap", "expect", "as_ident", "as_member", "as_ref", "as_deref"))
    fields = []
    while True:
        k = e.get("k")
        if k == "Field":
            fields.insert(0, e["field"])
            e = peel_transparent(e["x"], extra=("unwrap", "expect", "as_ident", "as_member", "as_ref", "as_deref"))
        else:
            break
    l = local_of(e)
    if l is None:
        return None
    b = fn.bindings().get(l[0])
    if not b or fn.assignments_to(l[0]) or l[0] in stop:
        return (l[0], fields)
    o = b["origin"]
    if o[0] in ("let", "match") and o[1] is not None:
        sub = root_path(fn, o[1], depth + 1, stop)
        if sub is not None:
            return (sub[0], sub[1] + fields)
    return (l[0], fields)


def decision_paths(body):
    """Paths of a (small, loop-free) function body: list of (conds, value) with conds = [(cond expr, bool)]
    and value = the returned / tail expression (None for unit).  If / else-if chains, early returns,
    let statements and plain blocks only; anything else makes the path 'unknown' (value = {'k': '?'})."""
    out = []

    def block(b, conds, k):
        """k(conds) continues after the block with the block's value"""
        def stmts(i, conds):
            if i == len(b["stmts"]):
                if "tail" in b:
                    return expr(b["tail"], conds, k)
                return k(conds, None)
            st = b["stmts"][i]
            e = st.get("init") if st["k"] == "Let" else st.get("e")
            if e is None:
                return stmts(i + 1, conds)
            if st["k"] == "Let" and "els" in st:
                # let PAT = init else { diverges }: the else block under !PAT, the rest under PAT
                pc = {"k": "PatCond", "pat": st["pat"], "scrut": e, "id": e.get("id"), "sp": e.get("sp")}
                block(st["els"], conds + [(pc, False)], lambda c2, v: out.append((c2, {"k": "?", "why": "let-else falls through", "sp": e.get("sp")})))
                return stmts(i + 1, conds + [(pc, True)])
            return expr(e, conds, lambda c2, v: stmts(i + 1, c2))
        return stmts(0, conds)

    def expr(e, conds, k):
        e0 = e
        e = peel(e)
        kind = e.get("k")
        if kind == "BlockExpr":
            return block(e["block"], conds, k)
        if kind == "Block":
            return block(e, conds, k)
        if kind == "Ret":
            if "x" in e:
                return expr(e["x"], conds, lambda c2, v: out.append((c2, v)))
            out.append((conds, None))
            return
        if kind == "If":
            c = e["cond"]
            expr(e["then"], conds + [(c, True)], k)
            if "else" in e:
                expr(e["else"], conds + [(c, False)], k)
            else:
                k(conds + [(c, False)], None)
            return
        if kind == "Match" and not e.get("source", "").startswith(("ForLoop", "TryDesugar")):
            prior = []
            for a in e["arms"]:
                pc = {"k": "PatCond", "pat": a["pat"], "scrut": e["scrut"], "id": a["body"].get("id"), "sp": e.get("sp")}
                cs = conds + prior + [(pc, True)]
                if "guard" in a:
                    cs = cs + [(a["guard"], True)]
                    prior = prior + [({"k": "ArmNot", "pat": a["pat"], "scrut": e["scrut"], "guard": a["guard"], "sp": e.get("sp")}, True)]
                else:
                    prior = prior + [(pc, False)]
                expr(a["body"], cs, k)
            return
        if kind in ("Loop", "Match"):
            return k(conds, {"k": "?", "why": kind, "sp": e.get("sp")})
        return k(conds, e)

    expr(body, [], lambda c, v: out.append((c, v)))
    return out
