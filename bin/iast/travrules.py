"""Shared TRAV rules (cover / root) and the documented-exclusion predicates."""
from . import hir
from .trav import AdtGraph, Traversal, overrides_of, path_conds_str, core_type
from .engine import AnchorMissing

EXPR = "swc_ecma_ast::Expr"
STMT = "swc_ecma_ast::Stmt"
BLOCK = "swc_ecma_ast::BlockStmt"
IDENT = "swc_ecma_ast::Ident"
LIT = "swc_ecma_ast::Lit"
STR = "swc_ecma_ast::Str"


def short(fn):
    return short_def(fn.def_path)


def short_def(d):
    """`<a::b::T<'_> as tr::Trait>::m` -> `T::m`;  `a::b::T::<'_>::m` -> `T::m`"""
    import re

    m = re.match(r"^<(.*) as (.*)>::([A-Za-z0-9_]+)$", d)
    if m:
        self_ty = re.sub(r"<.*>$", "", m.group(1)).split("::")[-1]
        return "%s::%s" % (self_ty, m.group(3))
    d = re.sub(r"::<[^>]*>", "", d)
    parts = d.split("::")
    return "::".join(parts[-2:])


def _is_call_named(e, name):
    e = hir.peel(e)
    return hir.is_call(e) and (hir.callee_name(e) == name or e.get("method") == name)


def _place_ends(e, field):
    e = hir.peel_transparent(e)
    return e.get("k") == "Field" and e["field"] == field


# ---- exclusion predicates: (traversal, path, missing) -> reason or None ----------------------


def excl_delete(tr, path, missing):
    v = tr.variant_known(path, ())
    if not (isinstance(v, str) and v.endswith("Expr::Unary")):
        return None
    if delete_polarity(tr, path) is True:
        return "operand of `delete` (documented exclusion)"
    return None


def delete_polarity(tr, path):
    """True: the path runs only for `delete x`; False: only for other unary operators; None: not decided by
    a conjunct of the path condition"""
    from . import gate as _gate

    for c in path.conds:
        if c.get("t") != "bool":
            continue
        e = _gate._resolve_bool_local(tr.fn, c["e"])
        val = c["v"]
        while e.get("k") == "Unary" and e["op"] == "Not":
            e = _gate._resolve_bool_local(tr.fn, e["x"])
            val = not val
        c = {"t": "bool", "e": e, "v": val}
        if e.get("k") == "Binary" and e["op"] in ("Eq", "Ne"):
            sides = [hir.peel(e["l"]), hir.peel(e["r"])]
            consts = [hir.def_path_of(s) for s in sides]
            fields = [s for s in sides if s.get("k") == "Field" and s["field"] == "op"]
            is_delete = any((hir.peel(s).get("res", {}).get("ctor_path") or "").endswith("UnaryOp::Delete") or (p or "").endswith("UnaryOp::Delete") for s, p in zip(sides, consts))
            if is_delete and fields:
                return (e["op"] == "Eq") == c["v"]
    return None


def rule_delete_kept(check, rule, visitor):
    """The operand of `delete` must stay the reference it is: `delete a?.b` lowered to a conditional, or
    `delete (x = a, f(x.b))`, evaluates to true without deleting anything.  Whatever descends into a
    unary expression with the rewriting visitor does so only when the operator is not `delete`."""
    prog = check.prog
    graph = AdtGraph(prog.adts)
    check.rule(rule, "in %s::visit_mut_expr, every path that descends into a unary expression with the rewriting visitor carries the conjunct op != Delete (the operand of `delete` is a reference, not a value: instrumenting or lowering it changes what is deleted)" % visitor)
    ovs = [f for f in overrides_of(prog, visitor) if f.name == "visit_mut_expr"]
    if not ovs:
        raise AnchorMissing("%s::visit_mut_expr not found" % visitor)
    n = 0
    for f in ovs:
        tr = Traversal(prog, f, graph)
        for p in [p for p in tr.paths(f.body, tr.initial_env()) if Traversal.feasible(p)]:
            v = tr.variant_known(p, ())
            if not (isinstance(v, str) and v.endswith("Expr::Unary")):
                continue
            n += 1
            desc = [e for e in p.effects if e["kind"] in ("with", "children") and e["vty"] == tr.visitor_ty_name()]
            pol = delete_polarity(tr, p)
            k = "%s/%s/%s" % (rule, short(f), {True: "delete", False: "other-operators", None: "any-operator"}[pol])
            if p.unknown:
                check.bad(rule, k, hir.loc(f.rec), "cannot enumerate paths: %s" % "; ".join(p.unknown))
            elif desc and pol is not False:
                check.bad(rule, k, hir.loc(desc[0]["node"]), "the rewriting visitor descends into a unary expression when %s, which includes `delete x`: the operand of delete is rewritten (an optional chain under it is lowered to a conditional, a call is hoisted into a sequence) and the deletion does not happen" % path_conds_str(p))
            else:
                check.ok(rule, k, hir.loc(f.rec), "%s when %s" % ("descends" if desc else "does not descend with the rewriting visitor", path_conds_str(p)))
    check.floor(rule, "paths through the Unary arm", n, 1)


def _tpl_conj_kind(e):
    """classify one conjunct of the template instrumentability test"""
    e = hir.peel(e)
    neg = False
    while e.get("k") == "Unary" and e["op"] == "Not":
        neg = not neg
        e = hir.peel(e["x"])
    if _is_call_named(e, "is_empty") and _place_ends(hir.call_args(e)[0], "exprs"):
        return ("is_empty", neg)
    if _is_call_named(e, "all"):
        recv = hir.call_args(e)[0]
        src = hir.peel_transparent(recv)
        cl = [a for a in hir.call_args(e)[1:] if hir.peel(a).get("k") == "Closure"]
        if _place_ends(src, "exprs") and cl:
            body = hir.peel(hir.peel(cl[0])["body"])
            n2 = False
            while body.get("k") == "Unary" and body["op"] == "Not":
                n2 = not n2
                body = hir.peel(body["x"])
            if _is_call_named(body, "is_lit") and n2:
                return ("all_non_lit", neg)
    if _is_call_named(e, "any"):
        recv = hir.call_args(e)[0]
        src = hir.peel_transparent(recv)
        cl = [a for a in hir.call_args(e)[1:] if hir.peel(a).get("k") == "Closure"]
        if _place_ends(src, "exprs") and cl:
            body = hir.peel(hir.peel(cl[0])["body"])
            if _is_call_named(body, "is_lit"):
                return ("all_non_lit", not neg)
    return None


def _conjuncts(e):
    e = hir.peel(e)
    if e.get("k") == "Binary" and e["op"] == "And":
        return _conjuncts(e["l"]) + _conjuncts(e["r"])
    return [e]


def expand_predicate(prog, e, depth=0):
    """a call of a crate predicate whose whole body is one boolean expression stands for that
    expression (`tpl_is_instrumentable(tpl)` for `!tpl.exprs.is_empty() && ..`); negations are kept"""
    if prog is None or depth > 3:
        return e
    e0 = hir.peel(e)
    if e0.get("k") == "Unary" and e0.get("op") == "Not":
        inner = expand_predicate(prog, e0["x"], depth)
        if inner is not hir.peel(e0["x"]) and inner is not e0["x"]:
            return {"k": "Unary", "op": "Not", "x": inner, "id": e0.get("id"), "sp": e0.get("sp"), "ty": "bool"}
        return e
    if hir.is_call(e0):
        h = prog.resolve_local(e0)
        if h is not None and h.body is not None and (h.rec.get("ret") or "") == "bool":
            from .prov import return_exprs

            rs = return_exprs(h.body)
            if len(rs) == 1 and not any(x.get("k") in ("Ret", "Loop", "Match") for x in hir.walk(h.body)):
                return expand_predicate(prog, rs[0], depth + 1)
    return e


def tpl_facts(c, prog=None):
    """Facts a boolean condition establishes about a template literal's substitutions:
    ("all", [(pred, value)..]) - all hold; ("any", [...]) - at least one holds; None - unrelated."""
    if c.get("t") != "bool":
        return None
    e = expand_predicate(prog, c["e"])
    v = c["v"]
    e1 = hir.peel(e)
    while e1.get("k") == "Unary" and e1.get("op") == "Not" and len(_conjuncts(e1["x"])) > 1:
        # !(a && b): the negation of a conjunction
        e, v = e1["x"], not v
        e1 = hir.peel(e)
    c = dict(c, e=e, v=v)
    kinds = [_tpl_conj_kind(x) for x in _conjuncts(c["e"])]
    if not kinds or any(k is None for k in kinds):
        return None
    # conjunct i is the expression (neg ? !pred : pred)
    if c["v"]:
        return ("all", [(k, not neg) for k, neg in kinds])
    if len(kinds) == 1:
        k, neg = kinds[0]
        return ("all", [(k, neg)])
    return ("any", [(k, neg) for k, neg in kinds])


def tpl_atomize(fn, e):
    from . import boolform as BF

    e = hir.peel(e)
    if hir.is_call(e):
        k = _tpl_conj_kind(e)
        if k is not None:
            a = BF.atom("tpl.empty" if k[0] == "is_empty" else "tpl.allnonlit")
            return BF.neg(a) if k[1] else a
    return None


def excl_tpl_literal(tr, path, missing):
    from . import boolform as BF

    v = tr.variant_known(path, ())
    if not (isinstance(v, str) and v.endswith("Expr::Tpl")):
        return None
    premises = BF.from_conds(tr.fn, path.conds, tpl_atomize, tr.prog)
    if BF.entails(premises, BF.disj([BF.atom("tpl.empty"), BF.neg(BF.atom("tpl.allnonlit"))])):
        return "template literal with no substitution or with a literal substitution (documented exclusion)"
    return None


def excl_arrow(tr, path, missing):
    v = tr.variant_known(path, ())
    if isinstance(v, str) and v.endswith("Expr::Arrow"):
        return "arrow function: parameters are a documented exclusion; the body is turned into a block (ARROW-BLOCK) and instrumented by the block driver"
    return None


def cond_cancelled(prog, c):
    """the condition record says that the rewrite is already cancelled: `<..>.status == Status::Cancelled`
    holds, written out or through a crate predicate that is exactly that test (visit_is_cancelled())"""
    from .prov import return_exprs

    if c.get("t") != "bool":
        return False
    e, v = hir.peel(c["e"]), c["v"]
    while e.get("k") == "Unary" and e.get("op") == "Not":
        e, v = hir.peel(e["x"]), not v
    if e.get("k") == "Binary" and e.get("op") == "Ne":
        e2 = dict(e)
        e2["op"] = "Eq"
        e, v = e2, not v
    if hir.is_cancelled_test(e):
        return v is True
    if hir.is_call(e):
        g = prog.resolve_local(e)
        if g is not None and g.body is not None:
            rets = return_exprs(g.body)
            if len(rets) == 1 and hir.is_cancelled_test(rets[0]):
                return v is True
    return False


def effect_cancels(prog, e):
    """the effect refuses the rewrite: a write of Status::Cancelled to the file status (a crate function that
    does it - cancel_visit - is read in line, so its write is an effect of the path as well)"""
    if e["kind"] == "cancel":
        return True
    if e["kind"] == "call" and e.get("fn"):
        g = prog.by_def.get(e["fn"])
        return g is not None and g.body is not None and any(hir.is_cancel_write(x) for x in g.nodes())
    return False


def excl_cancelled(tr, path, missing):
    for c in path.conds:
        if cond_cancelled(tr.prog, c):
            return "rewrite already cancelled (result is an error)"
    for e in path.effects:
        if effect_cancels(tr.prog, e):
            return "rewrite cancelled on this path (result is an error)"
    return None


def registering_visitors(prog):
    """Visit impls whose only override is visit_ident and whose body hands the identifier to
    IdentProvider::register_variable unconditionally: visiting a sub-tree with one of them makes all
    its identifiers visible to the collision check."""
    out = set()
    by_ty = {}
    for f in prog.fns:
        if f.body is None:
            continue
        t = (f.rec.get("impl_of_trait") or "").split("<")[0]
        if t in ("swc_ecma_visit::Visit", "swc_ecma_visit::VisitMut"):
            # per (type, trait): the read-only walk of a type that also rewrites is a visitor of its own
            by_ty.setdefault((f.rec.get("self_ty", "").split("<")[0], t.endswith("::Visit")), []).append(f)
    for (ty, readonly), fs in by_ty.items():
        if len(fs) == 1 and fs[0].name in ("visit_ident", "visit_mut_ident"):
            f = fs[0]
            calls = [n for n in f.nodes() if hir.is_call(n) and hir.callee_name(n) == "register_variable" and not f.conds_at(n)]
            if len(calls) == 1 and hir.local_of(hir.call_args(calls[0])[1]) and f.bindings()[hir.local_of(hir.call_args(calls[0])[1])[0]]["origin"][:2] == ("param", 1):
                out.add(ty + "/Visit" if readonly else ty)
    return out


def run_cover(check, rule, visitor, targets, exclusions, min_overrides, block_override_ok=None, ignore_missing=None, also_vtys=()):
    """TRAV-COVER + TRAV-ROOT over all overrides of `visitor`."""
    prog = check.prog
    graph = AdtGraph(prog.adts)
    ovs = overrides_of(prog, visitor)
    if isinstance(min_overrides, (list, tuple)) and min_overrides and all(isinstance(x, (set, frozenset)) for x in min_overrides):
        # alternatives: one of the sets must be overridden completely (`visit_expr`, or the per-node hooks it can be split into)
        have = {f.name for f in ovs}
        best = min((sorted(set(alt) - have) for alt in min_overrides), key=len)
        check.expect(not best, rule, "%s/ANCHOR/overrides of %s" % (rule, visitor), "-", "%s overrides %s" % (visitor, sorted(have)), "essential override(s) %s of %s not found: anchor lost" % (best, visitor))
    elif isinstance(min_overrides, (set, list, tuple)):
        missing_ov = sorted(set(min_overrides) - {f.name for f in ovs})
        check.expect(not missing_ov, rule, "%s/ANCHOR/overrides of %s" % (rule, visitor), "-", "%s overrides %s" % (visitor, sorted(f.name for f in ovs)), "essential override(s) %s of %s not found: anchor lost" % (missing_ov, visitor))
    else:
        check.floor(rule, "overrides of %s" % visitor, len(ovs), min_overrides)
    overridden_types = {}
    for f in ovs:
        prm = f.rec["params"]
        if len(prm) >= 2:
            overridden_types[core_type(prm[1]["ty"])] = f
    npaths = 0
    for f in ovs:
        tr = Traversal(prog, f, graph)
        node_ty = tr.node_ty
        env = tr.initial_env()
        root_ap = (("elem",),) if tr.is_slice else ()
        slots = graph.slots(node_ty, targets)
        if node_ty in targets and not slots:
            pass
        if not slots and not tr.is_slice:
            check.ok(rule, "%s/%s/no-slots" % (rule, short(f)), hir.loc(f.rec), "node type %s has no child that can contain %s" % (node_ty.split("::")[-1], "/".join(t.split("::")[-1] for t in targets)))
            continue
        if tr.is_slice and not graph.reaches(node_ty, targets):
            check.ok(rule, "%s/%s/no-slots" % (rule, short(f)), hir.loc(f.rec), "element type cannot contain the target kind")
            continue
        paths = tr.paths(f.body, env)
        if block_override_ok and node_ty == BLOCK and block_override_ok(tr, paths):
            check.ok(rule, "%s/%s/nested-block" % (rule, short(f)), hir.loc(f.rec), "nested BlockStmt is left to the block driver (BLOCK-DRIVER rule)")
            continue
        paths = [p for p in paths if Traversal.feasible(p)]
        for p in paths:
            npaths += 1
            where = hir.loc(f.rec)
            condstr = path_conds_str(p)
            if p.unknown:
                check.bad(rule, "%s/%s/unanalysable" % (rule, short(f)), where, "cannot enumerate paths: %s" % "; ".join(p.unknown))
                continue
            ok, missing = tr.covered(p, root_ap, node_ty, targets, tr.visitor_ty_name())
            for extra_vty in also_vtys:
                if ok:
                    break
                ok2, missing2 = tr.covered(p, root_ap, node_ty, targets, extra_vty)
                # union of what either visitor covers: a slot is missing only if both miss it
                missing = [m for m in missing if m in missing2]
                ok = not missing
            if not ok and ignore_missing is not None:
                missing = [m for m in missing if not ignore_missing(m)]
                ok = not missing
            if ok:
                check.ok(rule, "%s/%s/path" % (rule, short(f)), where, "all children visited when %s" % condstr)
                continue
            reason = None
            for ex in exclusions:
                reason = ex(tr, p, missing)
                if reason:
                    break
            vk = tr.variant_known(p, ())
            vname = (":" + vk.split("::")[-1]) if isinstance(vk, str) else ""
            if reason:
                check.ok(rule, "%s/%s%s/excluded" % (rule, short(f), vname), where, "%s not traversed when %s: %s" % (", ".join(missing), condstr, reason))
            else:
                for m in missing:
                    check.bad(
                        rule,
                        "%s/%s%s/%s" % (rule, short(f), vname, m),
                        where,
                        "%s: slot %s is not traversed by %s when %s" % (short(f), m, visitor, condstr),
                    )
        # TRAV-ROOT: children-visit of a sub-node whose type has an override bypasses that override
        seen_root = set()
        for p in paths:
            for e in p.effects:
                if e["kind"] != "children" or e["vty"] != tr.visitor_ty_name():
                    continue
                if e["ap"] in ((), None) or (tr.is_slice and e["ap"] == (("elem",),)):
                    continue
                rt = e["recv_ty"]
                key = "TRAV-ROOT/%s/%s" % (short(f), tr.ap_str(e["ap"]))
                if key in seen_root:
                    continue
                seen_root.add(key)
                if rt in overridden_types:
                    check.bad(
                        "TRAV-ROOT",
                        key,
                        hir.loc(e["node"]),
                        "%s.visit_*children_with skips %s for the root of %s (its override %s never sees that node)"
                        % (tr.ap_str(e["ap"]), overridden_types[rt].name, tr.ap_str(e["ap"]), overridden_types[rt].name),
                    )
                else:
                    check.ok("TRAV-ROOT", key, hir.loc(e["node"]), "children-visit of %s: no override for %s" % (tr.ap_str(e["ap"]), rt.split("::")[-1]))
    check.note("%s: %d overrides of %s, %d structural paths" % (rule, len(ovs), visitor, npaths))
    return ovs


def rule_default_visitor(check, trait, targets, rule="DEFAULT-VISITOR"):
    """The assumption behind TRAV ('a node type without an override is traversed completely') is
    checked against the MIR of the compiled swc_ecma_visit: for every AST type reachable from Program
    that can contain a target, the generated visit_[mut_]children_with hands every such field (every
    variant payload) to visit_[mut_]with, and the trait's default method calls exactly that."""
    from .trav import AdtGraph, ignored_adt

    prog = check.prog
    check.rule(rule, "for every swc_ecma_ast type reachable from Program that can contain a target node, the compiled swc_ecma_visit default traversal (%s / %sWith, read from its MIR) visits every field / variant payload that can contain one" % (trait, trait))
    dv = prog.facts.get("default_visitors") or []
    impls = {d["self_ty"]: d for d in dv if d.get("trait") == trait + "With" and "calls" in d}
    defaults = {}
    for d in dv:
        if d.get("trait") == trait and "method" in d:
            nt = d["node_ty"]
            nt = nt[5:] if nt.startswith("&mut ") else (nt[1:] if nt.startswith("&") else nt)
            defaults[nt] = d
    graph = AdtGraph(prog.adts)
    root = "swc_ecma_ast::Program"
    seen = set()
    stack = [root]
    while stack:
        a = stack.pop()
        if a in seen or a not in prog.adts or (a != root and ignored_adt(a)) or not a.startswith("swc_ecma_ast::"):
            continue
        seen.add(a)
        for v in prog.adts[a]["variants"]:
            for f in v["fields"]:
                stack.extend(f["adts"])
    n_types = 0
    n_fields = 0
    for a in sorted(seen):
        if not (a in targets or graph.reaches(a, targets)):
            continue
        rec = prog.adts[a]
        imp = impls.get(a)
        key = "%s/%s/%s" % (rule, trait, a.split("::")[-1])
        if imp is None:
            check.bad(rule, key + "/impl", "-", "no %sWith implementation (with MIR) found for %s: its children are not traversed by default" % (trait, a))
            continue
        n_types += 1
        places = [c["place"] for c in imp["calls"]]
        missing = []
        for v in rec["variants"]:
            for j, f in enumerate(v["fields"]):
                if not graph.field_reaches(f, targets):
                    continue
                n_fields += 1
                want = "((*_1).%d:" % j if rec["kind"] == "struct" else "(((*_1) as %s).%d:" % (v["name"], j)
                if not any(p.startswith(want) for p in places):
                    missing.append(("%s.%s" % (v["name"], f["name"])) if rec["kind"] != "struct" else f["name"])
        if missing:
            check.bad(rule, key, "-", "the default traversal of %s does not visit %s" % (a, ", ".join(missing)))
        d = defaults.get(a)
        ok_default = d is not None and [(c["name"], c["recv_ty"]) for c in d["callees"]] == [("visit_mut_children_with" if trait == "VisitMut" else "visit_children_with", a)]
        if not ok_default:
            check.bad(rule, key + "/default-method", "-", "the default %s method for %s does not simply call its children traversal (%s)" % (trait, a, d["callees"] if d else "no such method"))
        if not missing and ok_default:
            check.ok(rule, key, "-", "every target-bearing field of %s is visited by default" % a.split("::")[-1])
    check.floor(rule, "AST types validated (%s)" % trait, n_types, 60)
    check.note("%s: %d types, %d target-bearing fields validated against the MIR of swc_ecma_visit (%s)" % (rule, n_types, n_fields, trait))
