"""Rules shared by C12 and C15 about TransformResult / TransformStatus / update_status."""
from . import hir
from .engine import AnchorMissing
from .prov import Prov, origin_str
from .trav import overrides_of
from . import gate

HOOK_SOURCES = {"get_dd_paren_expr", "get_dd_call_expr"}


def opv_visit_mut_expr(prog):
    fs = [f for f in overrides_of(prog, "OperationTransformVisitor") if f.name == "visit_mut_expr"]
    if len(fs) != 1:
        raise AnchorMissing("OperationTransformVisitor::visit_mut_expr")
    return fs[0]


def hook_derived(pv, origin, depth=0):
    """'hook' if the origin is (or wraps, through constructors) the result of a hook builder;
    'none' for Option::None / `?` residuals; else a description of the non-hook origin."""
    root, proj = origin
    if root[0] == "call" and root[1].split("::")[-1] in HOOK_SOURCES:
        return "hook"
    if root[0] == "ctor" and root[1].split("::")[-1] == "None":
        return "none"
    if root[0] == "residual":
        return "none"
    if root[0] == "ctor" and len(root) >= 5 and depth < 4:
        g = pv.prog.by_def.get(root[2])
        try:
            node = g.by_id(root[3]) if g else None
        except KeyError:
            node = None
        subs = []
        if node is not None and node.get("k") == "Struct":
            subs = [f["e"] for f in node["fields"]]
        elif node is not None and node.get("k") == "Call":
            subs = node["args"]
        for s in subs:
            for o in pv.origins(g, s, root[4]):
                if hook_derived(pv, o, depth + 1) == "hook":
                    return "hook"
    return origin_str(origin)


def update_status_sites(prog):
    us = prog.fn("OperationTransformVisitor::update_status")
    sites = [(f, n) for f, n in prog.sites_calling(us) if hir.is_call(n)]
    return us, sites


def rule_modified_implies_hook(check, rule="MODIFIED-HOOK"):
    """Every TransformResult whose status reaches update_status carries an expression built by a
    hook builder whenever it is Modified."""
    prog = check.prog
    check.rule(rule, "the file status becomes Modified (and a propagation is counted) only for results whose expression was built by get_dd_paren_expr/get_dd_call_expr; TransformStatus.status is written only by update_status and cancel_visit")
    pv = Prov(prog, opaque=HOOK_SOURCES)
    us, sites = update_status_sites(prog)
    check.floor(rule, "update_status call sites", len(sites), 4)
    for f, n in sites:
        args = hir.call_args(n)
        st = hir.peel(args[1])
        key = "%s/%s" % (rule, _site_key(f, n))
        if not (st.get("k") == "Field" and st["field"] == "status"):
            check.bad(rule, key + "/status-arg", hir.loc(n), "status argument is not the .status of a TransformResult: %s" % hir.describe(st))
            continue
        base = st["x"]
        exprs = pv._proj(pv.origins(f, base), ("expr",))
        verdicts = {hook_derived(pv, o) for o in exprs}
        bad = sorted(v for v in verdicts if v not in ("hook", "none"))
        if bad or "hook" not in verdicts:
            check.bad(rule, key, hir.loc(n), "update_status receives the status of a result whose expression is not built by a hook builder: %s" % (", ".join(bad) or "no hook origin at all"))
        else:
            check.ok(rule, key, hir.loc(n), "result expression origins: hook builder or None")
    # the hook builders themselves: everything they return is (or wraps) the hook call
    from .prov import return_exprs

    pvb = Prov(prog, opaque={"get_dd_call_expr", "dd_global_method_invocation"})
    gp = prog.fn("visitor_util::get_dd_paren_expr")
    for r in return_exprs(gp.body):
        os_ = pvb.origins(gp, r)
        kinds = set()
        for root, proj in os_:
            if root[0] == "call" and root[1].split("::")[-1] == "get_dd_call_expr":
                kinds.add("hook call")
            elif root[0] == "ctor" and root[1].endswith("Expr::Paren"):
                kinds.add("parenthesised sequence ending in the hook call")
            else:
                kinds.add("NOT-A-HOOK: " + origin_str((root, proj)))
        bad = sorted(k for k in kinds if k.startswith("NOT-A-HOOK"))
        check.expect(not bad and bool(kinds), rule, rule + "/builder/get_dd_paren_expr", hir.loc(r), "returns %s" % sorted(kinds), "the hook builder get_dd_paren_expr can return something that is not a hook (%s) while its callers report the result as instrumented" % ", ".join(bad))
    gc = prog.fn("visitor_util::get_dd_call_expr")
    for r in return_exprs(gc.body):
        os_ = pvb.origins(gc, r)
        ok = bool(os_)
        for root, proj in os_:
            if not (root[0] == "ctor" and root[1].endswith("Expr::Call")):
                ok = False
                continue
            node = prog.by_def[root[2]].by_id(root[3])
            lits = [x for x in hir.walk(node) if x.get("k") == "Struct" and (x["res"].get("path") or "").endswith("CallExpr")]
            callee_ok = False
            for lit in lits:
                for fl in lit["fields"]:
                    if fl["name"] == "callee":
                        callee_ok = any(rr[0] == "call" and rr[1].split("::")[-1] == "dd_global_method_invocation" for rr, _ in pvb.origins(gc, fl["e"]))
            ok = ok and callee_ok
        check.expect(ok, rule, rule + "/builder/get_dd_call_expr", hir.loc(r), "returns a call of _ddiast.<name>", "get_dd_call_expr can return something that is not a call of the hook namespace")
    # who writes TransformStatus.status
    writers = set()
    for f in prog.user_fns:
        for n in f.nodes():
            if n.get("k") in ("Assign", "AssignOp"):
                l = hir.peel(n["l"])
                if l.get("k") == "Field" and l["field"] == "status" and "TransformStatus" in (l.get("base_ty") or ""):
                    writers.add((f.name, f.def_path))
    names = sorted(w[0] for w in writers)
    check.expect(names == ["cancel_visit", "update_status"], rule, rule + "/status-writers", "-", "TransformStatus.status is assigned only in %s" % names, "TransformStatus.status is assigned in %s" % names)
    # struct invariant of TransformResult: constructed only inside its three constructors
    ctors = []
    for f in prog.user_fns:
        for n in f.nodes():
            if n.get("k") == "Struct" and (n["res"].get("path") or "").endswith("TransformResult"):
                ctors.append((f, n))
    where = sorted({f.name for f, _ in ctors})
    check.expect(where == ["modified", "modified_with_tag", "not_modified"], rule, rule + "/result-ctors", "-", "TransformResult literals only in %s" % where, "TransformResult is constructed in %s" % where)
    for f, n in ctors:
        flds = {x["name"]: x["e"] for x in n["fields"]}
        st = hir.peel(flds.get("status", {})) if "status" in flds else {}
        stv = (st.get("res", {}).get("ctor_path") or "").split("::")[-1]
        ex = hir.peel(flds.get("expr", {})) if "expr" in flds else {}
        is_some = ex.get("k") == "Call" and (hir.peel(ex["f"]).get("res", {}).get("ctor_path") or "").split("::")[-1] == "Some"
        is_none = ex.get("k") == "Path" and (ex["res"].get("ctor_path") or "").split("::")[-1] == "None"
        ok = (stv == "Modified" and is_some) or (stv == "NotModified" and is_none)
        check.expect(ok, rule, "%s/invariant/%s" % (rule, f.name), hir.loc(n), "status %s <=> expr %s" % (stv, "Some" if is_some else "None"), "TransformResult invariant broken in %s: status %s with expr %s" % (f.name, stv, "Some" if is_some else ("None" if is_none else "?")))


def _site_key(f, n):
    """Line-free key of a call site inside visit_mut_expr: the Expr variant of its arm."""
    for c in f.conds_at(n):
        if c["t"] == "pat" and c["v"]:
            v = hir.pat_variant(c["pat"])
            if isinstance(v, str) and "Expr::" in v:
                return v.split("::")[-1]
    return "%s" % f.name
