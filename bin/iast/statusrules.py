"""Rules shared by C12 and C15 about TransformResult / TransformStatus / update_status."""
from . import hir
from .engine import AnchorMissing
from .prov import Prov, origin_str
from .trav import overrides_of
from . import gate

HOOK_SOURCES = {"get_dd_paren_expr", "get_dd_call_expr"}


def opv_visit_mut_expr(prog):
    fs = [f for f in overrides_of(prog, "OperationTransformVisitor") if f.name == "visit_mut_expr"]
    if len(fs) != 1:
        raise AnchorMissing("OperationTransformVisitor::visit_mut_expr")
    return fs[0]


def hook_derived(pv, origin, depth=0):
    """'hook' if the origin is (or wraps, through constructors) the result of a hook builder;
    'none' for Option::None / `?` residuals; else a description of the non-hook origin."""
    root, proj = origin
    if root[0] == "call" and root[1].split("::")[-1] in HOOK_SOURCES:
        return "hook"
    if root[0] == "ctor" and root[1].split("::")[-1] == "None":
        return "none"
    if root[0] == "residual":
        return "none"
    if root[0] == "ctor" and len(root) >= 5 and depth < 4:
        g = pv.prog.by_def.get(root[2])
        try:
            node = g.by_id(root[3]) if g else None
        except KeyError:
            node = None
        subs = []
        if node is not None and node.get("k") == "Struct":
            subs = [f["e"] for f in node["fields"]]
        elif node is not None and node.get("k") == "Call":
            subs = node["args"]
        for s in subs:
            for o in pv.origins(g, s, root[4]):
                if hook_derived(pv, o, depth + 1) == "hook":
                    return "hook"
    return origin_str(origin)


# ---- a small model of TransformResult: its constructors, and its accessors evaluated on them -------------


def result_ctors(prog):
    """[(fn, struct node, {"expr": "Some"|"None"|"?", "status": "Modified"|"NotModified"|None})] for every
    TransformResult literal of the crate"""
    out = []
    for f in prog.user_fns:
        for n in f.nodes():
            if n.get("k") == "Struct" and (n["res"].get("path") or "").endswith("TransformResult"):
                flds = {x["name"]: x["e"] for x in n["fields"]}
                st = hir.peel(flds.get("status", {})) if "status" in flds else {}
                stv = (st.get("res", {}).get("ctor_path") or "").split("::")[-1] or None
                ex = hir.peel(flds.get("expr", {})) if "expr" in flds else {}
                is_some = ex.get("k") == "Call" and (hir.peel(ex["f"]).get("res", {}).get("ctor_path") or "").split("::")[-1] == "Some"
                is_none = ex.get("k") == "Path" and (ex["res"].get("ctor_path") or "").split("::")[-1] == "None"
                # a result made out of another one (`TransformResult { expr: self.expr.map(..), status: self.status, .. }`):
                # it reports whatever status the other reports
                carried = stv is None and (hir.place(st) or "").split(".")[-1].split("#")[0] == "status" and "TransformResult" in (hir.peel(st.get("e") or st.get("x") or {}).get("ty") or st.get("base_ty") or "")
                out.append((f, n, {"expr": "Some" if is_some else ("None" if is_none else "?"), "status": stv, "carried": carried}))
    return out


def result_method(prog, name):
    for cand in ("TransformResult::<T>::" + name, "TransformResult::" + name):
        fs = prog.find_fns(cand)
        if fs:
            return fs[0]
    return None


def eval_on_result(prog, e, val, depth=0):
    """value of expression e (in a method of TransformResult, `self` being a result with the abstract value
    `val`): True / False / a variant name / None when not decided"""
    if depth > 6 or e is None:
        return None
    e = hir.peel(e)
    k = e.get("k")
    if k == "Lit" and isinstance(hir.lit_value(e), bool):
        return hir.lit_value(e)
    if k in ("BlockExpr", "Block"):
        b = e.get("block", e)
        if b.get("stmts"):
            rets = [s_ for s_ in b["stmts"] if hir.peel(s_.get("e") or {}).get("k") == "Ret"]
            if rets or any(s_.get("k") == "Let" for s_ in b["stmts"]):
                return None
        return eval_on_result(prog, b.get("tail"), val, depth + 1) if "tail" in b else None
    if k == "Path":
        cp = (e.get("res") or {}).get("ctor_path") or ""
        if cp:
            return cp.split("::")[-1]
        return None
    if k == "Field" and (hir.place(e) or "").split("#")[0] == "self" or (k == "Field" and (hir.place(e) or "").startswith("self")):
        return val.get(e["field"]) if e["field"] in ("status",) else None
    if k == "Unary" and e.get("op") == "Not":
        v = eval_on_result(prog, e["x"], val, depth + 1)
        return (not v) if isinstance(v, bool) else None
    if k == "Binary" and e["op"] in ("Eq", "Ne"):
        l, r = eval_on_result(prog, e["l"], val, depth + 1), eval_on_result(prog, e["r"], val, depth + 1)
        if l is None or r is None:
            return None
        return (l == r) if e["op"] == "Eq" else (l != r)
    if k == "Binary" and e["op"] in ("And", "Or"):
        l, r = eval_on_result(prog, e["l"], val, depth + 1), eval_on_result(prog, e["r"], val, depth + 1)
        if isinstance(l, bool) and isinstance(r, bool):
            return (l and r) if e["op"] == "And" else (l or r)
        return None
    if k == "If":
        c = eval_on_result(prog, e["cond"], val, depth + 1)
        if not isinstance(c, bool):
            return None
        return eval_on_result(prog, e["then"] if c else e.get("else"), val, depth + 1)
    if k == "Match":
        sv = eval_on_result(prog, e["scrut"], val, depth + 1)
        if sv is None:
            return None
        for arm in e["arms"]:
            pv_ = hir.pat_variant(arm["pat"])
            vs_ = [str(x).split("::")[-1] for x in (pv_ if isinstance(pv_, tuple) else (pv_,))]
            if ("_" in vs_ or str(sv) in vs_) and "guard" not in arm:
                return eval_on_result(prog, arm["body"], val, depth + 1)
        return None
    if k == "MethodCall":
        recv = hir.peel_transparent(e["recv"])
        m = e["method"]
        if recv.get("k") == "Field" and recv["field"] == "expr" and (hir.place(recv) or "").startswith("self") and m in ("is_some", "is_none") and val.get("expr") in ("Some", "None"):
            return (val["expr"] == "Some") == (m == "is_some")
        if (hir.place(recv) or "").split("#")[0] == "self" or ((hir.local_of(recv) or (0, ""))[1] == "self"):
            g = prog.resolve_local(e)
            if g is not None and g.body is not None and "TransformResult" in (g.rec.get("self_ty") or g.def_path):
                return eval_on_result(prog, g.body, val, depth + 1)
        return None
    return None


def status_of_result(prog, val):
    """the Status a result with this abstract value reports: its `status` field, or what its `status()`
    accessor evaluates to"""
    if val.get("status"):
        return val["status"]
    g = result_method(prog, "status")
    if g is None or g.body is None:
        return None
    return eval_on_result(prog, g.body, val)


def update_status_sites(prog):
    us = prog.fn("OperationTransformVisitor::update_status")
    sites = [(f, n) for f, n in prog.sites_calling(us) if hir.is_call(n)]
    return us, sites


def status_feeds(prog, depth=0):
    """[(function, node to report at, expression whose `.status` is reported, tag expression)]: the
    update_status sites, with a site inside a helper that merely forwards one of its parameters
    (`fn apply(result, tag, ..) { self.update_status(result.status, tag); .. }`) replaced by the
    call sites of that helper"""
    us, sites = update_status_sites(prog)
    out = []

    def expand(f, n, base, tag, d):
        bl = hir.local_of(base) if base is not None else None
        b = f.bindings().get(bl[0]) if bl else None
        if b is not None and b["origin"][0] == "param" and d < 3:
            idx = b["origin"][1]
            tl = hir.local_of(tag) if tag is not None else None
            tb = f.bindings().get(tl[0]) if tl else None
            tidx = tb["origin"][1] if tb is not None and tb["origin"][0] == "param" else None
            if tidx is None and tag is not None:
                # the parameter wrapped on the way: `Some(tag.to_string())`, `Some(tag.into())`
                prms = set()
                others = False
                for x in hir.walk(tag):
                    lx = hir.local_of(x) if x.get("k") == "Path" else None
                    if lx is None:
                        if hir.is_call(x) and not ((hir.callee_name(x) or x.get("method")) in ("to_string", "into", "to_owned", "clone", "from", "as_str", "as_ref") or (hir.peel(x.get("f") or {}).get("res") or {}).get("ctor_path")):
                            others = True
                        continue
                    bx = f.bindings().get(lx[0])
                    if bx is not None and bx["origin"][0] == "param":
                        prms.add(bx["origin"][1])
                    else:
                        others = True
                if len(prms) == 1 and not others:
                    tidx = list(prms)[0]
            callers = [(g, c) for g, c in prog.sites_calling(f) if hir.is_call(c)]
            if callers:
                for g, c in callers:
                    a = hir.call_args(c)
                    if idx < len(a):
                        expand(g, c, a[idx], a[tidx] if tidx is not None and tidx < len(a) else tag, d + 1)
                return
        out.append((f, n, base, tag))

    for f, n in sites:
        a = hir.call_args(n)
        st = hir.peel(a[1])
        base = st["x"] if st.get("k") == "Field" and st["field"] == "status" else None
        if base is None and st.get("k") == "MethodCall" and st["method"] == "status" and "TransformResult" in (hir.peel(st["recv"]).get("ty") or "") and prog.resolve_local(st) is not None:
            # the accessor form (its meaning is checked by MODIFIED-HOOK/invariant)
            base = st["recv"]
        if base is None:
            out.append((f, n, None, a[2] if len(a) > 2 else None))
        else:
            expand(f, n, base, a[2] if len(a) > 2 else None, 0)
    return us, out


def rule_modified_implies_hook(check, rule="MODIFIED-HOOK"):
    """Every TransformResult whose status reaches update_status carries an expression built by a
    hook builder whenever it is Modified."""
    prog = check.prog
    check.rule(rule, "the file status becomes Modified (and a propagation is counted) only for results whose expression was built by get_dd_paren_expr/get_dd_call_expr; TransformStatus.status is written only by update_status and cancel_visit")
    pv = Prov(prog, opaque=HOOK_SOURCES)
    us, feeds = status_feeds(prog)
    check.floor(rule, "update_status call sites", len(feeds), 4)
    for f, n, base, _tag in feeds:
        key = "%s/%s" % (rule, _site_key(f, n))
        if base is None:
            check.bad(rule, key + "/status-arg", hir.loc(n), "status argument is not the .status of a TransformResult: %s" % hir.describe(hir.call_args(n)[1]))
            continue
        exprs = pv._proj(pv.origins(f, base), ("expr",))
        verdicts = {hook_derived(pv, o) for o in exprs}
        bad = sorted(v for v in verdicts if v not in ("hook", "none"))
        if bad or "hook" not in verdicts:
            check.bad(rule, key, hir.loc(n), "update_status receives the status of a result whose expression is not built by a hook builder: %s" % (", ".join(bad) or "no hook origin at all"))
        else:
            check.ok(rule, key, hir.loc(n), "result expression origins: hook builder or None")
    # the hook builders themselves: everything they return is (or wraps) the hook call
    from .prov import return_exprs

    pvb = Prov(prog, opaque={"get_dd_call_expr", "dd_global_method_invocation"})

    def namespace_call(root):
        """an `Expr::Call(CallExpr { callee: dd_global_method_invocation(..), .. })` built in place"""
        if not (root[0] == "ctor" and root[1].endswith("Expr::Call") and len(root) >= 5):
            return False
        g_ = prog.by_def.get(root[2])
        try:
            node = g_.by_id(root[3]) if g_ else None
        except KeyError:
            node = None
        if node is None:
            return False
        subs = list(hir.walk(node))
        for a_ in (node.get("args") or []):
            l_ = hir.local_of(hir.peel_transparent(a_))
            b_ = g_.bindings().get(l_[0]) if l_ else None
            if b_ and b_["origin"][0] == "let" and b_["origin"][1] is not None:
                subs += list(hir.walk(b_["origin"][1]))
        for lit in [x for x in subs if x.get("k") == "Struct" and (x["res"].get("path") or "").endswith("CallExpr")]:
            for fl in lit["fields"]:
                if fl["name"] == "callee" and any(rr[0] == "call" and rr[1].split("::")[-1] == "dd_global_method_invocation" for rr, _ in pvb.origins(g_, fl["e"], root[4])):
                    return True
        return False

    gp = prog.fn("visitor_util::get_dd_paren_expr")
    for r in return_exprs(gp.body):
        os_ = pvb.origins(gp, r)
        kinds = set()
        for root, proj in os_:
            if root[0] == "call" and root[1].split("::")[-1] == "get_dd_call_expr":
                kinds.add("hook call")
            elif namespace_call(root):
                kinds.add("hook call (built in place)")
            elif root[0] == "ctor" and root[1].endswith("Expr::Paren"):
                kinds.add("parenthesised sequence ending in the hook call")
            else:
                kinds.add("NOT-A-HOOK: " + origin_str((root, proj)))
        bad = sorted(k for k in kinds if k.startswith("NOT-A-HOOK"))
        check.expect(not bad and bool(kinds), rule, rule + "/builder/get_dd_paren_expr", hir.loc(r), "returns %s" % sorted(kinds), "the hook builder get_dd_paren_expr can return something that is not a hook (%s) while its callers report the result as instrumented" % ", ".join(bad))
    gc = prog.fn_opt("visitor_util::get_dd_call_expr")
    for r in (return_exprs(gc.body) if gc is not None else []):
        os_ = pvb.origins(gc, r)
        ok = bool(os_)
        for root, proj in os_:
            if not (root[0] == "ctor" and root[1].endswith("Expr::Call")):
                ok = False
                continue
            node = prog.by_def[root[2]].by_id(root[3])
            lits = [x for x in hir.walk(node) if x.get("k") == "Struct" and (x["res"].get("path") or "").endswith("CallExpr")]
            callee_ok = False
            for lit in lits:
                for fl in lit["fields"]:
                    if fl["name"] == "callee":
                        callee_ok = any(rr[0] == "call" and rr[1].split("::")[-1] == "dd_global_method_invocation" for rr, _ in pvb.origins(gc, fl["e"]))
            ok = ok and callee_ok
        check.expect(ok, rule, rule + "/builder/get_dd_call_expr", hir.loc(r), "returns a call of _ddiast.<name>", "get_dd_call_expr can return something that is not a call of the hook namespace")
    # who writes TransformStatus.status
    writers = set()
    for f in prog.user_fns:
        for n in f.nodes():
            if n.get("k") in ("Assign", "AssignOp"):
                l = hir.peel(n["l"])
                if l.get("k") == "Field" and l["field"] == "status" and "TransformStatus" in (l.get("base_ty") or ""):
                    writers.add((f.name, f.def_path))
    names = sorted(w[0] for w in writers)
    # by role: update_status, plus - in the block driver only - writes of the constant Status::Cancelled
    # (cancel_visit, or the refusal written out where it is decided)
    def _only_cancels(defp):
        f_ = prog.by_def[defp]
        ws = [n for n in f_.nodes() if n.get("k") in ("Assign", "AssignOp") and hir.peel(n["l"]).get("k") == "Field" and hir.peel(n["l"])["field"] == "status" and "TransformStatus" in (hir.peel(n["l"]).get("base_ty") or "")]
        return bool(ws) and all(hir.is_cancel_write(n) for n in ws) and "BlockTransformVisitor" in defp
    ok_w = "update_status" in names and all(nm == "update_status" or _only_cancels(dp) for nm, dp in writers)
    check.expect(ok_w, rule, rule + "/status-writers", "-", "TransformStatus.status is assigned only in %s (update_status; the block driver writes Cancelled)" % names, "TransformStatus.status is assigned in %s" % names)
    # struct invariant of TransformResult: constructed only inside its three constructors
    ctors = []
    for f in prog.user_fns:
        for n in f.nodes():
            if n.get("k") == "Struct" and (n["res"].get("path") or "").endswith("TransformResult"):
                ctors.append((f, n))
    carried_nodes = set()
    for f, n, val in result_ctors(prog):
        if not val.get("carried"):
            continue
        # a result made out of another one: it keeps the invariant of that one when its status *and* the presence
        # of its expression are that one's (`expr: r.expr.map(..)` / `r.expr`, `status: r.status`)
        flds = {x["name"]: hir.peel(x["e"]) for x in n["fields"]}
        sbase = hir.place(hir.peel(flds["status"]).get("x") or {}) if flds["status"].get("k") == "Field" else None
        ex = flds.get("expr") or {}
        while hir.is_call(ex) and (hir.callee_name(ex) or ex.get("method")) in ("map", "clone", "take") and hir.call_args(ex):
            ex = hir.peel(hir.call_args(ex)[0])
        ebase = hir.place(hir.peel(ex.get("x") or {})) if ex.get("k") == "Field" and ex.get("field") == "expr" else None
        ok_c = sbase is not None and sbase == ebase
        check.expect(ok_c, rule, "%s/invariant/%s/carried" % (rule, f.name), hir.loc(n), "status and presence of the expression are those of the result it is made from (%s)" % sbase, "TransformResult built in %s takes its status from %s and its expression from %s" % (f.name, sbase, ebase or hir.describe(flds.get("expr") or {})[:60]))
        if ok_c:
            carried_nodes.add(id(n))
    where = sorted({f.name for f, n_ in ctors if id(n_) not in carried_nodes})
    check.expect(where == ["modified", "modified_with_tag", "not_modified"], rule, rule + "/result-ctors", "-", "TransformResult literals only in %s" % where, "TransformResult is constructed in %s" % where)
    for f, n, val in result_ctors(prog):
        if id(n) in carried_nodes:
            continue
        stv = status_of_result(prog, val)
        is_some, is_none = val["expr"] == "Some", val["expr"] == "None"
        ok = (stv == "Modified" and is_some) or (stv == "NotModified" and is_none)
        check.expect(ok, rule, "%s/invariant/%s" % (rule, f.name), hir.loc(n), "status %s <=> expr %s" % (stv, "Some" if is_some else "None"), "TransformResult invariant broken in %s: status %s with expr %s" % (f.name, stv, "Some" if is_some else ("None" if is_none else "?")))


def _site_key(f, n):
    """Line-free key of a call site inside visit_mut_expr: the Expr variant of its arm."""
    for c in f.conds_at(n):
        if c["t"] == "pat" and c["v"]:
            v = hir.pat_variant(c["pat"])
            if isinstance(v, str) and "Expr::" in v:
                return v.split("::")[-1]
    return "%s" % f.name


# ---------------------------------------------------------------------------------------------
# update_status as a transition function: evaluated concretely on the nine (current, new) pairs

STATUSES = ("NotModified", "Modified", "Cancelled")


class _Unknown(Exception):
    pass


class _Return(Exception):
    pass


def _is_file_status(e):
    """is the Field node the `status` of the file's TransformStatus (wherever it is reached from)?"""
    bt = e.get("base_ty") or (hir.peel(e.get("x") or {}).get("ty") if isinstance(e.get("x"), dict) else "") or ""
    if "TransformStatus" in bt:
        return True
    return (hir.place(e) or "").endswith(".transform_status.status")


def status_table(prog, us):
    """{(cur, new): (final status, number of telemetry.inc calls)} for OperationTransformVisitor::
    update_status(status, tag), by evaluating its body on concrete status values.  Raises
    AnchorMissing when the body contains something the evaluator does not model."""
    prm = us.rec["params"]
    new_local = None
    for p in prm:
        if "Status" in (p.get("ty") or ""):
            b = hir.pat_bindings(p["pat"])
            if b:
                new_local = b[0]["local"]
    if new_local is None:
        raise AnchorMissing("status parameter of update_status")
    table = {}
    for cur0 in STATUSES:
        for new in STATUSES:
            st = {"cur": cur0, "inc": 0}

            def val(e):
                e = hir.peel_transparent(e)
                k = e.get("k")
                if k == "Path":
                    cp = (e.get("res") or {}).get("ctor_path") or ""
                    if cp.split("::")[-1] in STATUSES and "Status" in cp:
                        return cp.split("::")[-1]
                    l = hir.local_of(e)
                    if l and l[0] == new_local:
                        return new
                    if l:
                        b = us.bindings().get(l[0])
                        if b and b["origin"][0] == "let" and b["origin"][1] is not None and not us.assignments_to(l[0]):
                            return val(b["origin"][1])
                if k == "Field" and e["field"] == "status" and _is_file_status(e):
                    return st["cur"]
                raise _Unknown(hir.describe(e))

            def boolean(e):
                e = hir.peel(e)
                k = e.get("k")
                if k == "Lit" and isinstance(hir.lit_value(e), bool):
                    return hir.lit_value(e)
                if k == "Unary" and e["op"] == "Not":
                    return not boolean(e["x"])
                if k == "Binary" and e["op"] in ("And", "Or"):
                    l = boolean(e["l"])
                    if e["op"] == "And":
                        return l and boolean(e["r"])
                    return l or boolean(e["r"])
                if k == "Binary" and e["op"] in ("Eq", "Ne"):
                    return (val(e["l"]) == val(e["r"])) == (e["op"] == "Eq")
                if hir.is_call(e) and (hir.callee_name(e) or e.get("method")) in ("eq", "ne"):
                    a = hir.call_args(e)
                    return (val(a[0]) == val(a[1])) == ((hir.callee_name(e) or e.get("method")) == "eq")
                if hir.is_call(e):
                    # a crate predicate over the file status (is_cancelled(), visit_is_cancelled() ...)
                    h = prog.resolve_local(e)
                    if h is not None and h.body is not None and (h.rec.get("ret") == "bool"):
                        from .prov import return_exprs
                        rs = return_exprs(h.body)
                        if len(rs) == 1:
                            return boolean(rs[0])
                raise _Unknown(hir.describe(e))

            def pat_matches(p, v):
                k = p.get("k")
                if k in ("Wild",):
                    return True
                if k == "Binding":
                    return pat_matches(p["sub"], v) if "sub" in p else True
                if k in ("Ref", "Deref", "Box"):
                    return pat_matches(p["inner"], v)
                if k == "Or":
                    return any(pat_matches(q, v) for q in p["pats"])
                if k == "Tuple":
                    return all(pat_matches(q, x) for q, x in zip(p["pats"], v))
                if k in ("Path", "TupleStruct", "Struct"):
                    pv_ = hir.pat_variant(p)
                    return isinstance(pv_, str) and pv_.split("::")[-1] == v
                raise _Unknown("pattern %s" % k)

            def run(e):
                e = hir.peel(e)
                k = e.get("k")
                if k == "BlockExpr":
                    return run(e["block"])
                if k == "Block":
                    for s_ in e["stmts"]:
                        x = s_.get("init") if s_["k"] == "Let" else s_.get("e")
                        if s_["k"] == "Let":
                            continue  # immutable helper bindings are looked through by val()
                        if x is not None:
                            run(x)
                    if "tail" in e:
                        run(e["tail"])
                    return
                if k == "If":
                    c = hir.peel(e["cond"])
                    if c.get("k") == "LetCond":
                        ok_ = pat_matches(c["pat"], scrut(c["init"]))
                    else:
                        ok_ = boolean(c)
                    if ok_:
                        run(e["then"])
                    elif "else" in e:
                        run(e["else"])
                    return
                if k == "Match":
                    v = scrut(e["scrut"])
                    for a in e["arms"]:
                        if pat_matches(a["pat"], v) and ("guard" not in a or boolean(a["guard"])):
                            run(a["body"])
                            return
                    return
                if k == "Ret":
                    raise _Return()
                if k == "Assign":
                    l_ = hir.peel(e["l"])
                    if l_.get("k") == "Field" and l_["field"] == "status" and _is_file_status(l_):
                        st["cur"] = val(e["r"])
                        return
                    raise _Unknown("assignment to %s" % hir.describe(e["l"]))
                if hir.is_call(e):
                    nm = hir.callee_name(e) or e.get("method")
                    if nm == "inc":
                        st["inc"] += 1
                        return
                    if nm in ("debug", "trace", "to_string", "clone"):
                        return
                    raise _Unknown("call of %s" % nm)
                if k in ("Tup",) and not e.get("elems"):
                    return
                if k in ("Lit", "Path"):
                    return
                raise _Unknown(k)

            def scrut(e):
                e = hir.peel(e)
                if e.get("k") == "Tup":
                    return tuple(val(x) for x in e["elems"])
                return val(e)

            try:
                try:
                    run(us.body)
                except _Return:
                    pass
            except _Unknown as ex:
                raise AnchorMissing("update_status contains something the status evaluator does not model: %s" % ex)
            table[(cur0, new)] = (st["cur"], st["inc"])
    return table


def expected_status_table():
    t = {}
    for cur in STATUSES:
        for new in STATUSES:
            if cur == "Cancelled":
                t[(cur, new)] = ("Cancelled", 0)
            elif new == "Modified":
                t[(cur, new)] = ("Modified", 1)
            elif new == "Cancelled":
                t[(cur, new)] = ("Cancelled", 0)
            else:
                t[(cur, new)] = (cur, 0)
    return t


# ---------------------------------------------------------------------------------------------
# the final status of a rewrite as propositional atoms

STATUS_EXH = {"is:Status::": list(STATUSES)}


def status_atomize(fn, e):
    """`<..>.status == Status::V`, `matches!(..)` handled by pat_formula; is_modified()-style predicates"""
    from . import boolform as BF

    e = hir.peel(e)
    if e.get("k") == "Binary" and e["op"] in ("Eq", "Ne"):
        sides = [hir.peel_transparent(e["l"]), hir.peel_transparent(e["r"])]
        ctor = [(x.get("res", {}).get("ctor_path") or "") for x in sides if x.get("k") == "Path"]
        fld = [x for x in sides if x.get("k") == "Field" and x["field"] == "status"]
        if fld and ctor and ctor[0].split("::")[-1] in STATUSES:
            a = BF.atom("is:Status::" + ctor[0].split("::")[-1])
            return a if e["op"] == "Eq" else BF.neg(a)
    return None


def status_premises(prog, fn, conds):
    """formulas of the path conditions with Status patterns normalised to the same atoms"""
    from . import boolform as BF

    out = []
    for c in conds:
        if c.get("t") in ("pat", "arm_not") and c.get("scrut") is not None and not (hir.place(c["scrut"]) or "").endswith(".status"):
            continue
        f = BF.from_cond(fn, c, status_atomize, prog)
        out.append(_norm_status(f))
    return [f for f in out if f != BF.TRUE]


def _norm_status(f):
    if f[0] == "atom" and f[1].startswith("is:") and f[1].split("::")[-1] in STATUSES and "Status" in f[1]:
        return ("atom", "is:Status::" + f[1].split("::")[-1])
    if f[0] == "not":
        return ("not", _norm_status(f[1]))
    if f[0] in ("and", "or"):
        return (f[0], tuple(_norm_status(g) for g in f[1]))
    return f


def rule_snapshot_order(check, rule="SNAPSHOT-ORDER"):
    """A transform works on the node as it is when it is called and its result replaces the node: whatever
    the instrumenting visitor does to a part of the *old* node after that call is thrown away (while its
    status and count are kept)."""
    from .trav import AdtGraph, Traversal

    prog = check.prog
    check.rule(rule, "in visit_mut_expr no part of the node is visited by the instrumenting visitor between the call of the transform that replaces the node and the replacement: instrumentation done there would be discarded with the old node although its status and propagation count were recorded")
    f = opv_visit_mut_expr(prog)
    tr = Traversal(prog, f, AdtGraph(prog.adts))
    transforms = {"to_dd_binary_expr", "to_dd_assign_expr", "to_dd_tpl_expr", "to_dd_call_expr", "to_dd_cond_expr", "to_dd_arrow_expr"}
    n_t = 0
    bad = {}
    own = {f.def_path} | {g.def_path for g in prog.user_fns if (g.rec.get("self_ty") or "").split("<")[0] == (f.rec.get("self_ty") or "").split("<")[0] and not g.rec.get("impl_of_trait")}
    for p in tr.paths(f.body, tr.initial_env()):
        if not Traversal.feasible(p):
            continue
        seen_t = None
        for e in p.effects:
            if e["kind"] == "call" and e["name"] in transforms and seen_t is None and e.get("in_fn") in own:
                seen_t = e
                n_t += 1
                continue
            if seen_t is not None and e["kind"] in ("with", "children") and e.get("ap") not in ((), None) and (e.get("vty") or "").endswith("OperationTransformVisitor") and e.get("mode", "mut") != "ref" and e.get("in_fn") in own:
                arm = tr.variant_known(p, ())
                arm = arm.split("::")[-1] if isinstance(arm, str) else "_"
                bad[(arm, seen_t["name"])] = (e, seen_t)
    for (arm, tname), (e, t) in sorted(bad.items()):
        check.bad(rule, "%s/%s/%s" % (rule, arm, tname), hir.loc(e["node"]), "the %s arm visits %s with the instrumenting visitor after %s took its snapshot of the node: what is instrumented there is discarded when the result replaces the node, yet it is counted and makes the file Modified" % (arm, tr.ap_str(e["ap"]), tname))
    if not bad:
        check.ok(rule, rule + "/order", hir.loc(f.rec), "no instrumenting visit of a part of the old node after a transform call (%d transform calls on the paths)" % n_t)
    check.floor(rule, "transform calls on the paths of visit_mut_expr", n_t, 5)
