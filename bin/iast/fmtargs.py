"""Decode format_args! expansions of this nightly: the template is a byte string
(0xC0 = next argument, n < 0x80 = literal piece of n bytes, 0 = end).  Fails closed otherwise."""
from . import hir


class FmtError(Exception):
    pass


def format_calls(body):
    """[(outer node, pieces)] for every format_args-based expansion in body; pieces are
    ('lit', text) | ('arg', expr node)."""
    out = []
    for n in hir.walk(body):
        if n.get("k") == "Call" and (n.get("callee") or {}).get("path", "").endswith("fmt::Arguments::<'a>::new"):
            tpl = hir.peel(n["args"][0])
            if tpl.get("k") != "Lit" or tpl["lit"]["t"] != "bytes":
                raise FmtError("unrecognised format template at %s" % hir.loc(n))
            out.append((n, tpl["lit"]["v"]))
    return out


def decode(fn, args_new_call, template):
    """pieces for one Arguments::new call; the argument tuple is the `args` binding's initialiser."""
    # find the tuple: the enclosing block's first expression statement / let `args = (&a, &b)`
    tup = None
    for anc in fn.ancestors(args_new_call):
        if anc.get("k") == "Block":
            for s in anc["stmts"]:
                e = s.get("init") or s.get("e")
                if e is not None and hir.peel(e).get("k") == "Tup":
                    tup = hir.peel(e)
            if tup is None and "tail" in anc and hir.peel(anc["tail"]).get("k") == "Tup":
                tup = hir.peel(anc["tail"])
        if anc.get("k") == "Match" and hir.peel(anc["scrut"]).get("k") == "Tup":
            tup = hir.peel(anc["scrut"])
        if tup is not None:
            break
    args = [hir.peel(x) for x in tup["elems"]] if tup else []
    # the placeholders consume the *argument array* in order; its elements name fields of the tuple
    # (`[Argument::new_display(args.1), Argument::new_display(args.0)]` when captured identifiers and
    # positional arguments are mixed)
    try:
        arr = hir.peel(args_new_call["args"][1]) if len(args_new_call.get("args", [])) > 1 else None
        for _ in range(3):
            if arr is None or arr.get("k") == "Array":
                break
            l_ = hir.local_of(arr)
            b_ = fn.bindings().get(l_[0]) if l_ else None
            arr = hir.peel(b_["origin"][1]) if b_ and b_["origin"][0] == "let" and b_["origin"][1] is not None else None
        if arr is not None and arr.get("k") == "Array" and tup is not None:
            order = []
            for el in arr.get("elems", []):
                el = hir.peel(el)
                a0 = hir.peel(hir.call_args(el)[0]) if hir.is_call(el) and hir.call_args(el) else el
                if a0.get("k") == "Field" and str(a0.get("field", "")).isdigit():
                    order.append(int(a0["field"]))
                else:
                    order = None
                    break
            if order is not None and all(i < len(args) for i in order):
                args = [args[i] for i in order]
    except (KeyError, IndexError, TypeError):
        pass
    pieces = []
    i = 0
    ai = 0
    b = template
    while i < len(b):
        x = b[i]
        if x == 0:
            break
        if x == 192:
            if ai >= len(args):
                raise FmtError("format template has more placeholders than arguments")
            pieces.append(("arg", args[ai]))
            ai += 1
            i += 1
        elif x < 128:
            pieces.append(("lit", bytes(b[i + 1 : i + 1 + x]).decode("utf-8", "replace")))
            i += 1 + x
        else:
            raise FmtError("unknown format opcode %d" % x)
    return pieces


def formats_in(fn):
    out = []
    for n, tpl in format_calls(fn.body):
        out.append((n, decode(fn, n, tpl)))
    return out


def no_args_literal(fn):
    """format_args with no placeholders are lowered differently (from_str): collect those too."""
    out = []
    for n in hir.walk(fn.body):
        if n.get("k") == "Call" and (n.get("callee") or {}).get("name") in ("from_str", "new_const") and "fmt::Arguments" in (n.get("callee") or {}).get("path", ""):
            lit = hir.lit_value(n["args"][0])
            out.append((n, [("lit", lit)]))
    return out


# ---- texts assembled piece by piece -------------------------------------------------------------

_BUILDER_INIT_EMPTY = {"new", "with_capacity", "default"}
_BUILDER_INIT_FROM = {"from", "to_string", "into_owned", "to_owned", "clone", "into", "to_str", "as_str"}


def _strip_ref(e):
    e = hir.peel(e)
    while True:
        if e.get("k") == "AddrOf":
            e = hir.peel(e.get("x") or e.get("e"))
        elif e.get("k") == "Unary" and e.get("op") == "Deref":
            e = hir.peel(e["x"])
        elif e.get("k") == "MethodCall" and e["method"] in ("as_str", "as_ref", "borrow", "deref", "as_mut_str"):
            e = hir.peel(e["recv"])
        else:
            return e


def _builders(fn):
    """[(let-init node, pieces)] for local Strings filled by push_str / push / += / X.encode_string(.., &mut s)"""
    out = []
    binds = fn.bindings()
    for lid, b in binds.items():
        if b["origin"][0] != "let" or not b.get("mut") or (b.get("ty") or "") != "std::string::String":
            continue
        init = b["origin"][1]
        pieces = []
        if init is not None:
            i0 = hir.peel(init)
            nm = (hir.callee_name(i0) or i0.get("method") or "") if hir.is_call(i0) else ""
            if nm in _BUILDER_INIT_EMPTY:
                pass
            elif nm in _BUILDER_INIT_FROM and hir.call_args(i0):
                pieces.append(("arg", _strip_ref(hir.call_args(i0)[0])))
            else:
                pieces.append(("arg", i0))
        fills = 0
        for n in fn.nodes():
            if n.get("k") == "MethodCall" and (hir.local_of(hir.peel(n["recv"])) or (None,))[0] == lid:
                if n["method"] == "push_str" and n["args"]:
                    v0 = _strip_ref(n["args"][0])
                    lv = hir.lit_value(v0) if v0.get("k") == "Lit" else None
                    pieces.append(("lit", lv) if isinstance(lv, str) else ("arg", v0))
                    fills += 1
                elif n["method"] == "push" and n["args"]:
                    v = hir.lit_value(hir.peel(n["args"][0]))
                    pieces.append(("lit", v) if isinstance(v, str) else ("arg", hir.peel(n["args"][0])))
                    fills += 1
                elif n["method"] in ("insert_str", "insert", "clear", "truncate", "replace_range", "retain", "drain", "extend"):
                    pieces.append(("arg", n))
                    fills += 1
            elif n.get("k") == "AssignOp" and (hir.local_of(hir.peel(n["l"])) or (None,))[0] == lid:
                pieces.append(("arg", _strip_ref(n["r"])))
                fills += 1
            elif hir.is_call(n) and not n.get("exp") and n.get("k") != "MethodCall" or (n.get("k") == "MethodCall" and (hir.local_of(hir.peel(n["recv"])) or (None,))[0] != lid and hir.is_call(n)):
                # the string handed out as `&mut s`: an encoder / writer appends to it
                for a in hir.call_args(n)[1:] if n.get("k") == "MethodCall" else hir.call_args(n):
                    cur = a
                    while cur.get("k") in ("DropTemps", "Use"):
                        cur = cur.get("x") or cur.get("e")
                    if ((cur.get("aty") or cur.get("ty") or "").startswith("&mut ")) and (hir.local_of(hir.peel(cur)) or (None,))[0] == lid:
                        pieces.append(("arg", n))
                        fills += 1
                        break
        if fills:
            out.append((init if init is not None else b["node"], pieces))
    return out


# helpers whose assembled text was spliced into a caller's (def paths)
INLINED = set()


def text_assemblies(prog, fn, depth=0):
    """[(node, pieces)] for the texts fn puts together: format_args expansions and String builders.  Crate
    constants that are string literals are folded, calls to crate helpers that return one assembled text are
    replaced by that text (their parameters by the arguments of the call), adjacent literal pieces merged."""
    raw = formats_in(fn) + _builders(fn)
    out = []
    for node, pieces in raw:
        # a piece that is the result of a crate helper which itself assembles one text
        expanded = []
        for k, v in pieces:
            v0 = _strip_ref(v) if k == "arg" and isinstance(v, dict) else None
            h = prog.resolve_local(v0) if v0 is not None and hir.is_call(v0) and v0.get("callee") else None
            if h is not None and h.body is not None and depth < 3 and h is not fn and any(t in (h.rec.get("ret") or "") for t in ("String", "str", "Cow<")):
                sub = [(n_, p_) for n_, p_ in text_assemblies(prog, h, depth + 1) if not any((a_.get("macro") or "").startswith("log::") for a_ in h.ancestors(n_))]
                if len(sub) == 1:
                    INLINED.add(h.def_path)
                    for k2, v2 in sub[0][1]:
                        if k2 == "arg" and isinstance(v2, dict):
                            l_ = hir.local_of(_strip_ref(v2))
                            b_ = h.bindings().get(l_[0]) if l_ else None
                            if b_ and b_["origin"][0] == "param" and not b_["origin"][2] and b_["origin"][1] < len(hir.call_args(v0)):
                                v2 = hir.call_args(v0)[b_["origin"][1]]
                        expanded.append((k2, v2))
                    continue
            expanded.append((k, v))
        pieces = expanded
        norm = []
        for k, v in pieces:
            if k == "arg":
                dp = hir.def_path_of(_strip_ref(v)) if isinstance(v, dict) else None
                val = None
                if dp:
                    try:
                        val = prog.const_str(dp)
                    except Exception:
                        val = None
                if isinstance(val, str):
                    k, v = "lit", val
            if k == "lit" and norm and norm[-1][0] == "lit":
                norm[-1] = ("lit", norm[-1][1] + v)
            else:
                norm.append((k, v))
        out.append((node, norm))
    return out
