"""Decode format_args! expansions of this nightly: the template is a byte string
(0xC0 = next argument, n < 0x80 = literal piece of n bytes, 0 = end).  Fails closed otherwise."""
from . import hir


class FmtError(Exception):
    pass


def format_calls(body):
    """[(outer node, pieces)] for every format_args-based expansion in body; pieces are
    ('lit', text) | ('arg', expr node)."""
    out = []
    for n in hir.walk(body):
        if n.get("k") == "Call" and (n.get("callee") or {}).get("path", "").endswith("fmt::Arguments::<'a>::new"):
            tpl = hir.peel(n["args"][0])
            if tpl.get("k") != "Lit" or tpl["lit"]["t"] != "bytes":
                raise FmtError("unrecognised format template at %s" % hir.loc(n))
            out.append((n, tpl["lit"]["v"]))
    return out


def decode(fn, args_new_call, template):
    """pieces for one Arguments::new call; the argument tuple is the `args` binding's initialiser."""
    # find the tuple: the enclosing block's first expression statement / let `args = (&a, &b)`
    tup = None
    for anc in fn.ancestors(args_new_call):
        if anc.get("k") == "Block":
            for s in anc["stmts"]:
                e = s.get("init") or s.get("e")
                if e is not None and hir.peel(e).get("k") == "Tup":
                    tup = hir.peel(e)
            if tup is None and "tail" in anc and hir.peel(anc["tail"]).get("k") == "Tup":
                tup = hir.peel(anc["tail"])
        if anc.get("k") == "Match" and hir.peel(anc["scrut"]).get("k") == "Tup":
            tup = hir.peel(anc["scrut"])
        if tup is not None:
            break
    args = [hir.peel(x) for x in tup["elems"]] if tup else []
    pieces = []
    i = 0
    ai = 0
    b = template
    while i < len(b):
        x = b[i]
        if x == 0:
            break
        if x == 192:
            if ai >= len(args):
                raise FmtError("format template has more placeholders than arguments")
            pieces.append(("arg", args[ai]))
            ai += 1
            i += 1
        elif x < 128:
            pieces.append(("lit", bytes(b[i + 1 : i + 1 + x]).decode("utf-8", "replace")))
            i += 1 + x
        else:
            raise FmtError("unknown format opcode %d" % x)
    return pieces


def formats_in(fn):
    out = []
    for n, tpl in format_calls(fn.body):
        out.append((n, decode(fn, n, tpl)))
    return out


def no_args_literal(fn):
    """format_args with no placeholders are lowered differently (from_str): collect those too."""
    out = []
    for n in hir.walk(fn.body):
        if n.get("k") == "Call" and (n.get("callee") or {}).get("name") in ("from_str", "new_const") and "fmt::Arguments" in (n.get("callee") or {}).get("path", ""):
            lit = hir.lit_value(n["args"][0])
            out.append((n, [("lit", lit)]))
    return out
