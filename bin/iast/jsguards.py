"""JS-GUARDS: the conditions under which the key sites of the JavaScript glue are reached.

Each instance names a site by what it does (decodes the inline map, reads the referenced map file,
constructs the SourceMap, looks a position up, fills the original-map cache, calls the wrapped
handler, translates a frame ...), collects the structural conditions under which the site is reached
in its function (and, for local helpers, under which the helper is called) and compares them with the
documented gate by propositional entailment in both directions.  Atoms are named after what a test
means (the last line starts with the inline marker, the cache missed, the frame is an eval frame),
never after where it is written, so guard clauses, early returns, conditional expressions and helper
extraction leave the verdict alone; a flipped, dropped or extra test does not."""
from . import boolform as BF
from . import jsast
from . import jsflow as JF
from .engine import AnchorMissing

FN_TYPES = ("FunctionDeclaration", "FunctionExpression", "ArrowFunctionExpression", "ClassMethod", "Constructor")


class File:
    """functions of one JS file, parents, local call graph"""

    def __init__(self, jf):
        self.jf = jf
        self.parents = {}
        for n in jsast.walk(jf.program):
            for v in n.values():
                if isinstance(v, dict):
                    self.parents[id(v)] = n
                elif isinstance(v, list):
                    for x in v:
                        if isinstance(x, dict):
                            self.parents[id(x)] = n
        self.decls = {}
        for n in jsast.walk(jf.program):
            if n.get("type") == "FunctionDeclaration":
                self.decls[jsast.ident_name(n.get("identifier"))] = n
            if n.get("type") == "VariableDeclarator" and (n.get("init") or {}).get("type") in ("ArrowFunctionExpression", "FunctionExpression") and n["id"].get("type") == "Identifier":
                self.decls[n["id"]["value"]] = n["init"]
        self.consts = {}
        self.regexes = {}
        self.objects = {}
        for st in jf.body:
            if st.get("type") == "VariableDeclaration" and st.get("kind") == "const":
                for d in st["declarations"]:
                    if d["id"].get("type") != "Identifier" or d.get("init") is None:
                        continue
                    init = JF.unparen(d["init"])
                    if init.get("type") == "CallExpression" and jsast.member_chain(_callee(init)) == ["Object", "freeze"] and args(init):
                        init = args(init)[0]
                    if init.get("type") == "StringLiteral":
                        self.consts[d["id"]["value"]] = init["value"]
                    elif init.get("type") == "RegExpLiteral":
                        self.regexes[d["id"]["value"]] = init
                    elif init.get("type") == "ObjectExpression":
                        o = {}
                        for p in init.get("properties", []):
                            if p.get("type") == "KeyValueProperty" and p["value"].get("type") in ("StringLiteral", "BooleanLiteral", "NumericLiteral"):
                                o[p["key"].get("value")] = p["value"]["value"]
                        self.objects[d["id"]["value"]] = o
        self._fns = {}

    def parent(self, n):
        return self.parents.get(id(n))

    def const_value(self, e):
        """(True, value) when the expression is a module-level constant / literal"""
        e = JF.unparen(e)
        t = e.get("type")
        if t in ("StringLiteral", "BooleanLiteral", "NumericLiteral"):
            return True, e["value"]
        if t == "Identifier" and e["value"] in self.consts:
            return True, self.consts[e["value"]]
        if t == "Identifier" and e["value"] == "undefined":
            return True, None
        if t == "MemberExpression" and e["property"].get("type") == "Identifier" and jsast.ident_name(e["object"]) in self.objects:
            o = self.objects[jsast.ident_name(e["object"])]
            if e["property"]["value"] in o:
                return True, o[e["property"]["value"]]
        return False, None

    def has_regex(self, n, word):
        for x in jsast.walk(n):
            if x.get("type") == "RegExpLiteral" and word in (x.get("pattern") or ""):
                return True
            if x.get("type") == "Identifier" and x["value"] in self.regexes and word in (self.regexes[x["value"]].get("pattern") or ""):
                return True
        return False

    def ancestors(self, n):
        p = self.parent(n)
        while p is not None:
            yield p
            p = self.parent(p)

    def enclosing_fn(self, n):
        """innermost function node containing n"""
        for a in self.ancestors(n):
            if a.get("type") in FN_TYPES:
                return a
        return None

    def fn(self, node):
        if id(node) not in self._fns:
            self._fns[id(node)] = JF.JsFn(node)
        return self._fns[id(node)]

    def fn_name(self, node):
        if node.get("type") == "FunctionDeclaration":
            return jsast.ident_name(node.get("identifier"))
        for k, v in self.decls.items():
            if v is node:
                return k
        if node.get("type") in ("ClassMethod",):
            return (node.get("key") or {}).get("value")
        return None

    def params(self, node):
        f = node.get("function", node)
        return [jsast.param_name(p) for p in f.get("params", [])]

    def binding(self, fnnode, name):
        """(kind, declarator-init | None, n_assignments) of a local name in the function"""
        init = None
        kind = None
        nass = 0
        for n in jsast.walk(fnnode):
            if n.get("type") == "VariableDeclaration":
                for d in n["declarations"]:
                    if d["id"].get("type") == "Identifier" and d["id"]["value"] == name:
                        kind = n.get("kind")
                        init = d.get("init")
            if n.get("type") == "AssignmentExpression" and jsast.ident_name(n["left"]) == name:
                nass += 1
        return kind, init, nass

    def defs(self, fnnode, name):
        """every expression the local name is given (declaration initialiser and assignments)"""
        out = []
        for n in jsast.walk(fnnode):
            if n.get("type") == "VariableDeclaration":
                for d in n["declarations"]:
                    if d["id"].get("type") == "Identifier" and d["id"]["value"] == name and d.get("init") is not None:
                        out.append(d["init"])
            if n.get("type") == "AssignmentExpression" and jsast.ident_name(n["left"]) == name and n.get("operator") == "=":
                out.append(n["right"])
        return out

    def resolve_const(self, fnnode):
        def r(name):
            kind, init, nass = self.binding(fnnode, name)
            if init is not None and nass == 0 and kind in ("const", "let", "var"):
                return init
            return None
        return r

    def callers(self, name):
        out = []
        for n in jsast.walk(self.jf.program):
            if n.get("type") == "CallExpression" and jsast.member_chain(_callee(n)) == [name]:
                out.append(n)
        return out


def _callee(call):
    c = call["callee"]
    if "expression" in c and "type" not in c:
        c = c["expression"]
    return JF.unparen(c)


def args(call):
    return [JF.unparen(a["expression"]) for a in call.get("arguments") or []]


def chain(call):
    return jsast.member_chain(_callee(call)) or []


def method_name(call):
    c = _callee(call)
    if c.get("type") == "MemberExpression" and c["property"].get("type") == "Identifier":
        return c["property"]["value"]
    return None


def generic_atom(e):
    """what a test means when no rule-specific reading applies"""
    t = e.get("type")
    if t == "Identifier":
        return BF.atom("t:" + JF.text(e))  # (a parameter of a helper reads as the argument of the call considered)
    if t in ("MemberExpression", "CallExpression", "OptionalChainingExpression"):
        return BF.atom("t:" + JF.text(e))
    if t == "BinaryExpression":
        op = e["operator"]
        l, r = JF.unparen(e["left"]), JF.unparen(e["right"])
        if op in ("===", "=="):
            for a, b in ((l, r), (r, l)):
                if (b.get("type") == "Identifier" and b["value"] == "undefined") or (b.get("type") == "UnaryExpression" and b.get("operator") == "void"):
                    return BF.atom("undef:" + JF.text(a))
                if b.get("type") == "NullLiteral" and op == "==":
                    return BF.atom("undef:" + JF.text(a))
                if a.get("type") == "UnaryExpression" and a.get("operator") == "typeof" and b.get("type") == "StringLiteral" and b["value"] == "undefined":
                    return BF.atom("undef:" + JF.text(a["argument"]))
            x, y = sorted([JF.text(l), JF.text(r)])
            return BF.atom("eq:%s:%s" % (x, y))
        if op == "<":
            return BF.atom("lt:%s:%s" % (JF.text(l), JF.text(r)))
        if op == ">":
            return BF.atom("lt:%s:%s" % (JF.text(r), JF.text(l)))
        if op == ">=":
            return BF.neg(BF.atom("lt:%s:%s" % (JF.text(l), JF.text(r))))
        if op == "<=":
            return BF.neg(BF.atom("lt:%s:%s" % (JF.text(r), JF.text(l))))
    return None


class Reach:
    """reachability formula of sites: the conditions inside the function, and for local helpers and
    callbacks the conditions under which they are called (up to `stop` functions / exported entry
    points).  Parameters of a helper are rendered as the arguments of the call under consideration."""

    def __init__(self, F, atomize, stop=(), through_callbacks=True):
        self.F = F
        self.atomize = atomize
        self.stop = list(stop)
        self.through_callbacks = through_callbacks
        self._exported = exported_names(F.jf)

    # 0: a const is read through only when it holds a condition (comparison, !, &&, ||) or another name;
    # 1: every never-reassigned const is read through (`const ok = fs.existsSync(f); if (ok)` is `if (fs.existsSync(f))`)
    resolve_level = 0

    def _at(self, top):
        def atomz(e):
            a = self.atomize(e, top)
            if a is None and e.get("type") == "Identifier" and e["value"] not in JF.REN[0]:
                init = self.F.resolve_const(top)(e["value"])
                i0 = JF.unparen(init) if init is not None else None
                if i0 is not None:
                    cond_like = (i0.get("type") == "BinaryExpression" and i0.get("operator") in ("===", "!==", "==", "!=", "<", ">", "<=", ">=", "&&", "||")) or (i0.get("type") == "UnaryExpression" and i0.get("operator") == "!") or i0.get("type") == "Identifier"
                    if cond_like or (self.resolve_level >= 1 and i0.get("type") in ("CallExpression", "MemberExpression", "OptionalChainingExpression")):
                        return None  # jsflow.formula reads the const through its initialiser
            if a is None and e.get("type") == "CallExpression" and chain(e) == ["Boolean"] and len(args(e)) == 1:
                return None  # jsflow.formula reads Boolean(x) as the truthiness of x
            if a is None and e.get("type") == "CallExpression":
                a = self.helper_truth(e, top)
            if a is None and e.get("type") == "OptionalChainingExpression":
                return None  # jsflow.formula splits `a?.b` into the tests of `a && a.b`
            return a if a is not None else generic_atom(e)
        return atomz

    def helper_truth(self, call, top, depth=0):
        """formula of the truthiness of the result of a local (not exported) helper function, read off its return
        paths, with its parameters rendered as the arguments of this call"""
        F = self.F
        ch = chain(call)
        h = F.decls.get(ch[0]) if len(ch) == 1 else None
        if h is None or ch[0] in self._exported or depth > 2 or h.get("type") not in ("FunctionDeclaration", "FunctionExpression", "ArrowFunctionExpression"):
            return None
        params = F.params(h)
        a = args(call)
        if len(a) < len(params):
            return None
        ren = dict(JF.REN[0])
        for p_, arg in zip(params, a):
            ren[p_] = JF.text(arg)
        fn = F.fn(h)
        old = JF.REN[0]
        JF.REN[0] = ren
        try:
            at_h = self._at(h)
            rc = F.resolve_const(h)
            alts = []
            for conds, ret in fn.decision_paths():
                r_ = JF.unparen(ret) if ret is not None else None
                tv = JF.truthiness(r_) if r_ is not None else False
                if tv is False:
                    continue
                fs = []
                for e_, v_ in conds:
                    f_ = JF.formula(e_, at_h, rc)
                    fs.append(f_ if v_ else BF.neg(f_))
                if tv is None:
                    fs.append(JF.formula(r_, at_h, rc))
                alts.append(BF.conj(fs))
            return BF.disj(alts)
        finally:
            JF.REN[0] = old

    def local(self, site, top, ren=None):
        fn = self.F.fn(top)
        old = JF.REN[0]
        JF.REN[0] = ren or {}
        try:
            return BF.conj(JF.premises(fn, site, self._at(top), self.F.resolve_const(top)))
        finally:
            JF.REN[0] = old

    def chains(self, site, depth=0):
        """call chains [(function, site in it), ...] from the site outwards"""
        F = self.F
        top = F.enclosing_fn(site)
        if top is None:
            return [[]]
        me = (top, site)
        if any(top is s for s in self.stop) or depth > 5:
            return [[me]]
        name = F.fn_name(top)
        if self.through_callbacks and name is None and top.get("type") in ("ArrowFunctionExpression", "FunctionExpression"):
            return [[me] + ch for ch in self.chains(top, depth + 1)]
        if name is not None and top.get("type") not in ("ClassMethod", "Constructor") and name not in self._exported:
            cs = [c for c in F.callers(name) if not any(a is top for a in F.ancestors(c))]
            if cs:
                out = []
                for c in cs:
                    out.extend([me] + ch for ch in self.chains(c, depth + 1))
                return out
        return [[me]]

    def entry(self, site):
        """outermost functions of the chains of a site"""
        return [ch[-1][0] for ch in self.chains(site) if ch]

    def renaming(self, chain):
        """per level (outermost first) the parameter -> argument text map"""
        F = self.F
        rens = []
        ren = {}
        levels = list(reversed(chain))
        for i, (top, site) in enumerate(levels):
            rens.append(dict(ren))
            if i + 1 < len(levels):
                inner = levels[i + 1][0]
                if F.fn_name(inner) is not None and site.get("type") == "CallExpression":
                    old = JF.REN[0]
                    JF.REN[0] = ren
                    try:
                        nxt = {}
                        for k, p in enumerate(F.params(inner)):
                            if p is not None and k < len(args(site)):
                                nxt[p] = JF.text(args(site)[k])
                    finally:
                        JF.REN[0] = old
                    ren = nxt
                else:
                    # a callback: names of the enclosing function stay visible (minus its own parameters)
                    ren = {k: v for k, v in ren.items() if k not in F.params(inner)}
        return list(zip(levels, rens))

    def _of(self, site):
        alts = []
        for ch in self.chains(site):
            fs = [self.local(s, top, ren) for (top, s), ren in self.renaming(ch)]
            alts.append(BF.conj(fs))
        return BF.disj(alts)

    def of(self, site):
        return self.any_of([site])

    def any_of(self, sites):
        """the reach formula; carries `.alt`, the same formula with every const read through (see resolve_level)"""
        f0 = BF.disj([self._of(s) for s in sites])
        old = self.resolve_level
        self.resolve_level = 1
        try:
            f1 = BF.disj([self._of(s) for s in sites])
        finally:
            self.resolve_level = old
        out = _Formula(f0)
        out.alt = f1
        return out

    def arg_text(self, site, e):
        """texts of expression e (inside site's function) as seen from the outermost function of each chain"""
        out = set()
        for ch in self.chains(site):
            lv = self.renaming(ch)
            ren = lv[-1][1] if lv else {}
            old = JF.REN[0]
            JF.REN[0] = ren
            try:
                out.add(JF.text(e))
            finally:
                JF.REN[0] = old
        return out


def exported_names(jf):
    out = set()
    for x in jsast.walk(jf.program):
        if x.get("type") == "AssignmentExpression" and jsast.member_chain(x["left"]) == ["module", "exports"]:
            for p in x["right"].get("properties", []):
                if p.get("type") == "Identifier":
                    out.add(p["value"])
                elif p.get("type") == "KeyValueProperty" and p["value"].get("type") == "Identifier":
                    out.add(p["value"]["value"])
    return out


def equivalent(f, g, axioms=()):
    return BF.entails([f] + list(axioms), g) and BF.entails([g] + list(axioms), f)


class _Formula(tuple):
    """a boolform formula (a tuple) that can carry an alternative rendering of the same condition"""
    alt = None


def expect_gate(c, R, key, where, reach, goal, what, axioms=(), only_necessary=False, only_sufficient=False):
    """reach <=> goal (or one direction)"""
    fwd = only_sufficient or BF.entails([reach] + list(axioms), goal)
    back = only_necessary or BF.entails([goal] + list(axioms), reach)
    alt = getattr(reach, "alt", None)
    if not (fwd and back) and alt is not None and tuple(alt) != tuple(reach):
        # the same condition with named intermediate results read through
        fwd2 = only_sufficient or BF.entails([alt] + list(axioms), goal)
        back2 = only_necessary or BF.entails([goal] + list(axioms), alt)
        if fwd2 and back2:
            fwd, back = True, True
    if fwd and back:
        c.ok(R, key, where, "%s exactly when %s" % (what, BF.show(goal)))
    elif not fwd:
        c.bad(R, key, where, "%s is reached under [%s], which does not imply the documented gate [%s]" % (what, BF.show(reach), BF.show(goal)))
    else:
        c.bad(R, key, where, "%s is reached only under [%s]: the documented gate [%s] does not imply it (a test was flipped or added)" % (what, BF.show(reach), BF.show(goal)))


# --------------------------------------------------------------------------------------------------


def _starts_test(F, e):
    """(receiver, marker value) for X.indexOf(M) === 0 / X.startsWith(M) / X.lastIndexOf(M, 0) === 0"""
    e = JF.unparen(e)
    if e.get("type") == "BinaryExpression" and e["operator"] in ("===", "=="):
        for a, b in ((e["left"], e["right"]), (e["right"], e["left"])):
            a, b = JF.unparen(a), JF.unparen(b)
            if b.get("type") == "NumericLiteral" and b["value"] == 0 and a.get("type") == "CallExpression":
                ch = _callee(a)
                if ch.get("type") == "MemberExpression" and ch["property"].get("value") in ("indexOf", "lastIndexOf"):
                    if ch["property"]["value"] == "lastIndexOf" and not (len(args(a)) == 2 and args(a)[1].get("value") == 0):
                        return None
                    if ch["property"]["value"] == "indexOf" and len(args(a)) != 1:
                        return None
                    return ch["object"], _marker(F, args(a)[0])
    if e.get("type") == "CallExpression":
        ch = _callee(e)
        if ch.get("type") == "MemberExpression" and ch["property"].get("value") == "startsWith" and len(args(e)) == 1:
            return ch["object"], _marker(F, args(e)[0])
    return None


def _marker(F, e):
    if e.get("type") == "StringLiteral":
        return e["value"]
    if e.get("type") == "Identifier":
        return F.consts.get(e["value"])
    return None


def _marker_len(F, e):
    """marker whose length the expression is: M.length or the number itself"""
    e = JF.unparen(e)
    if e.get("type") == "MemberExpression" and e["property"].get("value") == "length":
        return _marker(F, JF.unparen(e["object"]))
    if e.get("type") == "NumericLiteral":
        for v in F.consts.values():
            if len(v) == e["value"]:
                return v
    return None


def _is_last_line(F, top, e, depth=0):
    """is e the last line of the trimmed content parameter?  -> (ok, why)"""
    e = JF.unparen(e)
    r = F.resolve_const(top)
    if e.get("type") == "Identifier" and depth < 4:
        init = r(e["value"])
        if init is None and e["value"] in F.params(top) and F.fn_name(top) and F.fn_name(top) not in exported_names(F.jf):
            # a parameter of a local (not exported) helper: what its callers pass
            i_ = F.params(top).index(e["value"])
            sites = F.callers(F.fn_name(top))
            if sites and all(len(args(c_)) > i_ for c_ in sites):
                for c_ in sites:
                    ok_, why_ = _is_last_line(F, F.enclosing_fn(c_), args(c_)[i_], depth + 1)
                    if not ok_:
                        return False, why_
                return True, ""
        if init is None:
            return False, "`%s` is reassigned or not a local" % e["value"]
        return _is_last_line(F, top, init, depth + 1)
    arr = None
    if e.get("type") == "MemberExpression" and e["property"].get("type") == "Computed":
        idx = JF.unparen(e["property"]["expression"])
        arr = JF.unparen(e["object"])
        ok = idx.get("type") == "BinaryExpression" and idx["operator"] == "-" and JF.unparen(idx["right"]).get("value") == 1 and JF.text(idx["left"]) == JF.text(arr) + ".length"
        if not ok:
            # X.slice(-1)[0]
            if arr.get("type") == "CallExpression" and _callee(arr).get("type") == "MemberExpression" and _callee(arr)["property"].get("value") == "slice" and JF.text(args(arr)[0]) == "-1" and idx.get("value") == 0:
                arr = JF.unparen(_callee(arr)["object"])
            else:
                return False, "index %s is not the last index of %s" % (JF.text(idx), JF.text(arr))
    elif e.get("type") == "CallExpression" and _callee(e).get("type") == "MemberExpression":
        m = _callee(e)["property"].get("value")
        a = args(e)
        if m == "pop" and not a:
            arr = JF.unparen(_callee(e)["object"])
        elif m == "at" and len(a) == 1 and JF.text(a[0]) == "-1":
            arr = JF.unparen(_callee(e)["object"])
        elif m in ("substring", "slice", "substr") and len(a) == 1:
            # <trimmed>.substring(<trimmed>.lastIndexOf('\n') + 1): the text after the last line end
            obj = JF.unparen(_callee(e)["object"])
            off = JF.unparen(a[0])
            ok_off = off.get("type") == "BinaryExpression" and off["operator"] == "+" and JF.unparen(off["right"]).get("value") == 1
            li = JF.unparen(off["left"]) if ok_off else {}
            ok_li = li.get("type") == "CallExpression" and method_name(li) == "lastIndexOf" and JF.text(_callee(li)["object"]) == JF.text(obj) and len(args(li)) == 1 and args(li)[0].get("type") == "StringLiteral" and args(li)[0]["value"] == "\n"
            if ok_off and ok_li:
                recv = obj
                for _ in range(4):
                    if recv.get("type") == "Identifier" and recv["value"] not in F.params(top):
                        init = r(recv["value"])
                        if init is None:
                            return False, "`%s` is reassigned" % recv["value"]
                        recv = JF.unparen(init)
                okt = recv.get("type") == "CallExpression" and method_name(recv) in ("trim", "trimEnd", "trimRight") and jsast.ident_name(JF.unparen(_callee(recv)["object"])) in F.params(top)[:1]
                return (True, "") if okt else (False, "%s is not the trimmed content" % JF.text(recv)[:60])
    if arr is None:
        return False, "%s is no last-element idiom" % JF.text(e)[:60]
    # the array: <trimmed>.split(newline)
    for _ in range(4):
        if arr.get("type") == "Identifier":
            init = r(arr["value"])
            if init is None:
                return False, "`%s` is reassigned" % arr["value"]
            arr = JF.unparen(init)
    if not (arr.get("type") == "CallExpression" and _callee(arr).get("type") == "MemberExpression" and _callee(arr)["property"].get("value") == "split"):
        return False, "%s is not a split of the content" % JF.text(arr)[:60]
    sep = args(arr)[0] if args(arr) else {}
    if not ((sep.get("type") == "StringLiteral" and sep["value"] == "\n") or (sep.get("type") == "RegExpLiteral" and sep.get("pattern") in ("\\r?\\n", "\\n", "\\r\\n|\\n", "\\n|\\r\\n"))):
        return False, "content is not split at line ends (%s)" % JF.text(sep)
    recv = JF.unparen(_callee(arr)["object"])
    for _ in range(4):
        if recv.get("type") == "Identifier" and recv["value"] not in F.params(top):
            init = r(recv["value"])
            if init is None:
                break
            recv = JF.unparen(init)
    if not (recv.get("type") == "CallExpression" and _callee(recv).get("type") == "MemberExpression" and _callee(recv)["property"].get("value") in ("trim", "trimEnd", "trimRight")):
        return False, "the content is not trimmed at its end before it is split: a final newline makes the last line empty"
    base = JF.unparen(_callee(recv)["object"])
    if not (base.get("type") == "Identifier" and base["value"] in F.params(top)[:1]):
        return False, "the lines are not those of the content parameter"
    return True, ""


def rule_map_discovery(c, R, F, inline_value):
    """generateSourceMapFromFileContent and friends"""
    jf = F.jf
    plain_value = None
    for v in F.consts.values():
        if inline_value.startswith(v) and v != inline_value:
            plain_value = v
    if plain_value is None:
        raise AnchorMissing("plain sourceMappingURL marker constant in %s" % jf.name)
    IN, PL = BF.atom("last-line-starts-with-inline-marker"), BF.atom("last-line-starts-with-url-marker")
    axioms = [BF.disj([BF.neg(IN), PL])]  # the inline marker extends the plain one (WRITER-READER/prefix)
    receivers = []

    data_value = inline_value[len(plain_value):]

    def after_plain(top, x):
        """is x `<line>.substring(<plain marker>.length)` (through constants)? -> the line, else None"""
        x = JF.unparen(x)
        r_ = F.resolve_const(top)
        for _ in range(3):
            if x.get("type") == "Identifier" and r_(x["value"]) is not None:
                x = JF.unparen(r_(x["value"]))
        if x.get("type") == "CallExpression" and _callee(x).get("type") == "MemberExpression" and _callee(x)["property"].get("value") in ("substring", "slice", "substr") and len(args(x)) == 1 and _marker_len(F, args(x)[0]) == plain_value:
            return _callee(x)["object"]
        return None

    def atomize(e, top):
        s = _starts_test(F, e)
        if s is not None:
            recv, val = s
            if val == inline_value:
                receivers.append((recv, top, e))
                return IN
            if val == plain_value:
                receivers.append((recv, top, e))
                return PL
            if val == data_value and data_value:
                # the data-URL prefix tested on what follows the plain marker: the line starts with both
                line = after_plain(top, recv)
                if line is not None:
                    receivers.append((line, top, e))
                    return IN
        return None

    reach = Reach(F, atomize)
    dec = [n for n in jsast.walk(jf.program) if n.get("type") == "CallExpression" and chain(n) == ["Buffer", "from"] and len(args(n)) == 2 and args(n)[1].get("value") == "base64"]
    c.floor(R, "base64 decodes of the inline map", len(dec), 1)
    if not dec:
        return
    top = F.enclosing_fn(dec[0])
    where = jf.loc(dec[0])
    expect_gate(c, R, R + "/inline-decode", where, reach.any_of(dec), IN, "the inline map is decoded", axioms)
    # what is decoded: the rest of the last line after the inline marker
    a0 = args(dec[0])[0]
    r = F.resolve_const(top)
    for _ in range(3):
        if a0.get("type") == "Identifier" and r(a0["value"]) is not None:
            a0 = JF.unparen(r(a0["value"]))
    okd = a0.get("type") == "CallExpression" and _callee(a0).get("type") == "MemberExpression" and _callee(a0)["property"].get("value") in ("substring", "slice", "substr") and len(args(a0)) == 1 and _marker_len(F, args(a0)[0]) == inline_value
    if not okd and data_value and a0.get("type") == "CallExpression" and _callee(a0).get("type") == "MemberExpression" and _callee(a0)["property"].get("value") in ("substring", "slice", "substr") and len(args(a0)) == 1 and _marker_len(F, args(a0)[0]) == data_value:
        # in two steps: what follows the plain marker, then what follows the data-URL prefix in that
        line_ = after_plain(top, _callee(a0)["object"])
        if line_ is not None:
            okd = True
            receivers.append((line_, top, a0))
            a0 = {"type": "CallExpression", "callee": {"type": "MemberExpression", "object": line_, "property": {"type": "Identifier", "value": "substring"}}, "arguments": []}
    c.expect(bool(okd), R, R + "/inline-payload", where, "decodes the last line after the inline marker", "the decoded text is %s, not the last line after the inline marker" % JF.text(a0)[:80])
    if okd and a0.get("arguments") != []:
        receivers.append((_callee(a0)["object"], top, a0))
    # ... and read as UTF-8 (the Rust side writes the map as UTF-8 JSON; source names are not ASCII only)
    par = F.parent(F.parent(dec[0])) if F.parent(dec[0]) is not None else None
    tostr = None
    for anc in F.ancestors(dec[0]):
        if anc.get("type") == "CallExpression" and method_name(anc) == "toString" and any(x is dec[0] for x in jsast.walk(_callee(anc))):
            tostr = anc
            break
    enc = args(tostr)[0].get("value") if tostr is not None and args(tostr) else None
    c.expect(tostr is not None and (enc is None or str(enc).lower().replace("-", "") == "utf8"), R, R + "/inline-utf8", where, "the decoded bytes are read as UTF-8", "the decoded map is not read as UTF-8 (%s): non-ASCII source names come out garbled" % (("toString(%r)" % enc) if tostr is not None else "no Buffer#toString"))
    # the raw map variable
    raw = None
    for n in jsast.walk(top):
        if n.get("type") == "AssignmentExpression" and any(x is dec[0] for x in jsast.walk(n["right"])):
            raw = jsast.ident_name(n["left"])
        if n.get("type") == "VariableDeclarator" and n.get("init") is not None and any(x is dec[0] for x in jsast.walk(n["init"])):
            raw = jsast.ident_name(n["id"])
    # reading the referenced file
    reads = [n for n in jsast.walk(top) if n.get("type") == "CallExpression" and chain(n)[-1:] == ["readFileSync"]]
    url = None
    for n in jsast.walk(top):
        if n.get("type") == "VariableDeclarator" and n.get("init") is not None:
            i = JF.unparen(n["init"])
            if i.get("type") == "CallExpression" and _callee(i).get("type") == "MemberExpression" and _callee(i)["property"].get("value") in ("substring", "slice", "substr") and len(args(i)) == 1 and _marker_len(F, args(i)[0]) == plain_value:
                url = jsast.ident_name(n["id"])
                receivers.append((_callee(i)["object"], top, i))
    c.expect(url is not None, R, R + "/url-payload", jf.loc(top), "the referenced url is the last line after the url marker", "no variable holds the last line after the %r marker" % plain_value)
    if reads and url:
        goal = BF.conj([BF.neg(IN), PL, BF.atom("t:" + url)])
        expect_gate(c, R, R + "/file-read", jf.loc(reads[0]), reach.any_of(reads), goal, "the referenced map file is read", axioms)
        for rd in reads:
            a = args(rd)[0] if args(rd) else {}
            # the url itself, or a constant holding its resolution `isAbsolute(url) ? url : join(dir, url)`
            # (whose form the relative-url clause checks)
            a_ = a
            for _ in range(2):
                if jsast.ident_name(a_) and jsast.ident_name(a_) != url and r(jsast.ident_name(a_)) is not None:
                    a_ = JF.unparen(r(jsast.ident_name(a_)))
            via_res = a_.get("type") == "ConditionalExpression" and JF.unparen(a_["test"]).get("type") == "CallExpression" and chain(JF.unparen(a_["test"]))[-1:] == ["isAbsolute"] and jsast.ident_name(args(JF.unparen(a_["test"]))[0]) == url
            c.expect(jsast.ident_name(a) == url or via_res, R, R + "/file-read-arg", jf.loc(rd), "reads the file the comment refers to", "reads %s, not the url of the comment" % JF.text(a)[:60])
        # relative urls are resolved against the directory parameter, absolute ones kept
        for n in jsast.walk(top):
            if n.get("type") == "ConditionalExpression":
                t = JF.unparen(n["test"])
                if t.get("type") == "CallExpression" and chain(t)[-1:] == ["isAbsolute"]:
                    u = jsast.ident_name(args(t)[0])
                    cons, alt = JF.unparen(n["consequent"]), JF.unparen(n["alternate"])
                    dirp = (F.params(top) + [None, None])[1]
                    okr = jsast.ident_name(cons) == u and alt.get("type") == "CallExpression" and chain(alt)[-1:] in (["join"], ["resolve"]) and [jsast.ident_name(x) for x in args(alt)] == [dirp, u]
                    c.expect(okr, R, R + "/relative-url", jf.loc(n), "absolute urls kept, relative ones joined to the file's directory", "url resolution is %s ? %s : %s" % (JF.text(t), JF.text(cons), JF.text(alt)))
    c.floor(R, "reads of the referenced map file", len(reads), 1)
    # constructing the map
    news = [n for n in jsast.walk(top) if n.get("type") == "NewExpression" and jsast.ident_name(n["callee"]) == "SourceMap"]
    if not news and F.fn_name(top) and F.fn_name(top) not in exported_names(jf):
        # the raw text is returned by a local helper: the map is built where the helper is called, from the
        # variable that receives its result
        for cs_ in F.callers(F.fn_name(top)):
            ct_ = F.enclosing_fn(cs_)
            for n in jsast.walk(ct_):
                if n.get("type") == "NewExpression" and jsast.ident_name(n["callee"]) == "SourceMap":
                    news.append(n)
                if n.get("type") == "VariableDeclarator" and n.get("init") is not None and any(x is cs_ for x in jsast.walk(n["init"])):
                    raw = jsast.ident_name(n["id"])
                if n.get("type") == "AssignmentExpression" and any(x is cs_ for x in jsast.walk(n["right"])):
                    raw = jsast.ident_name(n["left"])
    c.floor(R, "SourceMap constructions", len(news), 1)
    if news and raw:
        # a variable that starts out undefined is truthy only where it was assigned: whatever guards all of
        # its assignments is implied by it (an early `return` for "no marker at all" adds nothing to the gate)
        ax2 = list(axioms)
        kind_, init_, nass_ = F.binding(top, raw)
        if init_ is None and nass_:
            asg = [x for x in jsast.walk(top) if x.get("type") == "AssignmentExpression" and jsast.ident_name(x["left"]) == raw]
            ax2.append(BF.disj([BF.neg(BF.atom("t:" + raw)), reach.any_of(asg)]))
        expect_gate(c, R, R + "/construct", jf.loc(news[0]), reach.any_of(news), BF.atom("t:" + raw), "the SourceMap is constructed", ax2)
        for n in news:
            ids = [x["value"] for x in jsast.walk({"a": n.get("arguments")}) if x.get("type") == "Identifier" and x["value"] not in ("JSON", "parse")]
            c.expect(ids == [raw], R, R + "/construct-arg", jf.loc(n), "constructed from the raw map text", "constructed from %s" % ids)
    # every marker test looks at the last line of the trimmed content
    seen = set()
    for recv, t_, e in receivers:
        k = JF.text(recv)
        if k in seen:
            continue
        seen.add(k)
        ok, why = _is_last_line(F, t_, recv)
        c.expect(ok, R, R + "/last-line/" + k, jf.loc(e), "`%s` is the last line of the trimmed content" % k, "the marker is looked for in `%s`: %s" % (k, why))
    c.floor(R, "marker tests", len(receivers), 3)


def status_cmp(F, e):
    """(member chain of the compared expression, string) for `<x>.status === <string>`: the string may be a
    literal, a module constant, or - inside a local helper that Reach has opened - a parameter standing for
    one of these at the call under consideration (JF.REN)"""
    e = JF.unparen(e)
    if e.get("type") != "BinaryExpression" or e.get("operator") not in ("===", "=="):
        return None
    for a, b in ((e["left"], e["right"]), (e["right"], e["left"])):
        okc, v = F.const_value(b)
        if not okc and JF.unparen(b).get("type") == "Identifier":
            t_ = JF.REN[0].get(JF.unparen(b)["value"])
            if t_ is not None:
                if t_ in F.consts:
                    okc, v = True, F.consts[t_]
                elif len(t_) > 1 and t_[0] in "'\"" and t_[-1] == t_[0]:
                    okc, v = True, t_[1:-1]
        if okc and isinstance(v, str):
            ch = [x for x in JF.text(a).replace("?.", ".").split(".") if x]
            if ch and ch[-1] == "status":
                return ch, v
    return None


def _is_dirname_helper(F, name):
    """a local one-parameter function that gives the directory part of a file name: `path.dirname(p)`, or
    `p.split(path.sep)` with the last segment popped and the rest joined by `path.sep` again"""
    fn = F.decls.get(name)
    if fn is None:
        return False
    ps = F.params(fn)
    if len(ps) != 1:
        return False
    calls = [n for n in jsast.walk(fn) if n.get("type") == "CallExpression"]
    if any(chain(n) == ["path", "dirname"] and len(args(n)) == 1 and jsast.ident_name(args(n)[0]) == ps[0] for n in calls):
        return True
    sep = lambda n: len(args(n)) == 1 and jsast.member_chain(args(n)[0]) == ["path", "sep"]
    split = [n for n in calls if chain(n)[-1:] == ["split"] and chain(n)[:-1] == [ps[0]] and sep(n)]
    pops = [n for n in calls if chain(n)[-1:] == ["pop"] and not args(n)]
    joins = [n for n in calls if chain(n)[-1:] == ["join"] and sep(n)]
    if len(split) == 1 and len(pops) == 1 and len(joins) == 1 and len(calls) == 3:
        # one array: split -> pop -> join on the same name
        r = F.resolve_const(fn)
        arr = chain(pops[0])[0]
        return chain(joins[0])[0] == arr and r(arr) is split[0]
    return False


def rule_lookup(c, R, F):
    """getPathAndLine: the map is consulted exactly when there is one"""
    jf = F.jf
    fe = [n for n in jsast.walk(jf.program) if n.get("type") == "CallExpression" and chain(n)[-1:] == ["findEntry"]]
    c.floor(R, "findEntry sites", len(fe), 1)
    for n in fe:
        top = F.enclosing_fn(n)
        recv = chain(n)[0]
        if recv not in F.params(top):
            c.bad(R, R + "/lookup-receiver", jf.loc(n), "findEntry is called on `%s`, not on the map parameter" % recv)
            continue
        reach = Reach(F, lambda e, t: None, stop=[top])
        expect_gate(c, R, R + "/lookup", jf.loc(n), reach.of(n), BF.atom("t:" + recv), "the map is consulted")
        # the reported path is the original source joined to the directory of the rewritten file
        joins = [x for x in jsast.walk(top) if x.get("type") == "CallExpression" and chain(x) == ["path", "join"]]
        okj = False
        for j in joins:
            a = args(j)
            if len(a) == 2 and jsast.ident_name(a[1]) == "originalSource":
                d = a[0]
                r = F.resolve_const(top)
                if d.get("type") == "Identifier" and r(d["value"]) is not None:
                    d = JF.unparen(r(d["value"]))
                file_arg = (jsast.ident_name(args(d)[0]) or JF.text(args(d)[0])) if d.get("type") == "CallExpression" and len(args(d)) == 1 else None
                file_ok = file_arg is not None and (file_arg == F.params(top)[1] if len(F.params(top)) >= 4 else file_arg == "%s.path" % F.params(top)[1])
                okj = d.get("type") == "CallExpression" and len(args(d)) == 1 and file_ok and (chain(d) == ["path", "dirname"] or (len(chain(d)) == 1 and _is_dirname_helper(F, chain(d)[0])))
        c.expect(okj, R, R + "/lookup-path", jf.loc(n), "path = directory of the file + originalSource", "the reported path is not the original source joined to the directory of the file name")
        # ... and it is handed back whenever the map was consulted: a test of the entry's fields on the way
        # (`originalLine &&`) turns away line 0 / column 0 / the empty source - positions that exist
        for j in joins:
            a = args(j)
            if len(a) == 2 and jsast.ident_name(a[1]) == "originalSource":
                # `path.join(dir, undefined)` throws (ERR_INVALID_ARG_TYPE): when the join sits in a try whose
                # handler neither returns nor throws, and the only thing between that try and the join is an
                # else-less `if (<source> !== undefined)`, an undefined source ends at the same exit with the test
                # as it does without it - the test may be assumed to hold
                axioms = []
                fn_ = F.enclosing_fn(j)
                v_ = jsast.ident_name(a[1])
                for t_ in [x for x in jsast.walk(fn_) if x.get("type") == "TryStatement" and x.get("handler") is not None]:
                    if not any(y is j for y in jsast.walk(t_["block"])):
                        continue
                    if any(y.get("type") in ("ReturnStatement", "ThrowStatement") for y in jsast.walk(t_["handler"])):
                        continue
                    for i_ in [x for x in jsast.walk(t_["block"]) if x.get("type") == "IfStatement" and not x.get("alternate") and any(y is j for y in jsast.walk(x["consequent"]))]:
                        te = JF.unparen(i_["test"])
                        if te.get("type") == "BinaryExpression" and te.get("operator") in ("!==", "!=") and {jsast.ident_name(JF.unparen(te["left"])), jsast.ident_name(JF.unparen(te["right"]))} == {v_, "undefined"}:
                            axioms.append(BF.neg(BF.atom("undef:" + v_)))
                expect_gate(c, R, R + "/lookup-result", jf.loc(j), reach.of(j), BF.atom("t:" + recv), "the translated position is handed back", axioms=axioms)


def rule_original_cache(c, R, F):
    """getOriginalPathAndLineFromSourceMap: the negative / positive cache protocol"""
    jf = F.jf
    gets = [n for n in jsast.walk(jf.program) if n.get("type") == "CallExpression" and chain(n) == [jsast.cache_roles(jf)["original"], "get"]]
    c.floor(R, "originalSourceMapsCache.get sites", len(gets), 1)
    if not gets:
        return
    top = F.enclosing_fn(gets[0])
    holder = None
    for n in jsast.walk(top):
        if n.get("type") == "AssignmentExpression" and n["right"] is gets[0]:
            holder = jsast.ident_name(n["left"])
        if n.get("type") == "VariableDeclarator" and n.get("init") is gets[0]:
            holder = jsast.ident_name(n["id"])
    MISS = BF.atom("cache-miss")

    def atomize(e, t):
        if e.get("type") == "BinaryExpression":
            old = JF.REN[0]
            JF.REN[0] = {}
            try:
                g = generic_atom(e)
            finally:
                JF.REN[0] = old
            if g is not None and holder and t is top and g == BF.atom("undef:" + holder):
                return MISS
        if e.get("type") == "CallExpression" and chain(e) == [jsast.cache_roles(jf)["original"], "has"]:
            return BF.neg(MISS)
        return None

    reach = Reach(F, atomize)
    entries = reach.entry(gets[0])
    c.expect(len(entries) >= 1 and all(e is entries[0] for e in entries) and F.fn_name(entries[0]) in exported_names(jf), R, R + "/original/entry", jf.loc(gets[0]), "the original-map cache is used by the exported %s" % F.fn_name(entries[0]), "the original-map cache lookup is not reached from one exported function")
    entry = entries[0]
    ps = F.params(entry)
    if len(ps) < 3:
        c.bad(R, R + "/original/entry-params", jf.loc(entry), "%s does not take (filename, line, column)" % F.fn_name(entry))
        return
    keys = reach.arg_text(gets[0], args(gets[0])[0]) if args(gets[0]) else set()
    c.expect(keys == {ps[0]}, R, R + "/original/key", jf.loc(gets[0]), "the cache is keyed by the file name", "the original-map cache is looked up with %s" % sorted(keys))
    FL = BF.conj([BF.atom("t:" + ps[0]), BF.atom("t:" + ps[1])])
    EX = BF.atom("t:fs.existsSync(%s)" % ps[0])
    expect_gate(c, R, R + "/original/consult", jf.loc(gets[0]), reach.any_of(gets), FL, "the original-map cache is consulted")

    def in_handler(n):
        return any(a.get("type") == "CatchClause" for a in F.ancestors(n))

    gens = [n for n in jsast.walk(jf.program) if n.get("type") == "CallExpression" and chain(n) == ["generateSourceMapFromFileContent"] and any(x.get("type") == "CallExpression" and chain(x)[-1:] == ["readFileSync"] for x in jsast.walk({"a": n.get("arguments")}))]
    c.floor(R, "loads of the original map", len(gens), 1)
    if gens:
        expect_gate(c, R, R + "/original/load", jf.loc(gens[0]), reach.any_of(gens), BF.conj([FL, MISS, EX]), "the original map is loaded from disk")
        for g in gens:
            rd = [x for x in jsast.walk(g) if x.get("type") == "CallExpression" and chain(x)[-1:] == ["readFileSync"]]
            got = set()
            for x in rd:
                got |= reach.arg_text(x, args(x)[0])
            c.expect(got == {ps[0]}, R, R + "/original/load-arg", jf.loc(g), "reads the file that was asked for", "reads %s, not `%s`" % (sorted(got), ps[0]))
    sets = [n for n in jsast.walk(jf.program) if n.get("type") == "CallExpression" and chain(n) == [jsast.cache_roles(jf)["original"], "set"]]
    body_sets = [n for n in sets if not in_handler(n)]
    c.floor(R, "fills of the original-map cache", len(body_sets), 1)
    if body_sets:
        expect_gate(c, R, R + "/original/fill", jf.loc(body_sets[0]), reach.any_of(body_sets), BF.conj([FL, MISS]), "the original-map cache is filled")
    for n in sets:
        got = reach.arg_text(n, args(n)[0])
        c.expect(got == {ps[0]}, R, R + "/original/fill-key", jf.loc(n), "filled under the file name", "the cache is filled under %s" % sorted(got))
    for n in body_sets:
        v = args(n)[1] if len(args(n)) > 1 else {}
        okv = jsast.ident_name(v) == holder or (v.get("type") == "BinaryExpression" and v["operator"] in ("||", "??") and jsast.ident_name(v["left"]) == holder and JF.unparen(v["right"]).get("type") == "NullLiteral")
        c.expect(bool(okv), R, R + "/original/fill-value", jf.loc(n), "the loaded map (or null when there is none) is what is cached", "the original-map cache is filled with %s: a map that was found is not what later lookups get" % JF.text(v)[:60])
    tr = [n for n in jsast.walk(entry) if n.get("type") == "CallExpression" and chain(n) == ["getPathAndLine"] and not in_handler(n)]
    c.floor(R, "translations through the original map", len(tr), 1)
    for n in tr:
        a = [jsast.ident_name(x) for x in args(n)]
        okt_ = a[1:] == ps[:3]
        if not okt_ and len(args(n)) == 2:
            # the position handed on as one location object { path, line, column } (a literal or a constant holding it)
            o_ = JF.unparen(args(n)[1])
            if o_.get("type") == "Identifier" and F.resolve_const(entry)(o_["value"]) is not None:
                o_ = JF.unparen(F.resolve_const(entry)(o_["value"]))
            if o_.get("type") == "ObjectExpression":
                d_ = {}
                for p_ in o_.get("properties", []):
                    if p_.get("type") == "Identifier":
                        d_[p_["value"]] = p_["value"]
                    elif p_.get("type") == "KeyValueProperty":
                        d_[p_["key"]["value"]] = jsast.ident_name(p_["value"])
                okt_ = d_ == dict(zip(("path", "line", "column"), ps[:3]))
        c.expect(okt_ and a[0] is not None and a[0] not in ps, R, R + "/original/translate-args", jf.loc(n), "getPathAndLine(map, filename, line, column)", "getPathAndLine is called with %s" % a)


def rule_stack(c, R, F):
    jf = F.jf
    dps = [n for n in jsast.walk(jf.program) if n.get("type") == "CallExpression" and chain(n) == ["Object", "defineProperty"] and len(args(n)) == 3]
    dps = [n for n in dps if F.enclosing_fn(n) is not None]
    c.floor(R, "marks of the wrapped handler", len(dps), 1)
    if not dps:
        return
    dp = dps[0]
    outer = F.enclosing_fn(dp)
    sym = JF.text(args(dp)[1])
    wrapper_name = jsast.ident_name(args(dp)[0])
    mark_helper = None
    if wrapper_name in F.params(outer) and F.fn_name(outer) and F.fn_name(outer) not in exported_names(jf):
        # the mark is put on by a local helper `mark(fn)`: the wrapper is what the helper is applied to, in the
        # function that applies it
        sites = F.callers(F.fn_name(outer))
        i_ = F.params(outer).index(wrapper_name)
        if len(sites) == 1 and len(args(sites[0])) > i_ and jsast.ident_name(args(sites[0])[i_]):
            mark_helper = F.fn_name(outer)
            wrapper_name = jsast.ident_name(args(sites[0])[i_])
            outer = F.enclosing_fn(sites[0])
    p0 = F.params(outer)[0]
    desc = args(dp)[2]
    val = None
    for p in desc.get("properties", []) if desc.get("type") == "ObjectExpression" else []:
        if p.get("type") == "KeyValueProperty" and p["key"].get("value") == "value":
            val = JF.truthiness(p["value"])
    c.expect(val is True, R, R + "/mark-value", jf.loc(dp), "the wrapper is marked with a truthy value", "the wrapper is marked with a value that is not certainly truthy: an already wrapped handler is wrapped again and positions are translated twice")
    wrapper = F.decls.get(wrapper_name)
    if wrapper is None:
        raise AnchorMissing("wrapper function %s" % wrapper_name)
    MARK = BF.atom("t:%s[%s]" % (p0, sym))
    P0 = BF.atom("t:" + p0)
    reach_outer = Reach(F, lambda e, t: None, stop=[outer])
    rets = [n for n in jsast.walk(outer) if n.get("type") == "ReturnStatement" and F.enclosing_fn(n) is outer]
    same = [n for n in rets if jsast.ident_name(n.get("argument")) == p0]
    wrapd = [n for n in rets if jsast.ident_name(n.get("argument")) == wrapper_name or (mark_helper and n.get("argument") is not None and JF.unparen(n["argument"]).get("type") == "CallExpression" and chain(JF.unparen(n["argument"])) == [mark_helper] and [jsast.ident_name(a_) for a_ in args(JF.unparen(n["argument"]))][:1] == [wrapper_name])]
    c.expect(len(same) + len(wrapd) == len(rets) and wrapd, R, R + "/returns", jf.loc(outer), "returns the handler itself or the marked wrapper", "a return of %s hands out neither the handler nor the marked wrapper" % F.fn_name(outer))
    if same:
        expect_gate(c, R, R + "/already-wrapped", jf.loc(same[0]), reach_outer.any_of(same), BF.conj([P0, MARK]), "the handler is returned as it is")
    # calling the user's handler
    reach_w = Reach(F, lambda e, t: None, stop=[wrapper])
    calls = [n for n in jsast.walk(wrapper) if n.get("type") == "CallExpression" and chain(n) == [p0]]
    c.floor(R, "calls of the wrapped handler", len(calls), 1)
    if calls:
        expect_gate(c, R, R + "/user-handler", jf.loc(calls[0]), reach_w.any_of(calls), P0, "the user's handler is called")
    # --- the string path -------------------------------------------------------------------------
    # the index of the first frame line
    first_vars = set()
    at_re = lambda n: F.has_regex(n, "at")
    for n in jsast.walk(jf.program):
        if n.get("type") == "ForStatement":
            init = n.get("init") or {}
            upd = JF.unparen(n.get("update") or {})
            i = None
            if init.get("type") == "VariableDeclaration" and len(init["declarations"]) == 1 and (init["declarations"][0].get("init") or {}).get("value") == 0:
                i = jsast.ident_name(init["declarations"][0]["id"])
            asc = upd.get("type") == "UpdateExpression" and upd.get("operator") == "++" and jsast.ident_name(upd.get("argument")) == i
            for s in jsast.walk(n["body"]):
                if s.get("type") == "IfStatement" and at_re(s["test"]):
                    blk = JF.stmts_of(s["consequent"])
                    LINE = BF.atom("line-looks-like-a-frame")
                    tf = JF.formula(s["test"], lambda x: LINE if (x.get("type") == "CallExpression" and method_name(x) in ("match", "test", "exec") and at_re(x)) else None)
                    c.expect(equivalent(tf, LINE), R, R + "/first-frame-test", jf.loc(s), "the scan stops at a line that matches the frame pattern", "the scan for the first frame line tests [%s]" % BF.show(tf))
                    ass = [x["expression"] for x in blk if x.get("type") == "ExpressionStatement" and x["expression"].get("type") == "AssignmentExpression" and jsast.ident_name(x["expression"]["right"]) == i]
                    brk = any(x.get("type") == "BreakStatement" for x in blk)
                    for a in ass:
                        v = jsast.ident_name(a["left"])
                        c.expect(bool(i) and asc and brk, R, R + "/first-frame", jf.loc(s), "`%s` is the index of the first frame line (ascending scan, stops at the first match)" % v, "`%s` is not the index of the FIRST line that looks like a frame (ascending=%s, break=%s)" % (v, asc, brk))
                        first_vars.add(v)
        if n.get("type") == "CallExpression" and method_name(n) == "findIndex" and at_re(n):
            par = F.parent(n)
            if par.get("type") == "VariableDeclarator":
                first_vars.add(jsast.ident_name(par["id"]))
                c.ok(R, R + "/first-frame", jf.loc(n), "findIndex of the first frame line")
            elif par.get("type") == "ReturnStatement":
                h = F.fn_name(F.enclosing_fn(n))
                for cl in F.callers(h or ""):
                    pp = F.parent(cl)
                    if pp.get("type") == "VariableDeclarator":
                        first_vars.add(jsast.ident_name(pp["id"]))
                        c.ok(R, R + "/first-frame", jf.loc(n), "findIndex of the first frame line (helper %s)" % h)
    c.floor(R, "variables holding the index of the first frame line", len(first_vars), 1)
    subs = [n for n in jsast.walk(jf.program) if n.get("type") == "BinaryExpression" and n["operator"] == "-" and jsast.ident_name(n["right"]) in first_vars and jsast.ident_name(n["left"])]
    c.floor(R, "frame index computations (line index - first frame index)", len(subs), 1)
    BEFORE = BF.atom("line-before-first-frame")
    ITEM = BF.atom("call-site-present")
    EVAL = BF.atom("eval-frame")
    DATA = BF.atom("eval-origin-parsed")
    item_names = set()
    idx_names = set()
    for s in subs:
        par = F.parent(s)
        if par.get("type") == "AssignmentExpression":
            idx_names.add(jsast.ident_name(par["left"]))
        if par.get("type") == "VariableDeclarator":
            idx_names.add(jsast.ident_name(par["id"]))
    for n in jsast.walk(jf.program):
        if n.get("type") == "VariableDeclarator" and n.get("init") is not None:
            i = JF.unparen(n["init"])
            if i.get("type") == "MemberExpression" and i["property"].get("type") == "Computed":
                ix = JF.unparen(i["property"]["expression"])
                if any(ix is s for s in subs) or jsast.ident_name(ix) in idx_names:
                    item_names.add(jsast.ident_name(n["id"]))
    data_names = set()
    for n in jsast.walk(jf.program):
        if n.get("type") == "VariableDeclarator" and n.get("init") is not None:
            i = JF.unparen(n["init"])
            if i.get("type") == "CallExpression" and chain(i)[-1:] in (["exec"], ["match"]):
                operands = args(i) + [_callee(i).get("object", {})]
                # the eval origin of the frame: a variable holding it, or `<call site>.getEvalOrigin()` itself
                is_origin = any((jsast.ident_name(a) and "rigin" in jsast.ident_name(a)) or (JF.unparen(a).get("type") == "CallExpression" and method_name(JF.unparen(a)) == "getEvalOrigin") for a in operands if isinstance(a, dict))
                if is_origin:
                    data_names.add(jsast.ident_name(n["id"]))

    def helper_truth(call, depth=0):
        """formula of the truthiness of a local helper's result, from its return paths"""
        h = F.decls.get((chain(call) or [None])[0]) if len(chain(call)) == 1 else None
        if h is None or depth > 2:
            return None
        fn = F.fn(h)
        alts = []
        rc = F.resolve_const(h)
        for conds, ret in fn.decision_paths():
            r_ = JF.unparen(ret) if ret is not None else None
            if r_ is not None and r_.get("type") == "Identifier" and rc(r_["value"]) is not None:
                r_ = rc(r_["value"])
            tv = JF.truthiness(r_)
            if tv is None:
                return None
            if tv:
                fs = []
                for e, v in conds:
                    f = JF.formula(e, lambda x: atomize(x, h) or generic_atom(x), F.resolve_const(h))
                    fs.append(f if v else BF.neg(f))
                alts.append(BF.conj(fs))
        return BF.disj(alts)

    def atomize(e, top):
        t = e.get("type")
        if t == "BinaryExpression" and e["operator"] in ("<", ">", "<=", ">="):
            l, r = jsast.ident_name(e["left"]), jsast.ident_name(e["right"])
            op = e["operator"]
            if r in first_vars and l:
                return {"<": BEFORE, ">=": BF.neg(BEFORE)}.get(op)
            if l in first_vars and r:
                return {">": BEFORE, "<=": BF.neg(BEFORE)}.get(op)
        if t == "Identifier":
            if e["value"] in item_names:
                return ITEM
            if e["value"] in data_names:
                return DATA
            init = F.resolve_const(top)(e["value"])
            if init is not None and JF.unparen(init).get("type") == "CallExpression":
                f = helper_truth(JF.unparen(init))
                if f is not None:
                    return f
        if t == "MemberExpression" and e["property"].get("type") == "Computed":
            ix = JF.unparen(e["property"]["expression"])
            if any(ix is s for s in subs) or jsast.ident_name(ix) in idx_names:
                return ITEM
        if t == "CallExpression" and chain(e)[-1:] == ["isEval"]:
            return EVAL
        return None

    reach_s = Reach(F, atomize, stop=[wrapper])
    for s in subs:
        expect_gate(c, R, R + "/frame-index", jf.loc(s), reach_s.of(s), BF.conj([BF.neg(P0), BF.neg(BEFORE)]), "the call site of a stack line is looked up")
    cls = None
    for n in jsast.walk(jf.program):
        if n.get("type") == "ClassDeclaration":
            cls = n
    looks = [n for n in jsast.walk(jf.program) if n.get("type") == "CallExpression" and chain(n) == ["getSourcePathAndLineFromSourceMaps"] and not (cls and any(x is n for x in jsast.walk(cls)))]
    c.floor(R, "position lookups of the string path", len(looks), 1)
    if looks:
        goal = BF.conj([BF.neg(P0), BF.neg(BEFORE), ITEM, BF.disj([BF.neg(EVAL), DATA])])
        expect_gate(c, R, R + "/frame-translated", jf.loc(looks[0]), reach_s.any_of(looks), goal, "a stack line is translated")
    # eval frames: the groups of the eval origin feed file, line, column in this order
    for lk in looks:
        top = F.enclosing_fn(lk)
        # positions are named by their text: a plain local (`filename`) or a field of a location object
        # (`generated.path`)
        names = [jsast.ident_name(a) or JF.text(a) for a in args(lk)]
        groups = {}
        for n in jsast.walk(jf.program):
            src = None
            tgt = None
            if n.get("type") == "AssignmentExpression":
                src, tgt = JF.unparen(n["right"]), (jsast.ident_name(n["left"]) or JF.text(n["left"]))
            if n.get("type") == "KeyValueProperty" and n["key"].get("type") == "Identifier":
                src, tgt = JF.unparen(n["value"]), n["key"]["value"]
            if src is not None and src.get("type") == "MemberExpression" and src["property"].get("type") == "Computed" and jsast.ident_name(src["object"]) in data_names:
                groups[tgt] = JF.unparen(src["property"]["expression"]).get("value")
        if groups:
            order = sorted(groups.items(), key=lambda kv: kv[1])
            vals = [v for _, v in order]
            c.expect(vals == [1, 2, 3], R, R + "/eval-groups", jf.loc(lk), "eval origin groups 1,2,3 used", "eval origin groups used are %s" % vals)
            # group k feeds the k-th argument of the lookup (directly, or through an object with file/line/column keys)
            direct = [k for k, _ in order]
            low = [str(d_ or "").lower() for d_ in direct]
            pos_ok = direct == names or (len(low) == 3 and [("file" in low[0] or "path" in low[0]), ("line" in low[1]), ("col" in low[2])] == [True, True, True])
            c.expect(pos_ok, R, R + "/eval-group-order", jf.loc(lk), "file, line, column <- groups 1, 2, 3", "eval origin groups feed %s but the lookup takes %s" % (direct, names))
        # the replacement: only a necessary condition - whenever something changed the text is replaced
        def as_template(a):
            """(expressions as texts, quasis) of a template literal, or of a call of a local formatter
            `f({path, line, column}) => `${path}:${line}:${column}`` applied to a location object"""
            a = JF.unparen(a)
            if a.get("type") == "TemplateLiteral":
                return [jsast.ident_name(JF.unparen(x)) or JF.text(x) for x in a.get("expressions", [])], [q.get("raw") for q in a.get("quasis", [])]
            if a.get("type") == "CallExpression" and len(chain(a)) == 1 and chain(a)[0] in F.decls and len(args(a)) >= 2 and all(F.params(F.decls[chain(a)[0]])):
                # `formatLocation(file, line, column)`: plain parameters stand for the arguments
                h_ = F.decls[chain(a)[0]]
                rs_ = [x for x in jsast.walk(h_) if x.get("type") == "ReturnStatement" and F.enclosing_fn(x) is h_]
                tl = JF.unparen(rs_[0]["argument"]) if len(rs_) == 1 and rs_[0].get("argument") is not None else {}
                ps_ = F.params(h_)
                if tl.get("type") == "TemplateLiteral" and len(ps_) == len(args(a)):
                    ren = {p_: (jsast.ident_name(JF.unparen(x)) or JF.text(x)) for p_, x in zip(ps_, args(a))}
                    old_ = JF.REN[0]
                    JF.REN[0] = dict(old_, **ren)
                    try:
                        return [JF.text(x) for x in tl.get("expressions", [])], [q.get("raw") for q in tl.get("quasis", [])]
                    finally:
                        JF.REN[0] = old_
            if a.get("type") == "CallExpression" and len(chain(a)) == 1 and chain(a)[0] in F.decls and len(args(a)) == 1:
                h_ = F.decls[chain(a)[0]]
                prm = (h_.get("function", h_).get("params") or [None])[0]
                pat = (prm or {}).get("pat", prm) or {}
                rs_ = [x for x in jsast.walk(h_) if x.get("type") == "ReturnStatement" and F.enclosing_fn(x) is h_]
                tl = JF.unparen(rs_[0]["argument"]) if len(rs_) == 1 and rs_[0].get("argument") is not None else {}
                if tl.get("type") == "TemplateLiteral":
                    base = JF.text(args(a)[0])
                    ren = {}
                    if pat.get("type") == "ObjectPattern":
                        for pp in pat["properties"]:
                            if pp.get("type") == "AssignmentPatternProperty":
                                ren[pp["key"]["value"]] = "%s.%s" % (base, pp["key"]["value"])
                            elif pp.get("type") == "KeyValuePatternProperty" and jsast.ident_name(pp["value"]):
                                ren[jsast.ident_name(pp["value"])] = "%s.%s" % (base, pp["key"].get("value"))
                    elif jsast.param_name(prm):
                        ren[jsast.param_name(prm)] = base
                    old_ = JF.REN[0]
                    JF.REN[0] = dict(old_, **ren)
                    try:
                        return [JF.text(x) for x in tl.get("expressions", [])], [q.get("raw") for q in tl.get("quasis", [])]
                    finally:
                        JF.REN[0] = old_
            return None

        reps = [n for n in jsast.walk(top) if n.get("type") == "CallExpression" and chain(n)[-1:] == ["replace"] and len(args(n)) == 2 and all(as_template(a) is not None for a in args(n))]
        res = {}
        par = F.parent(lk)
        if par.get("type") == "VariableDeclarator" and par["id"].get("type") == "Identifier":
            # the looked-up position kept as one object: its fields are read where they are used
            res = {k_: "%s.%s" % (par["id"]["value"], k_) for k_ in ("path", "line", "column")}
        if par.get("type") == "VariableDeclarator" and par["id"].get("type") == "ObjectPattern":
            for p in par["id"]["properties"]:
                if p.get("type") == "AssignmentPatternProperty":
                    res[p["key"]["value"]] = p["key"]["value"]
                elif p.get("type") == "KeyValuePatternProperty":
                    res[p["key"].get("value")] = jsast.ident_name(p["value"])
        c.floor(R, "replacements of the position text", len(reps), 1)
        for rp in reps:
            frm, q1 = as_template(args(rp)[0])
            to, q2 = as_template(args(rp)[1])
            okt = frm == names and to == [res.get("path"), res.get("line"), res.get("column")] and q1 == ["", ":", ":", ""] and q2 == q1
            c.expect(okt, R, R + "/replace-text", jf.loc(rp), "`file:line:column` of the rewritten position -> `path:line:column` of the original", "the replaced text is %s -> %s (lookup %s -> %s)" % (frm, to, names, res))
            if okt:
                diff = BF.disj([BF.neg(BF.atom("eq:%s:%s" % tuple(sorted([a, b])))) for a, b in zip(frm, to)])
                local = Reach(F, lambda e, t: None, stop=[top]).of(rp)
                # strip everything but the equality atoms: the gate of interest is `something changed`
                okn = BF.entails([diff] + [f for f in _other_premises(F, top, rp, atomize)], local)
                c.expect(okn, R, R + "/replace-when-changed", jf.loc(rp), "whenever path, line or column changed the text is replaced", "the position text is replaced only under [%s]: a frame whose %s changed can be left untranslated" % (BF.show(local), " / ".join(to)))


def _other_premises(F, top, site, atomize):
    """premises of the site that do not talk about equality of positions (they are granted)"""
    fn = F.fn(top)
    out = []
    for f in JF.premises(fn, site, lambda e: atomize(e, top) or generic_atom(e), F.resolve_const(top)):
        if not any(a.startswith("eq:") for a in BF.atoms_of(f)):
            out.append(f)
    # premises named differently by the plain atomiser
    for f in JF.premises(fn, site, lambda e: generic_atom(e), F.resolve_const(top)):
        if not any(a.startswith("eq:") for a in BF.atoms_of(f)):
            out.append(f)
    return out


def rule_cache_sync(c, R, main, updaters, imported):
    """every rewrite through the caching class leaves the cache entry of the file describing that
    rewrite: the map of the returned content is cached exactly for modified results, and on every
    outcome the entry is either replaced or dropped"""
    F = File(main)
    cls = None
    m = None
    for n in jsast.walk(main.program):
        if n.get("type") == "ClassDeclaration":
            for mm in n.get("body", []):
                if mm.get("type") == "ClassMethod" and any(x.get("type") == "CallExpression" and chain(x) == ["super", "rewrite"] for x in jsast.walk(mm)):
                    cls, m = n, mm
    if m is None:
        raise AnchorMissing("the class whose rewrite() wraps super.rewrite()")
    ps = F.params(m)
    sup = [x for x in jsast.walk(m) if x.get("type") == "CallExpression" and chain(x) == ["super", "rewrite"]]
    c.expect(len(sup) == 1 and [jsast.ident_name(a) for a in args(sup[0])] == ps[:2], R, R + "/same-file", main.loc(m), "super.rewrite(code, file) and the cache update use the same `file`", "%s.rewrite does not pass (code, file) to super.rewrite" % jsast.ident_name(cls.get("identifier")))
    resp = None
    for d in jsast.walk(m):
        if d.get("type") == "VariableDeclarator" and d.get("init") is sup[0]:
            resp = jsast.ident_name(d["id"])
    MOD = BF.atom("status-is-modified")

    def atomize(e, top):
        sc_ = status_cmp(F, e)
        if sc_ is not None:
            return MOD if sc_[1] == "modified" else BF.atom("status-is-" + sc_[1])
        return None

    reach = Reach(F, atomize, stop=[m])

    def is_updater(n, kind):
        ch = chain(n)
        return len(ch) == 1 and updaters.get(ch[0]) == kind and (imported.get(ch[0]) or "").rstrip("/").endswith("js/source-map")

    sets = [n for n in jsast.walk(main.program) if n.get("type") == "CallExpression" and is_updater(n, "set")]
    dels = [n for n in jsast.walk(main.program) if n.get("type") == "CallExpression" and is_updater(n, "delete")]
    sets = [n for n in sets if any(e is m for e in reach.entry(n))]
    dels = [n for n in dels if any(e is m for e in reach.entry(n))]
    c.floor(R, "cache updates reachable from the caching rewrite", len(sets), 1)
    if not sets:
        return
    expect_gate(c, R, R + "/set-on-modified", main.loc(sets[0]), reach.any_of(sets), MOD, "the map of the rewritten content is cached")
    every = BF.disj([reach.any_of(sets), reach.any_of(dels)]) if dels else reach.any_of(sets)
    c.expect(BF.entails([], every), R, R + "/path/every-outcome", main.loc(m), "every outcome of a rewrite replaces or drops the cached map of the file", "a rewrite whose outcome satisfies ![%s] leaves the cached map of the file alone: a later lookup uses the map of an earlier rewrite" % BF.show(every))
    for n in sets + dels:
        got = reach.arg_text(n, args(n)[0]) if args(n) else set()
        c.expect(got == {ps[1]}, R, R + "/file-arg", main.loc(n), "updates the entry of the file that was rewritten", "updates the cache entry of %s, not of `%s`" % (sorted(got), ps[1]))
    for n in sets:
        a1 = args(n)[1] if len(args(n)) > 1 else {}
        top = F.enclosing_fn(n)
        src = None
        if a1.get("type") == "Identifier":
            for d in jsast.walk(top):
                if d.get("type") == "VariableDeclarator" and d.get("init") is not None and d["id"].get("type") == "ObjectPattern":
                    for pp in d["id"]["properties"]:
                        bound = pp["key"]["value"] if pp.get("type") == "AssignmentPatternProperty" else jsast.ident_name(pp.get("value"))
                        key = pp["key"].get("value")
                        if bound == a1["value"] and key == "content":
                            src = reach.arg_text(n, d["init"])
        elif a1.get("type") == "MemberExpression" and a1["property"].get("value") == "content":
            src = reach.arg_text(n, a1["object"])
        c.expect(src == {resp}, R, R + "/content-arg", main.loc(n), "the map is generated from the response's content", "the cached map is generated from `%s`, not from the rewritten content of the response" % JF.text(a1))
    # failures of the cache update never reach the caller
    for n in sets + dels:
        for ch in reach.chains(n):
            outer = ch[-1][1]
            guarded = any(a.get("type") == "TryStatement" and a.get("handler") is not None and any(x is outer for x in jsast.walk(a.get("block") or {})) for a in F.ancestors(outer))
            if not guarded:
                # ... or runs inside a callback handed to a local helper that calls it under try/catch
                # (`runLoggingErrors(this, () => { .. })`)
                pairs_ = []
                for fnx in [a for a in F.ancestors(outer) if a.get("type") in ("ArrowFunctionExpression", "FunctionExpression")]:
                    callp = F.parent(fnx)
                    for _ in range(3):
                        if callp is not None and callp.get("type") != "CallExpression":
                            callp = F.parent(callp)
                    pairs_.append((callp, fnx))
                if outer.get("type") in ("ArrowFunctionExpression", "FunctionExpression"):
                    callp = F.parent(outer)
                    for _ in range(3):
                        if callp is not None and callp.get("type") != "CallExpression":
                            callp = F.parent(callp)
                    pairs_.append((callp, outer))
                if outer.get("type") == "CallExpression":
                    # the site the chain ends at is the call of the helper itself: the update sits in one of its callback arguments
                    for a_ in args(outer):
                        a_ = JF.unparen(a_)
                        if a_.get("type") in ("ArrowFunctionExpression", "FunctionExpression") and any(x is n for x in jsast.walk(a_)):
                            pairs_.append((outer, a_))
                for callp, fnx in pairs_:
                    if callp is None or callp.get("type") != "CallExpression" or len(chain(callp)) != 1 or chain(callp)[0] not in F.decls:
                        continue
                    h_ = F.decls[chain(callp)[0]]
                    idx_ = [i_ for i_, a_ in enumerate(args(callp)) if JF.unparen(a_) is fnx]
                    ps_ = F.params(h_)
                    if not idx_ or idx_[0] >= len(ps_):
                        continue
                    pn_ = ps_[idx_[0]]
                    for tr in [x for x in jsast.walk(h_) if x.get("type") == "TryStatement" and x.get("handler") is not None]:
                        if any(y.get("type") == "CallExpression" and chain(y) == [pn_] for y in jsast.walk(tr.get("block") or {})):
                            # and nowhere outside a try
                            outside = [y for y in jsast.walk(h_) if y.get("type") == "CallExpression" and chain(y) == [pn_] and not any(y is z for t2 in jsast.walk(h_) if t2.get("type") == "TryStatement" and t2.get("handler") is not None for z in jsast.walk(t2.get("block") or {}))]
                            guarded = guarded or not outside
            c.expect(guarded, R, R + "/try", main.loc(outer), "cache update wrapped in try/catch", "the cache update is not wrapped in try/catch")
    rets = [x for x in jsast.walk(m) if x.get("type") == "ReturnStatement" and F.enclosing_fn(x) is m]
    c.expect(bool(rets) and all(jsast.ident_name(x.get("argument")) == resp for x in rets), R, R + "/returns-response", main.loc(m), "returns the response of super.rewrite", "the caching rewrite does not return the response of super.rewrite")


def rule_exports(c, R, main):
    """main.js: the default export is the caching rewriter, NonCacheRewriter the one without cache"""
    F = File(main)
    exp = {}
    for x in jsast.walk(main.program):
        if x.get("type") == "AssignmentExpression" and jsast.member_chain(x["left"]) == ["module", "exports"]:
            for p in x["right"].get("properties", []):
                if p.get("type") == "KeyValueProperty":
                    exp[p["key"].get("value")] = p["value"]
                elif p.get("type") == "Identifier":
                    exp[p["value"]] = p
    classes = {jsast.ident_name(n.get("identifier")): n for n in jsast.walk(main.program) if n.get("type") == "ClassDeclaration"}
    UNK = object()

    def value(e, env):
        """constant value of an expression (UNK when it is none)"""
        if e is None:
            return None
        e = JF.unparen(e)
        t = e.get("type")
        if t == "Identifier" and e["value"] in env:
            return env[e["value"]]
        okc, v = F.const_value(e)
        if okc:
            return v
        if t == "UnaryExpression" and e["operator"] == "!":
            v = value(e["argument"], env)
            return UNK if v is UNK else (not v)
        if t == "CallExpression" and len(chain(e)) == 1 and chain(e)[0] in F.decls and not args(e) and len(env.get("__depth", ())) < 3:
            # a local helper without arguments: what it returns when nothing in it throws (the native module loads)
            g_ = F.decls[chain(e)[0]]
            if g_.get("type") in ("FunctionDeclaration", "FunctionExpression", "ArrowFunctionExpression"):
                outs_ = []
                for conds_, ret_ in F.fn(g_).decision_paths():
                    if any(isinstance(ce, tuple) and ce[0] == "threw" for ce, _ in conds_):
                        continue
                    v_ = value(ret_, {"__depth": tuple(env.get("__depth", ())) + (1,)}) if ret_ is not None else None
                    outs_.append(v_)
                if outs_ and all(o_ is not UNK for o_ in outs_) and len({repr(o_) for o_ in outs_}) == 1:
                    return outs_[0]
            return UNK
        if t == "BinaryExpression" and e["operator"] in ("===", "==", "!==", "!="):
            l, r = value(e["left"], env), value(e["right"], env)
            if l is UNK or r is UNK:
                return UNK
            return (l == r) if e["operator"] in ("===", "==") else (l != r)
        return UNK

    def writes_cache(cls):
        names = set()
        stack = [cls]
        seen = set()
        while stack:
            n = stack.pop()
            for x in jsast.walk(n):
                if x.get("type") == "CallExpression" and len(chain(x)) == 1:
                    nm = chain(x)[0]
                    names.add(nm)
                    if nm in F.decls and nm not in seen:
                        seen.add(nm)
                        stack.append(F.decls[nm])
        return bool(names & {"cacheRewrittenSourceMap", "removeRewrittenSourceMap"})

    def pick(e, env):
        if e is None:
            return None
        e = JF.unparen(e)
        if e.get("type") == "Identifier":
            return e["value"] if e["value"] in classes else None
        if e.get("type") == "ConditionalExpression":
            v = value(e["test"], env)
            if v is UNK:
                return None
            return pick(e["consequent"] if v else e["alternate"], env)
        return None

    def picks(e):
        """class name an export expression evaluates to when the native module loads"""
        e = JF.unparen(e)
        if e.get("type") == "Identifier":
            return e["value"] if e["value"] in classes else None
        if e.get("type") == "CallExpression" and len(chain(e)) == 1 and chain(e)[0] in F.decls:
            g = F.decls[chain(e)[0]]
            env = {}
            for i, p in enumerate(g.get("params", [])):
                pat = p.get("pat", p)
                a = args(e)[i] if i < len(args(e)) else None
                if (a is None or value(a, {}) is None) and pat.get("type") == "AssignmentPattern":
                    a = pat["right"]
                env[jsast.param_name(p)] = value(a, {}) if a is not None else None
            fn = F.fn(g)
            outs = set()
            for conds, ret in fn.decision_paths():
                if any(isinstance(ce, tuple) and ce[0] == "threw" for ce, _ in conds):
                    continue
                feasible = True
                for ce, tv in conds:
                    if not isinstance(ce, tuple):
                        v = value(ce, env)
                        if v is not UNK and bool(v) != tv:
                            feasible = False
                if feasible:
                    outs.add(pick(ret, env))
            return outs.pop() if len(outs) == 1 else None
        return None

    got = picks(exp.get("Rewriter")) if "Rewriter" in exp else None
    c.expect(got is not None and writes_cache(classes[got]), R, R + "/export/Rewriter", main.loc(exp.get("Rewriter") or main.program), "the package's Rewriter is %s, which records the map of every rewrite" % got, "the package's Rewriter evaluates to %s, which does not update the source-map cache: stack traces of rewritten files are not translated" % got)
    got2 = picks(exp.get("NonCacheRewriter")) if "NonCacheRewriter" in exp else None
    c.expect(got2 is not None and not writes_cache(classes[got2]) and got2 != got, R, R + "/export/NonCacheRewriter", main.loc(exp.get("NonCacheRewriter") or main.program), "NonCacheRewriter is %s" % got2, "the NonCacheRewriter export evaluates to %s" % got2)
    # the caching class extends the one handing back unmodified text
    if got and got2:
        sup = classes[got].get("superClass")
        c.expect(jsast.ident_name(sup) == got2, R, R + "/export/extends", main.loc(classes[got]), "%s extends %s" % (got, got2), "%s does not extend %s" % (got, got2))
    # the native class is the one loaded from the wasm module
    nat = [n for n in jsast.walk(main.program) if n.get("type") == "AssignmentExpression" and jsast.ident_name(n["left"]) == "NativeRewriter"]
    def _last_prop(e_):
        e_ = JF.unparen(e_)
        return (e_.get("property") or {}).get("value") if e_.get("type") == "MemberExpression" else None

    c.expect(len(nat) == 1 and ((jsast.member_chain(nat[0]["right"]) or [""])[-1] == "Rewriter" or _last_prop(nat[0]["right"]) == "Rewriter"), R, R + "/native-class", main.loc(nat[0]) if nat else "main.js", "NativeRewriter = <wasm module>.Rewriter", "NativeRewriter is assigned %s" % (JF.text(nat[0]["right"]) if nat else None))


def rule_map_table(c, R, nsm, sm):
    """MAP-TABLE: the vendored source-map reader - what the parser stores per segment is what the
    lookup reads, in the order of the source-map format; the lookup is a greatest-lower-bound search
    on (generated line, generated column)"""
    F = File(nsm)
    jf = nsm

    def is_vlq(n):
        if n.get("type") != "CallExpression":
            return False
        nm = method_name(n) or (chain(n) or [""])[-1]
        return "vlq" in (nm or "").lower()

    # --- writer: the segments pushed into _mappings -------------------------------------------------
    pushes = []
    for n in jsast.walk(jf.program):
        if n.get("type") != "CallExpression":
            continue
        a = args(n)
        tgt = None
        arr = None
        if chain(n)[-1:] == ["ArrayPrototypePush"] and len(a) == 2:
            tgt, arr = a[0], a[1]
        elif method_name(n) == "push" and len(a) == 1:
            tgt, arr = _callee(n)["object"], a[0]
        if tgt is not None and JF.text(tgt).endswith("_mappings") and arr.get("type") == "ArrayExpression":
            pushes.append((n, [JF.unparen(e["expression"]) if e else None for e in arr.get("elements", [])]))
    # [line, column, source, original line, original column] and, optionally, the name
    full = [(n, el) for n, el in pushes if len(el) in (5, 6)]
    c.floor(R, "segments stored by the map parser", len(full), 1)
    if not full:
        return
    top = F.enclosing_fn(full[0][0])
    # the VLQ fields of a segment in the order they are decoded: generated column, source index,
    # original line, original column, name index (source-map v3)
    decodes = []
    for n in jsast.walk(top):
        if n.get("type") in ("AssignmentExpression",) and is_vlq(JF.unparen(n["right"])):
            decodes.append((n.get("span", {}).get("start", 0), jsast.ident_name(n["left"]), n["operator"]))
        if n.get("type") == "VariableDeclarator" and n.get("init") is not None and is_vlq(JF.unparen(n["init"])):
            decodes.append((n.get("span", {}).get("start", 0), jsast.ident_name(n["id"]), "="))
    decodes.sort()
    names = [d[1] for d in decodes]
    c.expect(len(decodes) == 5, R, R + "/vlq-fields", jf.loc(top), "five VLQ fields per segment: %s" % names, "the parser decodes %d VLQ fields per segment (%s), the format has five: a segment that carries a name index has that field read as the generated column of a segment that does not exist, and the columns of the rest of the line shift" % (len(decodes), names))
    if len(decodes) == 5:
        for n, el in full:
            ids = [jsast.ident_name(e) for e in el]
            ok = ids[1] == names[0] and ids[3] == names[2] and ids[4] == names[3] and all(d[2] == "+=" for d in (decodes[0], decodes[2], decodes[3], decodes[4]))
            c.expect(ok, R, R + "/segment-layout", jf.loc(n), "segment = [line, column(field 1), source, original line(field 3), original column(field 4), name], fields accumulated with +=", "the stored segment is %s but the decoded fields are %s (relative values, in this order): original line and column end up in the wrong slots or are not accumulated" % (ids, names))
            # the source of a segment is an entry of the payload's `sources` list as it stands there: the
            # rewriter writes resolved paths (the original map's sourceRoot already applied by the library)
            # and no sourceRoot of its own, so a reader that prefixes or otherwise edits the entries reports
            # paths that do not exist
            def verbatim(e, depth=0, top=top):
                e = JF.unparen(e)
                if depth > 5 or e is None:
                    return False
                if e.get("type") == "MemberExpression" and e["property"].get("type") == "Computed":
                    obj = JF.unparen(e["object"])
                    if obj.get("type") == "MemberExpression" and (obj.get("property") or {}).get("value") == "sources":
                        return True
                    if obj.get("type") == "Identifier":
                        arr = obj["value"]
                        vals = []
                        for x in jsast.walk(top):
                            if x.get("type") != "CallExpression":
                                continue
                            ax = args(x)
                            if chain(x)[-1:] == ["ArrayPrototypePush"] and len(ax) == 2 and jsast.ident_name(ax[0]) == arr:
                                vals.append(ax[1])
                            elif chain(x) == [arr, "push"] and len(ax) == 1:
                                vals.append(ax[0])
                        ds = F.defs(top, arr)
                        if vals:
                            return all(verbatim(v, depth + 1, top) for v in vals)
                        # the list handed back by a local helper: what that helper puts into the list it returns
                        if len(ds) == 1 and JF.unparen(ds[0]).get("type") == "CallExpression" and len(chain(JF.unparen(ds[0]))) == 1 and chain(JF.unparen(ds[0]))[0] in F.decls:
                            h_ = F.decls[chain(JF.unparen(ds[0]))[0]]
                            rs_ = [x for x in jsast.walk(h_) if x.get("type") == "ReturnStatement" and F.enclosing_fn(x) is h_]
                            if len(rs_) == 1 and jsast.ident_name(rs_[0].get("argument")):
                                fake = {"type": "MemberExpression", "object": rs_[0]["argument"], "property": {"type": "Computed", "expression": {"type": "NumericLiteral", "value": 0}}}
                                return verbatim(fake, depth + 1, h_)
                        return bool(ds) and all(JF.unparen(d_).get("type") == "MemberExpression" and (JF.unparen(d_).get("property") or {}).get("value") == "sources" for d_ in ds)
                    return False
                if e.get("type") == "Identifier":
                    ds = F.defs(top, e["value"])
                    return bool(ds) and all(verbatim(d_, depth + 1, top) for d_ in ds)
                return False

            c.expect(len(el) > 2 and el[2] is not None and verbatim(el[2]), R, R + "/source-verbatim", jf.loc(n), "the source of a segment is an entry of the payload's `sources`, unedited", "the source stored with a segment is not an entry of the payload's `sources` list as it stands (%s): a prefix such as sourceRoot is applied a second time - the rewriter's maps carry resolved paths" % (JF.text(el[2]) if len(el) > 2 and el[2] is not None else "?"))
            # the generated line: incremented per `;`, the column reset with it
            line_v, col_v = ids[0], ids[1]
            resets = [x for x in jsast.walk(top) if x.get("type") == "AssignmentExpression" and x["operator"] == "=" and jsast.ident_name(x["left"]) == col_v and JF.unparen(x["right"]).get("value") == 0]
            incs = [x for x in jsast.walk(top) if (x.get("type") == "AssignmentExpression" and x["operator"] == "+=" and jsast.ident_name(x["left"]) == line_v and JF.unparen(x["right"]).get("value") == 1) or (x.get("type") == "UpdateExpression" and x.get("operator") == "++" and jsast.ident_name(x.get("argument")) == line_v)]
            same_block = any(F.parent(F.parent(r)) is F.parent(F.parent(i)) for r in resets for i in incs)
            c.expect(bool(resets) and bool(incs) and same_block, R, R + "/line-advance", jf.loc(n), "`;` advances the generated line and resets the generated column", "a new generated line does not (only) advance `%s` by one and reset `%s` to 0" % (line_v, col_v))
    # names bound to a slot of an array by destructuring: const { 0: a, 1: b } = e / const [a, b] = e
    slots = {}
    for d in jsast.walk(jf.program):
        if d.get("type") == "VariableDeclarator" and d.get("init") is not None and JF.unparen(d["init"]).get("type") in ("Identifier", "MemberExpression"):
            i0_ = JF.unparen(d["init"])
            # destructured from a name, or directly from `<..>._mappings[i]` (the base is then that text)
            base = i0_["value"] if i0_.get("type") == "Identifier" else JF.text(i0_)
            if d["id"].get("type") == "ObjectPattern":
                for pp in d["id"]["properties"]:
                    if pp.get("type") == "KeyValuePatternProperty" and pp["key"].get("type") == "NumericLiteral" and jsast.ident_name(pp["value"]):
                        slots[jsast.ident_name(pp["value"])] = (base, pp["key"]["value"])
            elif d["id"].get("type") == "ArrayPattern":
                for i_, el in enumerate(d["id"].get("elements", [])):
                    if el and jsast.ident_name(el):
                        slots[jsast.ident_name(el)] = (base, i_)

    def slot_ref(e):
        """(text of the array, slot) for e[k] or a name destructured from slot k"""
        e = JF.unparen(e)
        if e.get("type") == "MemberExpression" and e["property"].get("type") == "Computed":
            k = JF.unparen(e["property"]["expression"]).get("value")
            if k is not None:
                return JF.text(e["object"]), k
        if e.get("type") == "Identifier" and e["value"] in slots and e["value"] not in JF.REN[0]:
            b_, k = slots[e["value"]]
            return JF.REN[0].get(b_, b_), k
        return None

    # --- reader: findEntry ---------------------------------------------------------------------------
    fe = None
    for n in jsast.walk(jf.program):
        if n.get("type") == "ClassMethod" and (n.get("key") or {}).get("value") == "findEntry":
            fe = n
    if fe is None:
        raise AnchorMissing("findEntry in %s" % jf.name)
    ps = F.params(fe)
    rets = [x for x in jsast.walk(fe) if x.get("type") == "ReturnStatement" and (x.get("argument") or {}).get("type") == "ObjectExpression" and x["argument"].get("properties")]
    c.floor(R, "entries returned by findEntry", len(rets), 1)
    want = {"originalSource": 2, "originalLine": 3, "originalColumn": 4}
    for r in rets:
        got = {}
        for p in r["argument"]["properties"]:
            if p.get("type") == "KeyValueProperty":
                sr = slot_ref(p["value"])
                if sr:
                    got[p["key"].get("value")] = sr[1]
            elif p.get("type") == "Identifier" and p["value"] in slots:
                got[p["value"]] = slots[p["value"]][1]
        okr = all(got.get(k) == i for k, i in want.items())
        c.expect(okr, R, R + "/entry-fields", jf.loc(r), "originalSource/Line/Column = slots 2/3/4 of the stored segment", "findEntry reads %s from the stored segment (stored layout: source 2, original line 3, original column 4)" % {k: got.get(k) for k in want})
    # what the glue destructures are keys findEntry returns
    keys = {p["key"].get("value") for r in rets for p in r["argument"]["properties"] if p.get("type") == "KeyValueProperty"} | {p["value"] for r in rets for p in r["argument"]["properties"] if p.get("type") == "Identifier"}
    used = set()
    for d in jsast.walk(sm.program):
        if d.get("type") == "VariableDeclarator" and d["id"].get("type") == "ObjectPattern" and d.get("init") is not None and method_name(JF.unparen(d["init"])) == "findEntry":
            for pp in d["id"]["properties"]:
                used.add(pp["key"].get("value"))
    c.expect(bool(used) and used <= keys, R, R + "/entry-keys", jf.loc(fe), "the glue reads %s, all returned by findEntry" % sorted(used), "the glue reads %s from findEntry's result, which only has %s" % (sorted(used - keys), sorted(keys)))
    # the search: halving steps on a lexicographic (line, column) comparison; the left half is kept iff
    # the position is before the probe
    # ... in findEntry itself or in a local helper it hands the table and the position to (the helper's
    # parameters are then read as those arguments)
    loops = [(x, fe, {}) for x in jsast.walk(fe) if x.get("type") == "WhileStatement"]
    for cl_ in [x for x in jsast.walk(fe) if x.get("type") == "CallExpression" and len(chain(x)) == 1 and chain(x)[0] in F.decls]:
        h_ = F.decls[chain(cl_)[0]]
        if any(JF.text(a_).endswith("_mappings") for a_ in args(cl_)):
            ren_ = {p_: JF.text(args(cl_)[k_]) for k_, p_ in enumerate(F.params(h_)) if p_ is not None and k_ < len(args(cl_))}
            loops += [(x, h_, ren_) for x in jsast.walk(h_) if x.get("type") == "WhileStatement"]
    c.floor(R, "search loops in findEntry", len(loops), 1)
    LT0, EQ0, LT1 = BF.atom("line<probe.line"), BF.atom("line=probe.line"), BF.atom("col<probe.col")
    lex = BF.disj([LT0, BF.conj([EQ0, LT1])])

    def probe_atom(e, probe_names, depth=0):
        e = JF.unparen(e)
        # a local predicate `isBefore(line, column, entry)`: its single returned expression, with the
        # parameters read as the arguments
        if e.get("type") == "CallExpression" and len(chain(e)) == 1 and chain(e)[0] in F.decls and depth < 2:
            h = F.decls[chain(e)[0]]
            rs = [x for x in jsast.walk(h) if x.get("type") == "ReturnStatement" and F.enclosing_fn(x) is h]
            if len(rs) == 1 and rs[0].get("argument") is not None:
                old_ = JF.REN[0]
                ren = {}
                for k_, p_ in enumerate(F.params(h)):
                    if p_ is not None and k_ < len(args(e)):
                        ren[p_] = JF.text(args(e)[k_])
                JF.REN[0] = ren
                try:
                    return JF.formula(rs[0]["argument"], lambda x: probe_atom(x, probe_names, depth + 1))
                finally:
                    JF.REN[0] = old_
            return None
        if e.get("type") != "BinaryExpression" or e["operator"] not in ("<", "===", "==", ">"):
            return None
        l, r = JF.unparen(e["left"]), JF.unparen(e["right"])
        if e["operator"] == ">":
            l, r, op = r, l, "<"
        else:
            op = e["operator"]
        for a_, b_ in ((l, r), (r, l)):
            sr = slot_ref(b_)
            if a_.get("type") == "Identifier" and sr and sr[0] in probe_names:
                nm = JF.text(a_)
                if nm == ps[0] and sr[1] == 0:
                    return (LT0 if a_ is l else None) if op == "<" else EQ0
                if nm == ps[1] and sr[1] == 1 and op == "<":
                    return LT1 if a_ is l else None
        return None

    for lp, lfn_, lren_ in loops:
        ifs = [x for x in jsast.walk(lp["body"]) if x.get("type") == "IfStatement"]
        okl = False
        old_ren_ = JF.REN[0]
        JF.REN[0] = dict(old_ren_, **lren_)
        for st_ in ifs:
            pd_ = [d for d in jsast.walk(lp) if d.get("type") == "VariableDeclarator" and d.get("init") is not None and JF.unparen(d["init"]).get("type") == "MemberExpression" and JF.text(JF.unparen(d["init"])["object"]).endswith("_mappings")]
            probes = {jsast.ident_name(d["id"]) for d in pd_ if jsast.ident_name(d["id"])} | {JF.text(JF.unparen(d["init"])) for d in pd_}
            # the index the probe is read at (`middle`)
            probe_idx = {JF.text(JF.unparen(JF.unparen(d["init"])["property"].get("expression") or {})) for d in pd_ if JF.unparen(d["init"])["property"].get("type") == "Computed"}
            f_ = JF.formula(st_["test"], lambda e: probe_atom(e, probes), F.resolve_const(lfn_))
            swapped = False
            if not equivalent(f_, lex):
                if equivalent(f_, BF.neg(lex)) and st_.get("alternate") is not None:
                    swapped = True  # `if (!(before)) { .. } else { .. }`
                else:
                    continue
            b_cons, b_alt = (st_["consequent"], st_.get("alternate")) if not swapped else (st_.get("alternate"), st_["consequent"])
            cons_a = [x["expression"] for x in JF.stmts_of(b_cons) if x.get("type") == "ExpressionStatement" and x["expression"].get("type") == "AssignmentExpression"]
            alt_a = [x["expression"] for x in JF.stmts_of(b_alt) if x.get("type") == "ExpressionStatement" and x["expression"].get("type") == "AssignmentExpression"]
            cons = [JF.text(x["left"]) + x["operator"] + JF.text(x["right"]) for x in cons_a]
            alt = [JF.text(x["left"]) + x["operator"] + JF.text(x["right"]) for x in alt_a]
            # before the probe: the remaining count becomes the step (left half); otherwise the search moves to the
            # probe index and the count shrinks by the step - whatever the four variables are called
            okl = False
            if len(cons_a) == 1 and cons_a[0]["operator"] == "=" and len(alt_a) == 2:
                cnt, stp = JF.text(cons_a[0]["left"]), JF.text(cons_a[0]["right"])
                moves = [x for x in alt_a if x["operator"] == "=" and JF.text(x["right"]) in probe_idx]
                shrinks = [x for x in alt_a if x["operator"] == "-=" and JF.text(x["left"]) == cnt and JF.text(x["right"]) == stp]
                okl = len(moves) == 1 and len(shrinks) == 1 and cnt != stp
            c.expect(okl, R, R + "/search-step", jf.loc(st_), "position before the probe: keep the left half; otherwise move to the probe and keep the rest", "the halving step is %s / %s" % (cons, alt))
        JF.REN[0] = old_ren_
        c.expect(okl, R, R + "/search-order", jf.loc(lp), "the probe is compared lexicographically on (generated line, generated column)", "findEntry does not compare (line, column) lexicographically with the probed segment")


def run(check, c, R, main, sm, st, inline_value):
    Fs = File(sm)
    rule_map_discovery(c, R, Fs, inline_value)
    rule_lookup(c, R, Fs)
    rule_original_cache(c, R, Fs)
    rule_stack(c, R, File(st))
    rule_exports(c, R, main)
