"""Small propositional layer over path conditions: formulas over named atoms, entailment by truth table.

A rule states a documented gate as a formula G over atoms it can name (operator enabled, op is `+`,
template instrumentable, node is Expr::X ...).  The structural path conditions of a site are turned
into formulas over the same atoms; whatever the atomiser does not recognise becomes an opaque atom
named after its (line-free) text, so an unknown extra condition can never be "proved away".

  entails(P, g)   - every assignment satisfying all of P satisfies g   (conditions imply the gate)
  entails([g], p) - the gate implies each condition                    (no extra gate)
"""
import itertools
import re

from . import hir

TRUE = ("const", True)
FALSE = ("const", False)


def atom(name):
    return ("atom", name)


def neg(f):
    if f[0] == "const":
        return ("const", not f[1])
    if f[0] == "not":
        return f[1]
    return ("not", f)


def conj(fs):
    fs = [f for f in fs if f != TRUE]
    if any(f == FALSE for f in fs):
        return FALSE
    if not fs:
        return TRUE
    return fs[0] if len(fs) == 1 else ("and", tuple(fs))


def disj(fs):
    fs = [f for f in fs if f != FALSE]
    if any(f == TRUE for f in fs):
        return TRUE
    if not fs:
        return FALSE
    return fs[0] if len(fs) == 1 else ("or", tuple(fs))


def atoms_of(f, acc=None):
    acc = set() if acc is None else acc
    if f[0] == "atom":
        acc.add(f[1])
    elif f[0] == "not":
        atoms_of(f[1], acc)
    elif f[0] in ("and", "or"):
        for g in f[1]:
            atoms_of(g, acc)
    return acc


def evaluate(f, env):
    t = f[0]
    if t == "const":
        return f[1]
    if t == "atom":
        return env[f[1]]
    if t == "not":
        return not evaluate(f[1], env)
    if t == "and":
        return all(evaluate(g, env) for g in f[1])
    if t == "or":
        return any(evaluate(g, env) for g in f[1])
    raise ValueError(f)


def _consistent(env):
    """at most one `is:<Type>::<Variant>` atom per type can be true"""
    seen = {}
    for a, v in env.items():
        if v and a.startswith("is:"):
            ty = a[3:].rsplit("::", 1)[0]
            if ty in seen:
                return False
            seen[ty] = a
    return True


def entails(premises, goal, limit=14, exhaustive=None):
    """exhaustive: {"is:<Type>::": [variant names]} - exactly one of these atoms is true"""
    names = set()
    for p in premises:
        atoms_of(p, names)
    atoms_of(goal, names)
    exhaustive = exhaustive or {}
    for pre, vs in exhaustive.items():
        if any(n.startswith(pre) for n in names):
            names |= {pre + v for v in vs}
    names = sorted(names)
    if len(names) > limit:
        return False
    for vals in itertools.product((False, True), repeat=len(names)):
        env = dict(zip(names, vals))
        if not _consistent(env):
            continue
        if any(sum(1 for v in vs if env.get(pre + v)) != 1 for pre, vs in exhaustive.items() if any(n.startswith(pre) for n in names)):
            continue
        if all(evaluate(p, env) for p in premises) and not evaluate(goal, env):
            return False
    return True


def show(f):
    t = f[0]
    if t == "const":
        return "true" if f[1] else "false"
    if t == "atom":
        return f[1]
    if t == "not":
        return "!" + (show(f[1]) if f[1][0] in ("atom", "const") else "(" + show(f[1]) + ")")
    sep = " && " if t == "and" else " || "
    return sep.join(show(g) if g[0] in ("atom", "not", "const") else "(" + show(g) + ")" for g in f[1])


def _opaque(e):
    return atom("?" + re.sub(r"#\d+", "", hir.describe(e))[:70])


def from_expr(fn, e, atomize, prog=None, depth=0):
    """formula of a boolean expression of function fn; atomize(fn, e) -> formula | None"""
    from . import gate as _gate
    from .travrules import expand_predicate

    e = hir.peel(e)
    if e.get("k") == "Lit" and isinstance(hir.lit_value(e), bool):
        return ("const", hir.lit_value(e))
    if e.get("k") == "Unary" and e.get("op") == "Not":
        return neg(from_expr(fn, e["x"], atomize, prog, depth))
    if e.get("k") == "Binary" and e["op"] in ("And", "BitAnd") and (e.get("ty") in (None, "bool")):
        return conj([from_expr(fn, e["l"], atomize, prog, depth), from_expr(fn, e["r"], atomize, prog, depth)])
    if e.get("k") == "Binary" and e["op"] in ("Or", "BitOr") and (e.get("ty") in (None, "bool")):
        return disj([from_expr(fn, e["l"], atomize, prog, depth), from_expr(fn, e["r"], atomize, prog, depth)])
    a = atomize(fn, e)
    if a is not None:
        return a
    if e.get("k") == "Match" and (e.get("ty") in (None, "bool")) and not e.get("source", "").startswith(("ForLoop", "TryDesugar")) and depth < 4:
        # `matches!(x, A | B)` and hand-written boolean matches: the disjunction over the arms that yield true
        alts, earlier = [], []
        for arm in e.get("arms", []):
            pf = pat_formula(arm["pat"])
            gf = from_expr(fn, arm["guard"], atomize, prog, depth + 1) if "guard" in arm else TRUE
            here = conj([pf, gf])
            alts.append(conj([neg(x) for x in earlier] + [here, from_expr(fn, arm["body"], atomize, prog, depth + 1)]))
            earlier.append(here)
        return disj(alts)
    if e.get("k") == "If" and (e.get("ty") in (None, "bool")) and "else" in e and depth < 4:
        c_ = from_expr(fn, e["cond"], atomize, prog, depth + 1)
        return disj([conj([c_, from_expr(fn, e["then"], atomize, prog, depth + 1)]), conj([neg(c_), from_expr(fn, e["else"], atomize, prog, depth + 1)])])
    if e.get("k") in ("BlockExpr", "Block") and depth < 4:
        b_ = e.get("block", e)
        if not b_.get("stmts") and "tail" in b_:
            return from_expr(fn, b_["tail"], atomize, prog, depth + 1)
    if e.get("k") == "MethodCall" and e.get("method") in ("is_some", "is_none", "is_ok", "is_err") and not e.get("args") and prog is not None:
        f_ = someness(fn, e["recv"], atomize, prog, depth + 1)
        if not (f_[0] == "atom" and f_[1].startswith("?")):
            return f_ if e["method"] in ("is_some", "is_ok") else neg(f_)
    r = _gate._resolve_bool_local(fn, e)
    if r is not e and depth < 4:
        return from_expr(fn, r, atomize, prog, depth + 1)
    if prog is not None and hir.is_call(e) and depth < 4:
        x = expand_predicate(prog, e)
        if x is not e:
            h = prog.resolve_local(e)
            return from_expr(h, x, atomize, prog, depth + 1)
        # a crate predicate with several exits (guard clauses, let-else): the disjunction over its paths
        h = prog.resolve_local(e)
        if h is not None and h.body is not None and not h.rec.get("gen") and (h.rec.get("ret") or "") == "bool":
            alts, okp = [], True
            for conds, v in hir.decision_paths(h.body):
                if v is None or (isinstance(v, dict) and v.get("k") == "?"):
                    okp = False
                    break
                cs = []
                for ce, cv in conds:
                    if ce.get("k") == "PatCond":
                        cs.append(from_cond(h, {"t": "pat", "scrut": ce["scrut"], "pat": ce["pat"], "v": cv}, atomize, prog))
                    elif ce.get("k") == "ArmNot":
                        cs.append(from_cond(h, {"t": "arm_not", "scrut": ce["scrut"], "pat": ce["pat"], "guard": ce.get("guard")}, atomize, prog) if cv else TRUE)
                    else:
                        f_ = from_expr(h, ce, atomize, prog, depth + 1)
                        cs.append(f_ if cv else neg(f_))
                alts.append(conj(cs + [from_expr(h, v, atomize, prog, depth + 1)]))
            if okp and alts:
                return disj(alts)
    return _opaque(e)


def pat_formula(pat):
    """formula `the scrutinee is of this variant` for a (possibly or-) pattern; TRUE for wildcards"""
    v = hir.pat_variant(pat)
    if isinstance(v, tuple):
        return disj([atom("is:" + x) if isinstance(x, str) and x != "_" else TRUE for x in v])
    if isinstance(v, str) and v != "_":
        return atom("is:" + v)
    return TRUE


_SOME_KEEP = {"ok", "map", "cloned", "copied", "as_ref", "as_mut", "as_deref", "as_deref_mut", "ok_or", "ok_or_else", "map_err", "inspect", "take", "clone", "into", "unwrap_or_default"}


def someness(fn, e, atomize, prog=None, depth=0):
    """formula `this Option / Result expression is Some / Ok` - through `b.then_some(..)`, `b.then(..)`,
    Some(..) / None, single-assignment locals, value-preserving adapters, and crate functions (the
    disjunction over their return paths)"""
    from .prov import return_exprs

    if depth > 5 or e is None:
        return _opaque(e or {"k": "?"})
    e0 = hir.peel(e)
    k = e0.get("k")
    a_ = atomize(fn, e0)
    if a_ is not None:
        return a_
    if k == "MethodCall":
        m = e0["method"]
        if m in ("then_some", "then"):
            return from_expr(fn, e0["recv"], atomize, prog, depth + 1)
        if m == "filter" and e0.get("args") and "Option" in ((e0.get("callee") or {}).get("path") or ""):
            cl = hir.peel(e0["args"][0])
            body = from_expr(fn, cl["body"], atomize, prog, depth + 1) if cl.get("k") == "Closure" else _opaque(cl)
            return conj([someness(fn, e0["recv"], atomize, prog, depth + 1), body])
        if m in _SOME_KEEP:
            return someness(fn, e0["recv"], atomize, prog, depth + 1)
    if k == "Call":
        f0 = hir.peel(e0["f"])
        cp = (f0.get("res") or {}).get("ctor_path") if f0.get("k") == "Path" else None
        if cp and cp.split("::")[-1] in ("Some", "Ok"):
            return TRUE
        if cp and cp.split("::")[-1] in ("Err",):
            return FALSE
        nm = hir.callee_name(e0) or ""
        if nm == "branch" and hir.call_args(e0):
            return someness(fn, hir.call_args(e0)[0], atomize, prog, depth + 1)
    if k == "Path" and ((e0.get("res") or {}).get("ctor_path") or "").split("::")[-1] == "None":
        return FALSE
    l = hir.local_of(e0)
    if l is not None:
        b = fn.bindings().get(l[0])
        if b and b["origin"][0] == "let" and b["origin"][1] is not None and not b["origin"][2] and not fn.assignments_to(l[0]):
            return someness(fn, b["origin"][1], atomize, prog, depth + 1)
    if prog is not None and hir.is_call(e0):
        g = prog.resolve_local(e0)
        if g is not None and g.body is not None and not g.rec.get("gen") and any(t in (g.rec.get("ret") or "") for t in ("Option<", "Result<")):
            alts = []
            for conds, v in hir.decision_paths(g.body):
                if v is None:
                    continue
                cs = []
                for ce, cv in conds:
                    if ce.get("k") == "PatCond":
                        cs.append(from_cond(g, {"t": "pat", "scrut": ce["scrut"], "pat": ce["pat"], "v": cv}, atomize, prog))
                    elif ce.get("k") == "ArmNot":
                        cs.append(from_cond(g, {"t": "arm_not", "scrut": ce["scrut"], "pat": ce["pat"], "guard": ce.get("guard")}, atomize, prog) if cv else TRUE)
                    else:
                        f_ = from_expr(g, ce, atomize, prog, depth + 1)
                        cs.append(f_ if cv else neg(f_))
                alts.append(conj(cs + [someness(g, v, atomize, prog, depth + 1)]))
            if alts:
                return disj(alts)
    return _opaque(e0)


def from_cond(fn, c, atomize, prog=None):
    t = c.get("t")
    if t == "try":
        return someness(fn, c["e"], atomize, prog)
    if t == "pat" and prog is not None and c.get("scrut") is not None:
        v_ = str(hir.pat_variant(c["pat"])).split("::")[-1]
        sc_ = hir.peel(c["scrut"])
        if v_ in ("Some", "Ok", "None", "Err") and (hir.is_call(sc_) or hir.local_of(sc_) is not None or atomize(fn, sc_) is not None) and any(t_ in (sc_.get("ty") or "") for t_ in ("Option<", "Result<")):
            f_ = someness(fn, sc_, atomize, prog)
            if f_[0] != "atom" or not f_[1].startswith("?"):
                pos = f_ if v_ in ("Some", "Ok") else neg(f_)
                return pos if c["v"] else neg(pos)
    if t == "bool":
        f = from_expr(fn, c["e"], atomize, prog)
        return f if c["v"] else neg(f)
    if t == "pat":
        f = pat_formula(c["pat"])
        if f == TRUE and not c["v"]:
            return FALSE
        return f if c["v"] else neg(f)
    if t == "arm_not":
        g = from_expr(fn, c["guard"], atomize, prog) if c.get("guard") is not None else TRUE
        return neg(conj([pat_formula(c["pat"]), g]))
    return TRUE


def from_conds(fn, conds, atomize, prog=None):
    return [f for f in (from_cond(fn, c, atomize, prog) for c in conds) if f != TRUE]
