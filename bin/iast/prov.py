"""PROV: provenance (origins) of values over typed HIR; flow-insensitive within a body, with
summaries for crate-local callees and optional resolution of parameters over all call sites."""
from . import hir

TRANSPARENT = set(hir.TRANSPARENT_METHODS) | {
    "filter",
    "unwrap",
    "expect",
    "unwrap_or_default",
    "as_mut",
    "take",
    "first",
    "last",
    "get",
    "get_mut",
    "next",
    "skip",
    "rev",
    "flatten",  # over Option elements: what it yields are the payloads of the elements
    "collect",
    "trim",
    "ok",
    "ok_or_else",
    "ok_or",
    "unwrap_unchecked",
    "map_err",
    "to_lowercase",
    "to_uppercase",
}
WRAP_CTORS = ("Some", "Ok", "Err")


def value_exprs(n):
    """Expressions whose value is the value of n (tails of blocks / branches)."""
    n = hir.peel(n)
    k = n.get("k")
    if k == "BlockExpr":
        b = n["block"]
        return value_exprs(b["tail"]) if "tail" in b else []
    if k == "Block":
        return value_exprs(n["tail"]) if "tail" in n else []
    if k == "If":
        out = value_exprs(n["then"])
        if "else" in n:
            out += value_exprs(n["else"])
        return out
    if k == "Match":
        out = []
        for a in n["arms"]:
            out += value_exprs(a["body"])
        return out
    if k in ("Ret", "Break", "Continue"):
        return []
    return [n]


def return_exprs(fn_or_closure_body):
    out = value_exprs(fn_or_closure_body)
    for n in hir.walk_no_closure(fn_or_closure_body):
        if n.get("k") == "Ret" and "x" in n:
            out += value_exprs(n["x"])
    return out


class Prov:
    """Context-sensitive (call-string) origin analysis.  A context is an interned chain of call
    sites; parameters are resolved to the caller's arguments while inside a summarised callee, and
    constructor origins remember their context so that later field projections are evaluated there."""

    def __init__(self, prog, max_depth=6, opaque=()):
        self.prog = prog
        self.max_depth = max_depth
        self._memo = {}
        self._tmp = {}
        # names of crate-local functions whose result is kept as an opaque ('call', ..) origin
        self.opaque = set(opaque)
        self.ctxs = [None]
        self._ctx_index = {}

    def _ctx(self, caller_def, node_id, caller_ctx, callee_def):
        key = (caller_def, node_id, caller_ctx, callee_def)
        if key not in self._ctx_index:
            self._ctx_index[key] = len(self.ctxs)
            self.ctxs.append(key)
        return self._ctx_index[key]

    def _ctx_depth(self, ctx):
        d = 0
        while ctx:
            ctx = self.ctxs[ctx][2]
            d += 1
        return d

    def origins_at(self, fn, e, at):
        """origins of e as seen at node `at` of fn: assignments that cannot run on a path through `at` (the other
        arm of a match / if) are left out.  (The analysis is flow-insensitive otherwise.)"""
        from . import fanout as _fanout

        p2 = Prov(self.prog, self.max_depth, self.opaque)
        p2._at = (fn.def_path, at, _fanout.exclusive)
        return p2.origins(fn, e)

    def origins(self, fn, e, ctx=0, stack=()):
        """set of (root, projs).  root: ('param', def, idx) | ('const', path) | ('lit', v)
        | ('ctor', path, fn_def, node_id, ctx) | ('call', path, fn_def, node_id) | ('closure', ..) | ('op', ..) | ('unit',)"""
        key = (fn.def_path, e["id"], ctx)
        if key in self._memo:
            return self._memo[key]
        if key in self._tmp:
            return self._tmp[key]
        if key in stack or len(stack) > 60:
            return {(("cycle", key), ())}
        res = self._origins(fn, e, ctx, stack + (key,))
        # least fixpoint: re-entering the key that is being evaluated contributes only what this key
        # yields anyway (with further projections); its own markers are resolved here
        if any(r[0] == "cycle" and r[1] == key for r, _ in res):
            res = {(r, p) for r, p in res if not (r[0] == "cycle" and r[1] == key)}
            # provisional results computed while this key was in progress may lack its origins
            for k2 in [k2 for k2, v in self._tmp.items() if any(r[0] == "cycle" and r[1] == key for r, _ in v)]:
                del self._tmp[k2]
        if not stack:
            if any(r[0] == "cycle" for r, _ in res) and any(r[0] != "cycle" for r, _ in res):
                res = {(r, p) for r, p in res if r[0] != "cycle"}
            self._tmp.clear()
        if not any(r[0] == "cycle" for r, _ in res):
            self._memo[key] = res
        elif stack:
            self._tmp[key] = res  # depends on a key still in progress: reusable until that key completes
        return res

    def _proj(self, s, proj, stack=()):
        """Append projections; a projection of a struct-literal origin resolves to the origins of
        that field's initialiser (field-sensitive constructors, evaluated in their context)."""
        proj = tuple(proj)
        if not proj:
            return set(s)
        out = set()
        for r, p in s:
            if p == () and r[0] == "call" and r[1].split("::")[-1] == "enumerate" and len(r) >= 5 and (proj[:2] == ("[]", "1") or proj[:1] == ("1",)):
                # the second component of what `x.iter().enumerate()` yields is an element of x
                g = self.prog.by_def.get(r[2])
                try:
                    node = g.by_id(r[3]) if g is not None else None
                except KeyError:
                    node = None
                if node is not None and hir.call_args(node):
                    rest = proj[2:] if proj[:1] == ("[]",) else proj[1:]
                    out |= self._proj(self.origins(g, hir.call_args(node)[0], r[4], stack), ("[]",) + tuple(rest), stack)
                    continue
            if p == () and proj[0] == "[]":
                # a collection stands for its elements (see _pushed_elems)
                out |= self._proj({(r, p)}, proj[1:], stack)
                continue
            if p == () and r[0] == "call" and _is_empty_container_ctor(r[1]):
                continue  # an empty container has no elements to project from
            if r[0] == "residual":
                continue  # the early-exit value of `?` (None / Err) has nothing to project from
            if p == () and proj[0] in WRAP_PROJ:
                if r[0] == "ctor" and r[1].split("::")[-1] == "None":
                    continue  # infeasible: Some-pattern on a None
                out |= self._proj({(r, p)}, proj[1:], stack)
                continue
            if p == () and r[0] in ("ctor", "tuple") and len(r) >= 5:
                g = self.prog.by_def.get(r[2])
                node = None
                if g is not None:
                    try:
                        node = g.by_id(r[3])
                    except KeyError:
                        node = None
                if node is not None and node.get("k") == "Struct":
                    fld = [f for f in node["fields"] if f["name"] == proj[0]]
                    if not fld and "." in str(proj[0]):
                        # a struct pattern `S { field, .. }` projects with "S.field"
                        sname, fname = str(proj[0]).rsplit(".", 1)
                        if (node["res"].get("path") or node.get("qname") or "").split("::")[-1] == sname.split("::")[-1]:
                            fld = [f for f in node["fields"] if f["name"] == fname]
                    if fld:
                        out |= self._proj(self.origins(g, fld[0]["e"], r[4], stack), proj[1:], stack)
                        continue
                if node is not None and node.get("k") == "Tup" and proj[0].isdigit() and int(proj[0]) < len(node["elems"]):
                    out |= self._proj(self.origins(g, node["elems"][int(proj[0])], r[4], stack), proj[1:], stack)
                    continue
                if node is not None and node.get("k") == "Call" and proj[0].split(".")[-1].isdigit():
                    i = int(proj[0].split(".")[-1])
                    if i < len(node["args"]):
                        out |= self._proj(self.origins(g, node["args"][i], r[4], stack), proj[1:], stack)
                        continue
            out.add((r, p + proj))
        return out

    def _origins(self, fn, e, ctx, stack):
        n = hir.peel(e)
        k = n.get("k")
        O = lambda x: self.origins(fn, x, ctx, stack)
        if k == "Lit":
            return {(("lit", _hashable(n["lit"]["v"])), ())}
        if k == "Path":
            r = n["res"]
            if r.get("res") == "Local":
                return self._local(fn, r["local"], ctx, stack)
            if r.get("res") == "Def":
                kind = r.get("kind", "")
                if kind.startswith("Const") or kind.startswith("AssocConst") or kind.startswith("Static"):
                    return {(("const", r["path"]), ())}
                if kind.startswith("Ctor"):
                    return {(("ctor", r.get("ctor_path") or r["path"], fn.def_path, n["id"], ctx), ())}
                if kind in ("Fn", "AssocFn"):
                    return {(("fn", r["path"]), ())}
                return {(("def", r["path"]), ())}
            return {(("unknown", str(r.get("res"))), ())}
        if k == "Field":
            return self._proj(O(n["x"]), (n["field"],), stack)
        if k == "Index":
            return self._proj(O(n["x"]), ("[]",), stack)
        if k == "Struct":
            return {(("ctor", n["res"].get("path") or n.get("qname"), fn.def_path, n["id"], ctx), ())}
        if k in ("Tup", "Array"):
            return {(("tuple", "tuple", fn.def_path, n["id"], ctx), ())}
        if k == "Match" and n.get("source", "").startswith("TryDesugar"):
            # `x?` evaluates to the success payload of x
            sc = hir.peel(n["scrut"])
            if hir.is_call(sc) and hir.call_args(sc):
                return O(hir.call_args(sc)[0])
        if k in ("BlockExpr", "If", "Match"):
            out = set()
            for v in value_exprs(n):
                out |= O(v)
            return out or {(("unit",), ())}
        if k == "Closure":
            return {(("closure", fn.def_path, n["id"], ctx), ())}
        if k in ("MethodCall", "Call"):
            return self._call(fn, n, ctx, stack)
        if k in ("Binary", "Unary", "AssignOp"):
            return {(("op", n.get("op"), fn.def_path, n["id"]), ())}
        if k == "Assign":
            return {(("unit",), ())}
        return {(("unknown", k), ())}

    def _local(self, fn, lid, ctx, stack):
        b = fn.bindings().get(lid)
        if b is None:
            return {(("unknown", "local"), ())}
        o = b["origin"]
        out = set()
        if o[0] == "param":
            c = self.ctxs[ctx] if ctx else None
            if c is not None and c[3] == fn.def_path:
                caller = self.prog.by_def[c[0]]
                call = caller.by_id(c[1])
                args = hir.call_args(call)
                if o[1] < len(args):
                    out |= self._proj(self.origins(caller, args[o[1]], c[2], stack), _projnames(o[2]), stack)
                else:
                    out.add((("param", fn.def_path, o[1]), tuple(_projnames(o[2]))))
            else:
                out.add((("param", fn.def_path, o[1]), tuple(_projnames(o[2]))))
        elif o[0] == "let":
            if o[1] is not None:
                out |= self._proj(self.origins(fn, o[1], ctx, stack), _projnames(o[2]), stack)
        elif o[0] == "match":
            out |= self._proj(self.origins(fn, o[1], ctx, stack), _projnames(o[2]), stack)
        elif o[0] == "closure_param":
            out |= self._closure_param(fn, o[1], o[2], o[3], ctx, stack)
        for a in fn.assignments_to(lid):
            at_ = getattr(self, "_at", None)
            if at_ is not None and at_[0] == fn.def_path and at_[2](fn, a, at_[1]):
                continue  # in a branch that excludes the point of interest
            if a["k"] == "Assign":
                out |= self.origins(fn, a["r"], ctx, stack)
            else:
                out |= {(("op", a.get("op"), fn.def_path, a["id"]), ())}
        if "Vec<" in (b.get("ty") or ""):
            out |= self._pushed_elems(fn, lid, ctx, stack, 0)
        return out or {(("uninit",), ())}

    def _pushed_elems(self, fn, lid, ctx, stack, depth):
        """origins of the elements pushed into the vector local `lid`, in this function or in
        crate-local callees that receive it by `&mut` (out-parameter)."""
        out = set()
        if depth > 4:
            return out
        for n in fn.nodes():
            if not hir.is_call(n):
                continue
            args = hir.call_args(n)
            name = hir.callee_name(n) or n.get("method")
            hits = [i for i, a in enumerate(args) if (hir.local_of(a) or (None,))[0] == lid]
            if not hits:
                continue
            if hits[0] == 0 and name in ("push", "insert", "push_back", "push_front", "extend", "append") and len(args) > 1:
                out |= self.origins(fn, args[-1], ctx, stack)
                continue
            g = self.prog.resolve_local(n)
            if g is not None and g.body is not None and not g.rec.get("gen") and self._ctx_depth(ctx) < self.max_depth:
                nctx = self._ctx(fn.def_path, n["id"], ctx, g.def_path)
                for i in hits:
                    if i < len(g.rec["params"]):
                        for bnd in hir.pat_bindings(g.rec["params"][i]["pat"]):
                            key = ("pushed", g.def_path, bnd["local"], nctx)
                            if key in stack:
                                continue
                            out |= self._pushed_elems(g, bnd["local"], nctx, stack + (key,), depth + 1)
        return out

    def _closure_param(self, fn, closure, idx, proj, ctx, stack):
        call = fn.parent(closure)
        while call is not None and not hir.is_call(call):
            call = fn.parent(call)
        if call is None:
            return {(("closure_param", fn.def_path, closure["id"], idx), ())}
        name = hir.callee_name(call) or call.get("method")
        args = hir.call_args(call)
        if name in HOF_RECV_PARAM and args:
            recv = args[0]
            if hir.peel(recv) is not closure:
                return self._proj(self.origins(fn, recv, ctx, stack), _projnames(proj), stack)
        # a closure handed to a crate function that calls it (`fn with_x(.., op: impl FnOnce(A, B)) { .. op(a, b) }`):
        # its parameters are the arguments of those calls
        g = self.prog.resolve_local(call)
        if g is not None and g.body is not None and not g.rec.get("gen") and self._ctx_depth(ctx) < self.max_depth:
            pos = [i for i, a in enumerate(args) if hir.peel(a) is closure]
            if pos and pos[0] < len(g.rec.get("params", [])):
                lids = {b["local"] for b in hir.pat_bindings(g.rec["params"][pos[0]]["pat"])}
                nctx = self._ctx(fn.def_path, call["id"], ctx, g.def_path)
                out = set()
                for n in g.nodes():
                    if n.get("k") == "Call" and hir.local_of(n["f"]) and hir.local_of(n["f"])[0] in lids and idx < len(n["args"]):
                        out |= self._proj(self.origins(g, n["args"][idx], nctx, stack), _projnames(proj), stack)
                if out:
                    return out
        return {(("closure_param", fn.def_path, closure["id"], idx), ())}

    def _call(self, fn, n, ctx, stack):
        args = hir.call_args(n)
        c = n.get("callee")
        name = (c["name"] if c else None) or n.get("method")
        O = lambda x: self.origins(fn, x, ctx, stack)
        if n["k"] == "Call":
            f = hir.peel(n["f"])
            cp = f.get("res", {}).get("ctor_path") if f.get("k") == "Path" else None
            if cp:
                if cp.split("::")[-1] in WRAP_CTORS and len(args) == 1:
                    return O(args[0])
                return {(("ctor", cp, fn.def_path, n["id"], ctx), ())}
        g = self.prog.resolve_local(n)
        if g is not None and g.body is not None and not g.rec.get("gen") and g.name not in self.opaque and self._ctx_depth(ctx) < self.max_depth:
            nctx = self._ctx(fn.def_path, n["id"], ctx, g.def_path)
            out = set()
            for r in return_exprs(g.body):
                out |= self.origins(g, r, nctx, stack)
            return out or {(("unit",), ())}
        if (name in TRANSPARENT or (name or "").startswith("as_")) and args:
            return O(args[0])
        if name in ("unwrap_or",) and len(args) == 2:
            return O(args[0]) | O(args[1])
        if name in ("new",) and c and c["path"].endswith("Box::<T>::new") and args:
            return O(args[0])
        if name in ("from", "into") and c and (c.get("trait", "").startswith("std::convert::")) and args:
            return O(args[-1])
        if name in ("map_or_else", "map_or") and len(args) == 3:
            return self._closure_result(fn, args[1], ctx, stack) | self._closure_result(fn, args[2], ctx, stack)
        if name in ("map", "and_then", "then", "unwrap_or_else", "or_else", "then_some") and len(args) == 2:
            out = self._closure_result(fn, args[1], ctx, stack)
            if name in ("unwrap_or_else", "or_else"):
                out |= O(args[0])
            return out
        path = (c.get("resolved") or c["path"]) if c else "?"
        if name == "from_residual":
            return {(("residual",), ())}
        return {(("call", path, fn.def_path, n["id"], ctx), ())}

    def _closure_result(self, fn, e, ctx, stack):
        cl = hir.peel(e)
        if cl.get("k") == "Closure":
            out = set()
            for v in return_exprs(cl["body"]):
                out |= self.origins(fn, v, ctx, stack)
            return out or {(("unit",), ())}
        o = self.origins(fn, e, ctx, stack)
        res = set()
        for r, p in o:
            if r[0] == "ctor":
                # a constructor used as a function value (e.g. `.map_or(op, Expr::Ident)`)
                res.add((("ctor-applied", r[1]), p))
            elif r[0] == "closure" and len(r) >= 4 and p == () and ("clres", r[1], r[2], r[3]) not in stack:
                # a closure handed in as a function value (`fn map(self, wrap: impl FnOnce(T) -> U)` called with
                # `|x| Wrapper { inner: x }`): what it yields, read where it was written
                g_ = self.prog.by_def.get(r[1])
                try:
                    node_ = g_.by_id(r[2]) if g_ is not None else None
                except KeyError:
                    node_ = None
                if node_ is not None and node_.get("k") == "Closure":
                    got = set()
                    for v in return_exprs(node_["body"]):
                        got |= self.origins(g_, v, r[3], tuple(stack) + (("clres", r[1], r[2], r[3]),))
                    res |= got or {(("unit",), ())}
                else:
                    res.add(((("applied",) + tuple(r)), p))
            else:
                res.add(((("applied",) + tuple(r)), p))
        return res

    # ---- interprocedural parameter resolution -----------------------------------------------
    def origins_upto(self, top, g, e, depth=0):
        """origins of expression e of function g, with g's parameters replaced by what the functions between
        `top` and g (top together with the crate helpers it calls) pass for them - i.e. seen from top"""
        os_ = self.origins(g, e)
        if g is top or depth > 3:
            return os_
        out = set()
        fl = self.prog.flat(top, 3)
        for r, p in os_:
            if r[0] == "param" and r[1] == g.def_path:
                hit = False
                for h in fl:
                    for c in hir.calls_in(h.body):
                        if self.prog.resolve_local(c) is g and len(hir.call_args(c)) > r[2]:
                            hit = True
                            for r2, p2 in self.origins_upto(top, h, hir.call_args(c)[r[2]], depth + 1):
                                out.add((r2, tuple(p2) + tuple(p)))
                if not hit:
                    out.add((r, p))
            else:
                out.add((r, p))
        return out

    def resolve_params(self, origins, stack=(), depth=0):
        """Replace ('param', fn, i) roots by the origins of the argument at every call site of fn
        (only when fn has resolved callers inside the crate).  Cycles are cut; shared sub-results are
        recomputed rather than dropped."""
        out = set()
        for root, proj in origins:
            if root[0] != "param" or depth > 8:
                out.add((root, proj))
                continue
            key = (root[1], root[2])
            if key in stack:
                continue
            g = self.prog.by_def.get(root[1])
            sites = self.prog.sites_calling(g) if g is not None else []
            sites = [(f, n) for f, n in sites if hir.is_call(n)]
            if not sites:
                out.add((root, proj))
                continue
            if not hasattr(self, "_rp_memo"):
                self._rp_memo = {}
            mkey = key if not stack else (key, frozenset(stack))
            base = self._rp_memo.get(mkey)
            if base is None:
                base = set()
                for f, n in sites:
                    args = hir.call_args(n)
                    if root[2] < len(args):
                        base |= self.resolve_params(self.origins(f, args[root[2]]), stack + (key,), depth + 1)
                    else:
                        base.add((root, ()))
                self._rp_memo[mkey] = base
            out |= self._proj(base, proj)
        return out


WRAP_PROJ = ("Some.0", "Ok.0", "Err.0")
HOF_RECV_PARAM = {
    "map_with_mut", "map", "and_then", "map_or_else", "map_or", "for_each", "any", "all", "find", "filter", "inspect",
    "is_some_and", "map_err", "retain", "take_while", "skip_while", "position", "filter_map", "flat_map",
}


def _is_empty_container_ctor(path):
    import re

    q = re.sub(r"::<[^>]*>", "", path)
    return q.split("::")[-1] in ("new", "with_capacity", "default") and q.split("::")[-2:-1] in (["Vec"], ["HashMap"], ["HashSet"], ["String"], ["VecDeque"])


def _projnames(proj):
    out = []
    for p in proj:
        if p[0] == "variant":
            out.append("%s.%s" % (p[1].split("::")[-1], p[2]))
        elif p[0] == "tuple":
            out.append(p[1])
        else:
            out.append(p[0])
    return out


def _hashable(v):
    if isinstance(v, list):
        return tuple(v)
    return v


def origin_str(o):
    root, proj = o
    kind = root[0]
    if kind == "param":
        s = "param#%d of %s" % (root[2], root[1].split("::")[-1])
    elif kind in ("const", "fn", "def"):
        s = "%s %s" % (kind, hir.short_path(root[1]))
    elif kind == "lit":
        s = "literal %r" % (root[1],)
    elif kind in ("ctor", "call"):
        s = "%s %s" % (kind, hir.short_path(root[1]))
    else:
        s = ":".join(str(x) for x in root[:2])
    if proj:
        s += "." + ".".join(str(x) for x in proj)
    return s
