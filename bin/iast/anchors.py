"""Rename tolerance: rules name functions of the reviewed tree.  If a function of the reviewed tree is
missing by name but exactly one *new* function has its signature (parameter types, return type,
impl/trait context), the program is normalised so that the function appears under its reviewed name.
Anything ambiguous is left alone and the rules fail closed on the missing anchor."""
import json
import os
import re

from .facts import VERIF

TABLE = os.path.join(VERIF, "rules", "anchors.json")


def _strip_generics(p):
    return re.sub(r"::<[^>]*>", "", p)


def signature(rec):
    return json.dumps(
        {
            "params": [p["ty"] for p in rec.get("params", [])],
            "ret": rec.get("ret"),
            "self": re.sub(r"<.*>$", "", rec.get("self_ty") or ""),
            "trait": rec.get("impl_of_trait") or rec.get("in_trait") or "",
        },
        sort_keys=True,
    )


def loose_signature(rec):
    """signature without the receiver: what survives a move of the function to another type / trait /
    module (the receiver parameter and the impl context are dropped)"""
    ps = [p["ty"] for p in rec.get("params", [])]
    if ps and (rec.get("self_ty") or rec.get("in_trait")) and re.sub(r"^&(mut )?", "", ps[0]).split("<")[0] in ((rec.get("self_ty") or "").split("<")[0], "Self"):
        ps = ["self"] + ps[1:]
    return json.dumps({"params": ps, "ret": rec.get("ret")}, sort_keys=True)


def fingerprint(rec):
    """what the body mentions: callee names, field names, constructors and constants"""
    out = set()

    def walk(o):
        if isinstance(o, dict):
            c = o.get("callee")
            if isinstance(c, dict) and c.get("name"):
                out.add("c:" + c["name"])
            if o.get("k") == "MethodCall" and o.get("method"):
                out.add("c:" + o["method"])
            if o.get("k") == "Field" and o.get("field"):
                out.add("f:" + str(o["field"]))
            if o.get("k") == "Path" and isinstance(o.get("res"), dict):
                cp = o["res"].get("ctor_path") or (o["res"].get("path") if o["res"].get("res") == "Def" and o["res"].get("kind") in ("Const", "Static", "Ctor") else None)
                if cp:
                    out.add("p:" + cp.split("::")[-2] + "::" + cp.split("::")[-1] if "::" in cp else "p:" + cp)
            if o.get("k") == "Struct" and isinstance(o.get("res"), dict) and o["res"].get("path"):
                out.add("s:" + o["res"]["path"].split("::")[-1])
            for v in o.values():
                if isinstance(v, (dict, list)):
                    walk(v)
        elif isinstance(o, list):
            for v in o:
                walk(v)

    walk(rec.get("body"))
    return sorted(out)


def generate(facts):
    table = {}
    for rec in facts["fns"]:
        if rec.get("gen") or rec.get("closure") or "body" not in rec:
            continue
        table[rec["def"]] = {"name": rec["name"], "sig": signature(rec), "loose": loose_signature(rec), "fp": fingerprint(rec)}
    os.makedirs(os.path.dirname(TABLE), exist_ok=True)
    with open(TABLE, "w") as fh:
        json.dump(table, fh, indent=0, sort_keys=True)
    return len(table)


def normalise(facts):
    """Rename functions back to their reviewed names where unambiguous.  Returns the list of
    (actual name, reviewed name) pairs applied."""
    if not os.path.exists(TABLE):
        return []
    with open(TABLE) as fh:
        table = json.load(fh)
    present = {rec["def"]: rec for rec in facts["fns"] if "body" in rec and not rec.get("gen")}
    missing = {d: t for d, t in table.items() if d not in present}
    if not missing:
        return []
    new = {d: rec for d, rec in present.items() if d not in table}
    by_sig = {}
    for d, rec in new.items():
        by_sig.setdefault(signature(rec), []).append(d)
    miss_by_sig = {}
    for d, t in missing.items():
        miss_by_sig.setdefault(t["sig"], []).append(d)
    def same_kind(a, b):
        """a trait's provided method is not a renamed override of that trait (and the other way round): when an
        override disappears in favour of the default, both are what they are"""
        return a.startswith("<") == b.startswith("<")

    renames = {}
    for sig, ds in miss_by_sig.items():
        cands = by_sig.get(sig, [])
        if len(ds) == 1 and len(cands) == 1 and same_kind(cands[0], ds[0]):
            renames[cands[0]] = ds[0]
    # second pass: functions moved to another type / trait / module (receiver and impl context differ).
    # Same parameters apart from the receiver, same result, and a body that mentions the same things;
    # the best candidate must be clearly better than the runner-up.
    taken = set(renames)
    matched = set(renames.values())
    for d, t in sorted(missing.items()):
        if d in matched or not t.get("loose") or not t.get("fp"):
            continue
        want = set(t["fp"])
        scored = []
        for nd, rec in new.items():
            if nd in taken or loose_signature(rec) != t["loose"] or not same_kind(nd, d):
                continue
            got = set(fingerprint(rec))
            j = len(want & got) / float(len(want | got) or 1)
            scored.append((j, nd))
        scored.sort(reverse=True)
        if scored and scored[0][0] >= 0.6 and (len(scored) == 1 or scored[0][0] - scored[1][0] >= 0.15):
            renames[scored[0][1]] = d
            taken.add(scored[0][1])
            matched.add(d)
    if not renames:
        return []
    name_map = {}
    for actual, canon in renames.items():
        name_map[_strip_generics(actual)] = (canon, table[canon]["name"])
    applied = []

    def fix_callee(c):
        hit = None
        for key in ("path", "resolved"):
            p = c.get(key)
            if p and _strip_generics(p) in name_map:
                canon, nm = name_map[_strip_generics(p)]
                c[key] = canon
                c["name"] = nm
                hit = nm
        return hit

    def walk(o):
        if isinstance(o, dict):
            c = o.get("callee")
            if isinstance(c, dict):
                nm = fix_callee(c)
                if nm and o.get("k") == "MethodCall" and o.get("method"):
                    o["method"] = nm
            if o.get("k") == "Path" and isinstance(o.get("res"), dict):
                p = o["res"].get("path")
                if p and _strip_generics(p) in name_map:
                    o["res"]["path"] = name_map[_strip_generics(p)][0]
            for v in o.values():
                if isinstance(v, (dict, list)):
                    walk(v)
        elif isinstance(o, list):
            for v in o:
                walk(v)

    for rec in facts["fns"]:
        if rec["def"] in renames:
            canon = renames[rec["def"]]
            applied.append((rec.get("name"), table[canon]["name"]))
            rec["renamed_from"] = rec["def"]
            rec["def"] = canon
            rec["name"] = table[canon]["name"]
        if rec.get("parent_fn") in renames:
            rec["parent_fn"] = renames[rec["parent_fn"]]
    walk(facts["fns"])
    return applied
