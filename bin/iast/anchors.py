"""Rename tolerance: rules name functions of the reviewed tree.  If a function of the reviewed tree is
missing by name but exactly one *new* function has its signature (parameter types, return type,
impl/trait context), the program is normalised so that the function appears under its reviewed name.
Anything ambiguous is left alone and the rules fail closed on the missing anchor."""
import json
import os
import re

from .facts import VERIF

TABLE = os.path.join(VERIF, "rules", "anchors.json")


def _strip_generics(p):
    return re.sub(r"::<[^>]*>", "", p)


def signature(rec):
    return json.dumps(
        {
            "params": [p["ty"] for p in rec.get("params", [])],
            "ret": rec.get("ret"),
            "self": re.sub(r"<.*>$", "", rec.get("self_ty") or ""),
            "trait": rec.get("impl_of_trait") or rec.get("in_trait") or "",
        },
        sort_keys=True,
    )


def generate(facts):
    table = {}
    for rec in facts["fns"]:
        if rec.get("gen") or rec.get("closure") or "body" not in rec:
            continue
        table[rec["def"]] = {"name": rec["name"], "sig": signature(rec)}
    os.makedirs(os.path.dirname(TABLE), exist_ok=True)
    with open(TABLE, "w") as fh:
        json.dump(table, fh, indent=0, sort_keys=True)
    return len(table)


def normalise(facts):
    """Rename functions back to their reviewed names where unambiguous.  Returns the list of
    (actual name, reviewed name) pairs applied."""
    if not os.path.exists(TABLE):
        return []
    with open(TABLE) as fh:
        table = json.load(fh)
    present = {rec["def"]: rec for rec in facts["fns"] if "body" in rec and not rec.get("gen")}
    missing = {d: t for d, t in table.items() if d not in present}
    if not missing:
        return []
    new = {d: rec for d, rec in present.items() if d not in table}
    by_sig = {}
    for d, rec in new.items():
        by_sig.setdefault(signature(rec), []).append(d)
    miss_by_sig = {}
    for d, t in missing.items():
        miss_by_sig.setdefault(t["sig"], []).append(d)
    renames = {}
    for sig, ds in miss_by_sig.items():
        cands = by_sig.get(sig, [])
        if len(ds) == 1 and len(cands) == 1:
            renames[cands[0]] = ds[0]
    if not renames:
        return []
    name_map = {}
    for actual, canon in renames.items():
        name_map[_strip_generics(actual)] = (canon, table[canon]["name"])
    applied = []

    def fix_callee(c):
        for key in ("path", "resolved"):
            p = c.get(key)
            if p and _strip_generics(p) in name_map:
                canon, nm = name_map[_strip_generics(p)]
                c[key] = canon
                c["name"] = nm

    def walk(o):
        if isinstance(o, dict):
            c = o.get("callee")
            if isinstance(c, dict):
                fix_callee(c)
            if o.get("k") == "Path" and isinstance(o.get("res"), dict):
                p = o["res"].get("path")
                if p and _strip_generics(p) in name_map:
                    o["res"]["path"] = name_map[_strip_generics(p)][0]
            for v in o.values():
                if isinstance(v, (dict, list)):
                    walk(v)
        elif isinstance(o, list):
            for v in o:
                walk(v)

    for rec in facts["fns"]:
        if rec["def"] in renames:
            canon = renames[rec["def"]]
            applied.append((rec.get("name"), table[canon]["name"]))
            rec["renamed_from"] = rec["def"]
            rec["def"] = canon
            rec["name"] = table[canon]["name"]
        if rec.get("parent_fn") in renames:
            rec["parent_fn"] = renames[rec["parent_fn"]]
    walk(facts["fns"])
    return applied
