"""Rules about the transforms' construction of output (shared by C01, C02, C03, C08)."""
import re

from . import hir, gate, fanout
from .engine import AnchorMissing
from .prov import Prov, origin_str, return_exprs
from .effect import Effect
from .trav import core_type, overrides_of
from . import travrules as T


def xform_fns(prog):
    return [f for f in prog.user_fns if "/transform/" in f.file or f.file.endswith("visitor_util.rs") or f.file.endswith("ident_provider.rs") or f.file.endswith("operation_transform_visitor.rs") or f.file.endswith("block_transform_visitor.rs")]


def _ctor_name(n):
    n = hir.peel(n)
    if n.get("k") == "Struct":
        return (n["res"].get("path") or n.get("qname") or "?")
    if n.get("k") == "Call":
        f = hir.peel(n["f"])
        if f.get("k") == "Path" and f["res"].get("ctor_path"):
            return f["res"]["ctor_path"]
    if n.get("k") == "Path" and n["res"].get("ctor_path"):
        return n["res"]["ctor_path"]
    return None


# ---------------------------------------------------------------------------------------------
# C03


def rule_push_parity(check):
    R = "EFFECT"
    check.rule(R, "on every path of OperandHandler::replace_expressions_in_expr exactly one element is pushed to `arguments` per operand (array expansion: one per element); the helpers it uses push exactly one")
    prog = check.prog
    ef = Effect(prog)
    f = prog.fn("OperandHandler::replace_expressions_in_expr")
    names = [hir.pat_bindings(p["pat"])[0]["name"] if hir.pat_bindings(p["pat"]) else "?" for p in f.rec["params"]]
    if "arguments" not in names:
        raise AnchorMissing("arguments parameter of replace_expressions_in_expr")
    ai = names.index("arguments")
    lid = hir.pat_bindings(f.rec["params"][ai]["pat"])[0]["local"]
    matches = [n for n in hir.walk_no_closure(f.body) if n.get("k") == "Match" and hir.local_of(n["scrut"]) and f.bindings()[hir.local_of(n["scrut"])[0]]["origin"][:2] == ("param", 0)]
    if len(matches) != 1:
        raise AnchorMissing("match on the operand in replace_expressions_in_expr")
    n_arms = 0
    arms_ = [(f, lid, a) for a in matches[0]["arms"]]
    # operand kinds that are told apart one level up, in the wrapper that unpacks an ExprOrSpread (array
    # expansion may live there): its arms are operand arms too
    w = prog.fn_opt("OperandHandler::replace_expressions_in_expr_or_spread")
    if w is not None:
        wn = [hir.pat_bindings(p["pat"])[0]["name"] if hir.pat_bindings(p["pat"]) else "?" for p in w.rec["params"]]
        if "arguments" in wn:
            wlid = hir.pat_bindings(w.rec["params"][wn.index("arguments")]["pat"])[0]["local"]
            p0 = hir.pat_bindings(w.rec["params"][0]["pat"])
            for m_ in [n for n in hir.walk_no_closure(w.body) if n.get("k") == "Match" and not (n.get("source") or "").startswith(("ForLoop", "TryDesugar"))]:
                root = (hir.place(hir.peel_transparent(m_["scrut"])) or "").lstrip("*&").split(".")[0]
                sty = (hir.peel_transparent(m_["scrut"]).get("ty") or "").replace("&mut ", "").replace("&", "")
                if p0 and root == "%s#%d" % (p0[0]["name"], p0[0]["local"]) and "swc_ecma_ast::Expr" in sty and "Option<" not in sty and "ExprOrSpread" not in sty:
                    arms_ += [(w, wlid, a) for a in m_["arms"] if str(hir.pat_variant(a["pat"])).split("::")[-1] not in ("_",) or not any(hir.is_call(x) and (hir.callee_name(x) or "") == "replace_expressions_in_expr" for x in hir.walk(a["body"]))]
    for f_a, lid_a, a in arms_:
        v = hir.pat_variant(a["pat"])
        vn = v.split("::")[-1] if isinstance(v, str) else str(v)
        cs = {c for c, t in ef.counts(f_a, a["body"], lid_a, ())}
        n_arms += 1
        key = "%s/replace_expressions_in_expr/%s" % (R, vn)
        if vn == "Array":
            def leaves(c):
                if isinstance(c, tuple) and c and c[0] == "each":
                    out = []
                    for x in c[1]:
                        out += leaves(x)
                    return out
                return [c]

            ok = all(isinstance(c, tuple) and c[0] == "each" and set(leaves(c)) <= {0, 1, "rec"} for c in cs)
            check.expect(ok, R, key, hir.loc(a["body"]), "array expansion: one recursive call per present element", "array arm pushes %s" % sorted(cs, key=str))
            continue
        for c in sorted(cs, key=str):
            if c == 1:
                check.ok(R, key, hir.loc(a["body"]), "exactly one argument pushed")
            else:
                check.bad(R, "%s/pushes-%s" % (key, c), hir.loc(a["body"]), "operand kind %s: a path pushes %s elements to the hook arguments instead of exactly one (operand omitted or duplicated)" % (vn, c))
    check.floor(R, "operand arms", n_arms, 5)
    for name, pname in (("OperandHandler::replace_default", "arguments"), ("OperandHandler::replace_literals", "arguments"), ("IdentProvider::get_ident_used_in_assignation", "arguments")):
        g = prog.fn_opt(name)
        if g is None:
            if name.endswith("get_ident_used_in_assignation"):
                raise AnchorMissing("function " + name)
            continue  # an operand helper that was inlined: its pushes are counted in the arms above
        ns = [hir.pat_bindings(p["pat"])[0]["name"] if hir.pat_bindings(p["pat"]) else "?" for p in g.rec["params"]]
        cs = ef.fn_counts(g, ns.index(pname))
        check.expect(cs == {1}, R, "%s/%s" % (R, g.name), hir.loc(g.rec), "%s pushes exactly one argument" % g.name, "%s pushes %s arguments" % (g.name, sorted(cs, key=str)))
    g = prog.fn("IdentProvider::get_temporal_ident_used_in_assignation")
    ns = [hir.pat_bindings(p["pat"])[0]["name"] if hir.pat_bindings(p["pat"]) else "?" for p in g.rec["params"]]
    cs = ef.fn_counts(g, ns.index("assignations"))
    check.expect(cs == {0, 1}, R, R + "/temp-assignation", hir.loc(g.rec), "one assignation per created temporary (none for literals)", "get_temporal_ident_used_in_assignation pushes %s assignations" % sorted(cs, key=str))


def rule_mirror(check):
    R = "MIRROR"
    check.rule(R, "the value pushed as hook argument is the value left in place: both derive from the one temporary returned by get_temporal_ident_used_in_assignation (or from the operand itself when no temporary is made)")
    prog = check.prog
    pv = Prov(prog)
    g = prog.fn("IdentProvider::get_ident_used_in_assignation")
    pushes = [n for n in hir.calls_in(g.body, name="push")]
    rets = return_exprs(g.body)
    check.floor(R, "pushes in get_ident_used_in_assignation", len(pushes), 1)
    ret_o = set()
    for r in rets:
        ret_o |= pv.origins(g, r)
    for n in pushes:
        arg = hir.call_args(n)[1]
        # through get_expr_or_spread(&id_expr, kind): the expression argument
        from .prov import value_exprs as _vals

        def leaves(x, depth=0):
            """the expressions whose value `x` can be: through a never-reassigned local, the branches of an
            if / match, and the expression handed to get_expr_or_spread (which only wraps it)"""
            x = hir.peel(x)
            l_ = hir.local_of(x)
            if l_ and depth < 4:
                b_ = g.bindings().get(l_[0])
                if b_ and b_["origin"][0] == "let" and b_["origin"][1] is not None and not g.assignments_to(l_[0]) and not (len(b_["origin"]) > 2 and b_["origin"][2] and b_["origin"][2] != ((),)):
                    return leaves(b_["origin"][1], depth + 1)
                return [x]
            if x.get("k") in ("If", "Match", "BlockExpr") and depth < 4:
                out = []
                for v_ in _vals(x):
                    out += leaves(v_, depth + 1) if hir.peel(v_) is not x else [hir.peel(v_)]
                return out
            if hir.is_call(x) and hir.callee_name(x) == "get_expr_or_spread" and len(hir.call_args(x)) > 1:
                return leaves(hir.call_args(x)[1], depth + 1)
            return [x]

        os_ = set()
        for e in leaves(arg):
            os_ |= pv.origins(g, e)
        kinds = set()
        ok = True
        for r, p in os_:
            if r[0] == "param" and r[2] == 1:
                kinds.add("the operand itself")
            elif r[0] == "ctor" and r[1].endswith("Expr::Ident"):
                node = prog.by_def[r[2]].by_id(r[3])
                ao = pv.origins(prog.by_def[r[2]], node["args"][0], r[4]) if node.get("k") == "Call" else set()
                notnone = lambda x: not (x[0][0] == "ctor" and x[0][1].split("::")[-1] == "None")
                same = {x[0][:4] for x in ao if notnone(x)} == {x[0][:4] for x in ret_o if notnone(x)}
                kinds.add("Expr::Ident(temp)" if same else "Expr::Ident(other)")
                ok = ok and same
            else:
                kinds.add(origin_str((r, p)))
                ok = False
        check.expect(ok and len(kinds) == 2, R, R + "/pushed-is-returned", hir.loc(n), "pushed argument = %s" % sorted(kinds), "pushed argument origins %s differ from the temporary that callers put in place" % sorted(kinds))
    # callers replace the operand by exactly the returned identifier
    n_sites = 0
    for f in xform_fns(prog):
        for n in hir.calls_in(f.body, name="get_ident_used_in_assignation"):
            par = f.parent(n)
            if par is not None and hir.is_call(par) and (hir.callee_name(par) or par.get("method")) == "map_or":
                n_sites += 1
                a = hir.call_args(par)
                dflt = hir.local_of(a[1])
                fn_ = _ctor_name(a[2])
                op = hir.local_of(hir.call_args(n)[1])
                ok = bool(dflt) and dflt == op and (fn_ or "").endswith("Expr::Ident")
                cl = None
                for anc in f.ancestors(par):
                    if anc.get("k") == "Closure":
                        cl = anc
                        break
                hof = f.parent(cl) if cl else None
                in_place = hof is not None and hir.is_call(hof) and (hir.callee_name(hof) or hof.get("method")) == "map_with_mut"
                check.expect(ok and in_place, R, "%s/in-place/%s" % (R, f.name), hir.loc(par), "operand replaced in place by Expr::Ident(temp) or kept", "%s does not put the returned temporary (or the untouched operand) back in place" % f.name)
                continue
            # the same written as `if let Some(ident) = <call> { *operand = Expr::Ident(ident); }`
            bound = [lid for lid, b_ in f.bindings().items() if b_["origin"][0] == "match" and hir.peel(b_["origin"][1]) is n and str(hir.pat_variant(b_["origin"][3])).split("::")[-1] == "Some"]
            if bound and (f.rec.get("self_ty") or "") .find("IdentProvider") < 0 and f.name != "get_ident_used_in_assignation":
                n_sites += 1
                op_place = (hir.place(hir.call_args(n)[1]) or "?")
                writes = [a_ for a_ in f.nodes() if a_.get("k") == "Assign" and (hir.place(a_["l"]) or "") == op_place]
                okw = False
                for a_ in writes:
                    r_ = hir.peel(a_["r"])
                    is_ident = r_.get("k") == "Call" and (hir.peel(r_["f"]).get("res", {}).get("ctor_path") or "").endswith("Expr::Ident") and r_.get("args") and (hir.local_of(r_["args"][0]) or (None,))[0] in bound
                    under = any(c_["t"] == "pat" and c_["v"] and hir.peel(c_.get("scrut") or {}) is n for c_ in f.conds_at(a_))
                    okw = okw or (is_ident and under)
                check.expect(okw and len(writes) == 1, R, "%s/in-place/%s" % (R, f.name), hir.loc(n), "operand replaced in place by Expr::Ident(temp) or kept", "%s does not put the returned temporary (or the untouched operand) back in place" % f.name)
    check.floor(R, "in-place replacement sites", n_sites, 1)
    # literals and kept identifiers are pushed as they are
    f = prog.fn_opt("OperandHandler::replace_literals")
    for n in hir.calls_in(f.body, name="push") if f is not None else []:
        o = pv.origins(f, hir.call_args(n)[1])
        check.expect(all(r[0] == "param" and r[2] == 0 for r, p in o), R, R + "/literal", hir.loc(n), "literal operand pushed as is", "replace_literals pushes %s" % sorted(origin_str(x) for x in o))
    f = prog.fn("OperandHandler::replace_expressions_in_expr")
    keep = [n for n in hir.calls_in(f.body, name="push")]
    for n in keep:
        inner = hir.peel(hir.call_args(n)[1])
        e = hir.call_args(inner)[1] if hir.is_call(inner) and hir.callee_name(inner) == "get_expr_or_spread" else inner
        o = pv.origins_at(f, e, n)
        atoms = gate.atoms_at(f, n)
        arm = [hir.pat_variant(c["pat"]).split("::")[-1] for c in f.conds_at(n) if c["t"] == "pat" and c["v"] and isinstance(hir.pat_variant(c["pat"]), str) and "Expr::" in hir.pat_variant(c["pat"])]
        same = all(r[0] == "param" and r[2] == 0 for r, p in o)
        if arm[:1] == ["Lit"]:
            check.expect(same, R, R + "/literal-inline", hir.loc(n), "literal operand pushed as is", "the literal arm pushes %s" % sorted(origin_str(x) for x in o))
            continue
        kept = gate.has_eq_gate(atoms, "ident_mode", "IdentMode::Replace", False) or gate.has_eq_gate(atoms, "ident_mode", "IdentMode::Keep", True)
        if not kept:
            # the same test as a match arm on the mode
            from . import boolform as BF
            try:
                mvs = [v_["name"] for v_ in prog.adt("operand_handler::IdentMode")["variants"]]
            except AnchorMissing:
                mvs = ["Replace", "Keep"]
            mpre = "is:transform::operand_handler::IdentMode::"
            prem_ = BF.from_conds(f, [c_ for c_ in f.conds_at(n) if c_["t"] != "closure"], enum_atomize, prog)
            kept = BF.entails(prem_, BF.atom(mpre + "Keep"), exhaustive={mpre: mvs})
        check.expect(same and kept, R, R + "/kept-ident", hir.loc(n), "kept identifier pushed as is (mode != Replace)", "the Keep branch pushes %s" % sorted(origin_str(x) for x in o))


def rule_kept_in_place(check):
    R = "KEPT-IN-PLACE"
    check.rule(R, "an operand may stay in place and be reported to the hook by a copy only if evaluating it twice cannot be observed: literals, and identifiers in Keep mode; every other operand kind is hoisted into a temporary (evaluated once)")
    prog = check.prog
    # which operand kinds are reported by a *copy* while the original stays in place: only those whose
    # evaluation has no effect and always gives the same value - literals, and identifiers in Keep mode.
    # Anything else left in place is evaluated twice (once in the expression, once as hook argument).
    fo = prog.fn("OperandHandler::replace_expressions_in_expr")
    ms = [n for n in hir.walk_no_closure(fo.body) if n.get("k") == "Match" and hir.local_of(n["scrut"]) and fo.bindings()[hir.local_of(n["scrut"])[0]]["origin"][:2] == ("param", 0)]
    hoisters = {"get_ident_used_in_assignation", "get_temporal_ident_used_in_assignation", "replace_default", "replace_binary", "map_with_mut", "replace_expressions_in_expr", "replace_expressions_in_expr_or_spread"}
    for m_ in ms[:1]:
        for a_ in m_["arms"]:
            v_ = hir.pat_variant(a_["pat"])
            vs_ = {str(x).split("::")[-1] for x in (v_ if isinstance(v_, tuple) else (v_,))}
            calls_ = {(hir.callee_name(x) or x.get("method")) for x in hir.walk(a_["body"]) if hir.is_call(x)}
            # ... and what the crate helpers the arm is split into call
            for x in [x for x in hir.walk(a_["body"]) if hir.is_call(x)]:
                h0_ = prog.resolve_local(x)
                if h0_ is not None and h0_ is not fo and h0_.body is not None and (hir.callee_name(x) or x.get("method")) not in hoisters:
                    for hh_ in prog.flat(h0_, 2):
                        calls_ |= {(hir.callee_name(y) or y.get("method")) for y in hir.walk(hh_.body) if hir.is_call(y)}
            if calls_ & hoisters:
                # the arm may hoist; helpers it goes through decide (checked by EFFECT / IDENT-MODE)
                inner_h = [prog.resolve_local(x) for x in hir.walk(a_["body"]) if hir.is_call(x)]
                if "Bin" in vs_ and check.prop == "C01":
                    # a binary operand may only stay behind if it is known to be free of effects. "It is a
                    # `+`" is not that: a sum is a hook call (not a Bin any more) or a sum of literals only
                    # while the plus operator is enabled; with the operator disabled `f() + g()` arrives here
                    # as written. Whatever is not hoisted must be tested to be a sum of literals.
                    stay_sites = []
                    for h_ in inner_h:
                        if h_ is None or h_.body is None or h_ is fo:
                            continue
                        for y in [y for y in hir.walk(h_.body) if hir.is_call(y) and (hir.callee_name(y) or y.get("method")) in hoisters]:
                            conds_ = [c_ for c_ in h_.conds_at(y) if c_["t"] in ("bool", "pat") and not (c_["t"] == "pat" and c_["v"] and (c_["pat"].get("k") == "Wild" or c_["pat"].get("k") == "Binding" and "sub" not in c_["pat"]))]
                            if not conds_:
                                continue  # hoisted on every path through here
                            txt = " && ".join(hir.cond_str(c_) for c_ in conds_)
                            lit_test = any(hir.is_call(z) and "lit" in ((hir.callee_name(z) or z.get("method") or "").lower()) for c_ in conds_ for z in hir.walk(c_.get("e") or c_.get("guard") or {}))
                            stay_sites.append((y, txt, lit_test))
                    if stay_sites:
                        okb = all(lt for _, _, lt in stay_sites)
                        check.expect(okb, R, R + "/stays/Bin/only-literal-sums", hir.loc(stay_sites[0][0]), "a binary operand stays in place only when it is tested to be a sum of literals", "a binary operand is hoisted only if [%s] and otherwise left in place whatever its operands are: with the plus operator disabled `m(f() + g(), h())` evaluates h() - hoisted into a temporary - before f() + g(), and the hook is not told about that argument" % "; ".join(t for _, t, _ in stay_sites))
                continue
            pushes_ = [x for x in hir.walk(a_["body"]) if hir.is_call(x) and (hir.callee_name(x) or x.get("method")) == "push"]
            via_helper = [prog.resolve_local(x) for x in hir.walk(a_["body"]) if hir.is_call(x) and prog.resolve_local(x) is not None]
            keeps = bool(pushes_) or any(h_ is not None and h_.body is not None and any(hir.is_call(y) and (hir.callee_name(y) or y.get("method")) == "push" for y in hir.walk(h_.body)) and not any(hir.is_call(y) and (hir.callee_name(y) or y.get("method")) in hoisters for y in hir.walk(h_.body)) for h_ in via_helper)
            stays = not (calls_ & hoisters)
            if not keeps and not stays:
                continue
            if vs_ == {"_"}:
                continue
            # what stays where it was ends up as an operand of the rebuilt `left + right` (`x += y` becomes
            # `x = hook(x + y, ..)`), which the printer does not parenthesise: only kinds that can stand there
            low_ = vs_ & {"Arrow", "Yield", "Assign", "Cond", "Seq"}
            check.expect(not low_, R, "%s/grammar/%s" % (R, "+".join(sorted(vs_))), hir.loc(a_["body"]), "operand kinds left in place can stand as an operand of `+` without parentheses", "operand kind(s) %s are left in place: `s += x => x` is rebuilt as the binary `s + x => x`, which is printed without parentheses and does not parse" % sorted(low_))
            guard_keep = "guard" in a_ and "Keep" in hir.describe(a_["guard"])
            if not keeps and check.prop != "C01":
                continue  # evaluation order is C01's business
            if not keeps and "Bin" in vs_ and check.prop == "C01":
                # the same question as in the hoisting branch above, asked of an arm that leaves the binary
                # operand where it is by itself (`Expr::Bin(b) if b.op == Add => {}`): it may only do so for
                # sums it has tested to be sums of literals
                g_ = a_.get("guard")
                lit_test = g_ is not None and any(hir.is_call(z) and "lit" in ((hir.callee_name(z) or z.get("method") or "").lower()) for z in hir.walk(g_))
                check.expect(lit_test, R, R + "/stays/Bin/only-literal-sums", hir.loc(a_["body"]), "a binary operand stays in place only when it is tested to be a sum of literals", "a binary operand is left in place under [%s] whatever its operands are: with the plus operator disabled `m(f() + g(), h())` evaluates h() - hoisted into a temporary - before f() + g(), and the hook is not told about that argument" % (hir.describe(g_)[:120] if g_ is not None else "no condition"))
                vs_ = vs_ - {"Bin"}
                if not vs_:
                    continue
            if not keeps:
                # left where it is and not reported at all (EFFECT, C03, judges the missing argument): for
                # the order of evaluation only kinds whose evaluation cannot be observed may stay behind
                # while later operands are hoisted in front of them
                ok_ = vs_ <= {"Lit", "Ident", "Bin", "Fn", "Arrow", "This"}
                check.expect(ok_, R, "%s/stays/%s" % (R, "+".join(sorted(vs_))), hir.loc(a_["body"]), "operand kinds left in place are free of evaluation effects", "operand kind(s) %s are left in place while later operands are hoisted in front of them: their evaluation effects now happen after those of the later operands" % sorted(vs_ - {"Lit", "Ident", "Bin", "Fn", "Arrow", "This"}))
                continue
            ok_ = vs_ <= {"Lit"} or (vs_ == {"Ident"})
            check.expect(ok_, R, "%s/%s" % (R, "+".join(sorted(vs_))), hir.loc(a_["body"]), "only literals (and kept identifiers) are reported by a copy while staying in place", "operand kind(s) %s stay in place and are reported by a copy: they are evaluated twice and the hook does not receive the value the operation used" % sorted(vs_ - {"Lit", "Ident"}))


def rule_hook_shape(check):
    R = "HOOK-SHAPE"
    check.rule(R, "get_dd_call_expr builds args = [wrapped expression (no spread)] ++ arguments in order; get_dd_paren_expr forwards them unchanged, appends the hook call after all assignations and builds the sequence by forward iteration")
    prog = check.prog
    pv = Prov(prog)
    gc = prog.fn("visitor_util::get_dd_call_expr")
    calls = [n for n in hir.walk(gc.body) if n.get("k") == "Struct" and (n["res"].get("path") or "").endswith("CallExpr")]
    check.floor(R, "CallExpr literals in get_dd_call_expr", len(calls), 1)
    for n in calls:
        flds = {x["name"]: x["e"] for x in n["fields"]}
        from . import seqform as SQ

        items = SQ.seq_of(gc, flds["args"], upto=n["id"])
        ok1 = ok2 = False
        if len(items) == 2 and items[0][0] == "one" and items[1][0] == "all":
            first = [x for x in hir.walk(items[0][1]) if x.get("k") == "Struct" and (x["res"].get("path") or "").endswith("ExprOrSpread")]
            if len(first) == 1:
                ff = {x["name"]: hir.peel(x["e"]) for x in first[0]["fields"]}
                ok1 = (ff["spread"].get("res", {}).get("ctor_path") or "").split("::")[-1] == "None" and all(r[0] == "param" and r[2] == 0 for r, p in pv.origins(gc, ff["expr"]))
            l_ = hir.local_of(items[1][2])
            ok2 = bool(l_) and gc.bindings()[l_[0]]["origin"][:2] == ("param", 1)
        ok = ok1 and ok2
        detail = SQ.show(items)
        check.expect(ok, R, R + "/args", hir.loc(n), "args = [expr] ++ arguments", "hook call arguments are not [wrapped expression] ++ arguments (they are %s)" % detail)
        co = hir.peel(flds["callee"])
        ok = hir.is_call(co) and hir.callee_name(co) == "dd_global_method_invocation"
        check.expect(ok, R, R + "/callee", hir.loc(n), "callee = _ddiast.<name>", "hook callee is not built by dd_global_method_invocation")
    gp = prog.fn("visitor_util::get_dd_paren_expr")
    cs = [x for x in hir.calls_in(gp.body, name="get_dd_call_expr")]
    ok = len(cs) == 1 and [sorted({r[2] for r, p in pv.origins(gp, a) if r[0] == "param"}) for a in hir.call_args(cs[0])] == [[0], [1], [3], [4]]
    check.expect(ok, R, R + "/forward", hir.loc(gp.rec), "get_dd_paren_expr forwards (expr, arguments, method_name, span)", "get_dd_paren_expr does not forward its parameters unchanged")
    from . import seqform as SQ

    seqs = [n for n in hir.walk(gp.body) if n.get("k") == "Struct" and (n["res"].get("path") or "").endswith("SeqExpr")]
    check.floor(R, "SeqExpr literals in get_dd_paren_expr", len(seqs), 1)
    for n in seqs:
        ex = [x["e"] for x in n["fields"] if x["name"] == "exprs"][0]
        items = SQ.seq_of(gp, ex, upto=n["id"])
        shape = [it[0] for it in items]
        pvo = Prov(prog, opaque={"get_dd_call_expr"})
        last_is_call = bool(items) and items[-1][0] == "one" and any(r[0] == "call" and r[1].split("::")[-1] == "get_dd_call_expr" for r, p in pvo.origins(gp, items[-1][1]))
        check.expect(last_is_call and "one" not in shape[:-1], R, R + "/call-last", hir.loc(n), "the hook call is the last element of the sequence", "the hook call is not the last element of the sequence (the sequence is %s)" % SQ.show(items))
        def _is_param(fn_, node_, idx_):
            l_ = hir.local_of(node_)
            return bool(l_) and fn_.bindings()[l_[0]]["origin"][:2] == ("param", idx_)

        fwd = shape[:-1] == ["all"] and _is_param(gp, items[0][2], 2)
        check.expect(fwd, R, R + "/forward-iteration", hir.loc(n), "sequence = assignations in insertion order, then the hook call", "the sequence is %s, not the assignations in insertion order followed by the hook call" % SQ.show(items))
    # direct call is returned when there are no assignations
    rets = [hir.peel(r) for r in return_exprs(gp.body)]
    bare = [r for r in rets if hir.local_of(r)]
    ok = len(bare) == 1 and any(a[0] == "call" and a[1] == "is_empty" and a[4] is True for a in gate.atoms_at(gp, bare[0]))
    check.expect(ok, R, R + "/bare-call", hir.loc(gp.rec), "no assignations: the bare hook call", "get_dd_paren_expr returns a bare call under other conditions")



def _enum_value_sites(prog, suffix):
    """[(fn, node)] where the unit variant `suffix` is used as a *value* (argument, initialiser, branch
    result) - not as an operand of == / != and not inside a pattern"""
    out = []
    for f in prog.user_fns:
        for n in f.nodes():
            if n.get("k") != "Path":
                continue
            cp = (n.get("res") or {}).get("ctor_path") or ""
            if not cp.endswith(suffix):
                continue
            par = f.parent(n)
            while par is not None and par.get("k") in ("AddrOf", "DropTemps", "Use"):
                par = f.parent(par)
            if par is not None and (par.get("k") == "Binary" and par.get("op") in ("Eq", "Ne")):
                continue
            if par is not None and par.get("k") in ("Call", "MethodCall") and (par.get("callee") or {}).get("name") in ("eq", "ne"):
                continue
            out.append((f, n))
    return out


def rule_call_emission(check):
    """the behaviour-relevant half of CALL-SIGNATURE (registered under C01/C02): what the emitted
    `.call/.apply` is invoked on, with which receiver, which arguments and under which name"""
    sub = _Only(check, "CALL-SIGNATURE", ("/this-arg", "/callee-object", "/member-obj", "/all-args-in-order", "/call-or-apply/", "/expand-arrays", "/expand-arrays-sites", "/FLOOR/call_or_apply", "/bare-callee-kept", "/callee-write/", "/FLOOR/callee writes"))
    rule_call_signature(sub)


class _Only:
    def __init__(self, check, rule, suffixes):
        self._c, self._rule, self._suf = check, rule, suffixes
        self.prog = check.prog

    def _keep(self, rule, key):
        return rule == self._rule and any(x in key for x in self._suf)

    def ok(self, rule, key, *a, **k):
        if self._keep(rule, key):
            self._c.ok("CALL-EMISSION", key.replace("CALL-SIGNATURE", "CALL-EMISSION"), *a, **k)

    def bad(self, rule, key, *a, **k):
        if self._keep(rule, key):
            self._c.bad("CALL-EMISSION", key.replace("CALL-SIGNATURE", "CALL-EMISSION"), *a, **k)

    def expect(self, cond, rule, key, *a, **k):
        if self._keep(rule, key):
            return self._c.expect(cond, "CALL-EMISSION", key.replace("CALL-SIGNATURE", "CALL-EMISSION"), *a, **k)
        return cond

    def floor(self, rule, what, *a, **k):
        if self._keep(rule, "/FLOOR/" + what):
            self._c.floor("CALL-EMISSION", what, *a, **k)

    def rule(self, rid, text):
        self._c.rule("CALL-EMISSION", "the emitted `tmp.call/apply(receiver, args..)` performs the original call: invoked on the callee temporary, with the reported receiver inserted as this-argument, all arguments in order, under the original `.call`/`.apply` name with array expansion tied to `.apply`")

    def note(self, s_):
        pass


def member_hook_fn(prog):
    """the function that builds the hook of a method call `recv.m(args)`: it asks for the emitted call
    (replace_call_callee_and_args) and inserts the receiver as its first argument"""
    cands = []
    for f in xform_fns(prog):
        if not any(True for _ in hir.calls_in(f.body, name="replace_call_callee_and_args")):
            continue
        if any(hir.lit_value(hir.call_args(n)[1]) == 0 for n in hir.calls_in(f.body, name="insert") if len(hir.call_args(n)) > 2):
            cands.append(f)
    if len(cands) != 1:
        raise AnchorMissing("the function building the member-call hook (%d candidates)" % len(cands))
    return cands[0]


def _emitted_call_args(f, recv):
    """is recv `<L>.args` with L bound to the result of replace_call_callee_and_args?"""
    r = hir.peel(recv)
    if r.get("k") != "Field" or r["field"] != "args":
        return False
    l = hir.local_of(r["x"])
    b = f.bindings().get(l[0]) if l else None
    init = b["origin"][1] if b and b["origin"][0] == "let" else None
    return init is not None and any(hir.is_call(x) and hir.callee_name(x) == "replace_call_callee_and_args" for x in hir.walk(init))


def _is_apply_operand(prog, x):
    if x == ("lit", "apply"):
        return True
    if isinstance(x, str) and "::" in x:
        try:
            return prog.const_str(x.split("::")[-1]) == "apply"
        except AnchorMissing:
            return False
    return False


def rule_call_signature(check):
    R = "CALL-SIGNATURE"
    check.rule(R, "method hooks receive (result, function actually invoked, receiver, arguments..): `arguments` is filled in the order callee, receiver, call arguments; the emitted `.call/.apply` is invoked on the very temporary that was pushed as callee with the very receiver that was pushed")
    prog = check.prog
    pv = Prov(prog)
    f = member_hook_fn(prog)
    names = [hir.pat_bindings(p["pat"])[0]["name"] if hir.pat_bindings(p["pat"]) else "?" for p in f.rec["params"]]
    arg_local = None
    for lid, b in f.bindings().items():
        if b["name"] == "arguments" and b["origin"][0] == "let":
            arg_local = lid
    if arg_local is None:
        raise AnchorMissing("arguments vector in replace_call_expr_if_csi_method_with_member")
    events = []
    for n in f.nodes():
        if hir.is_call(n):
            a = hir.call_args(n)
            hits = [i for i, x in enumerate(a) if (hir.local_of(x) or (None,))[0] == arg_local]
            if hits:
                events.append(n)
    def ev_name(n):
        return hir.callee_name(n) or n.get("method")
    seq = [ev_name(n) for n in events if ev_name(n) != "get_dd_paren_expr"]
    # the two get_ident_used_in_assignation sites are in exclusive match arms
    want_a = ["get_ident_used_in_assignation", "push", "replace_call_callee_and_args"]
    # the callee temporary may be requested in two exclusive arms (prototype / property) or once
    excl = True
    if seq[:2] == ["get_ident_used_in_assignation", "get_ident_used_in_assignation"]:
        excl = fanout.exclusive(f, events[0], events[1])
        seq = seq[1:]
    check.expect(seq == want_a and excl, R, R + "/order", hir.loc(f.rec), "arguments <- callee temp, receiver, then the call arguments", "effects on `arguments` are %s (exclusive callee arms: %s)" % (seq, excl))
    cal = [n for n in events if ev_name(n) == "get_ident_used_in_assignation"]
    for n in cal:
        op = hir.peel(hir.call_args(n)[1])
        for _ in range(3):
            # `&member` where `let member = Expr::Member(..)` (never reassigned) is that constructor
            while op.get("k") == "AddrOf":
                op = hir.peel(op.get("e") or op.get("x"))
            l_ = hir.local_of(op) if op.get("k") == "Path" else None
            b_ = f.bindings().get(l_[0]) if l_ else None
            if b_ and b_["origin"][0] == "let" and b_["origin"][1] is not None and not f.assignments_to(l_[0]):
                op = hir.peel(b_["origin"][1])
            else:
                break
        cn = _ctor_name(op)
        check.expect((cn or "").endswith("Expr::Member"), R, R + "/callee-is-member", hir.loc(n), "the callee temporary holds the member expression (function actually invoked)", "callee argument is built from %s" % hir.describe(op))
    push = [n for n in events if ev_name(n) == "push"]
    rc = [n for n in events if ev_name(n) == "replace_call_callee_and_args"]
    if push and rc:
        recv_l = [hir.local_of(x) for x in hir.walk(hir.call_args(push[0])[1]) if hir.local_of(x)]
        ins = [n for n in hir.calls_in(f.body, name="insert")]
        ok = False
        for n in ins:
            if hir.lit_value(hir.call_args(n)[1]) == 0:
                ls = [hir.local_of(x) for x in hir.walk(hir.call_args(n)[2]) if hir.local_of(x)]
                ok = bool(recv_l) and bool(ls) and recv_l[0] == ls[0]
                sp = [hir.peel(fl["e"]) for s in hir.walk(hir.call_args(n)[2]) if s.get("k") == "Struct" for fl in s["fields"] if fl["name"] == "spread"]
                ok = ok and all((x.get("res", {}).get("ctor_path") or "").split("::")[-1] == "None" for x in sp)
        check.expect(ok, R, R + "/this-arg", hir.loc(push[0]), "the receiver pushed as hook argument is the one inserted as .call(this, ..)", "the this-argument of the emitted .call differs from the receiver reported to the hook")
        ce = hir.peel(hir.call_args(rc[0])[1])
        inner = hir.peel(ce["args"][0]) if ce.get("k") == "Call" and ce["args"] else ce
        l = None
        for x in hir.walk(inner):
            if hir.local_of(x):
                l = hir.local_of(x)
                break
        b = f.bindings().get(l[0]) if l else None
        ok = bool(b) and b["origin"][0] == "let" and b["origin"][1] is not None and any(x is c for c in cal for x in hir.walk(b["origin"][1]))
        check.expect(ok, R, R + "/callee-object", hir.loc(rc[0]), "`.call/.apply` is invoked on the temporary pushed as callee", "the object of the emitted .call/.apply is not the callee temporary reported to the hook")
    g = prog.fn("call_expr_transform::replace_call_callee_and_args")
    mem = [n for n in hir.walk(g.body) if n.get("k") == "Struct" and (n["res"].get("path") or "").endswith("MemberExpr")]
    ok = len(mem) == 1 and all(r[0] == "param" and r[2] == 1 for r, p in pv.origins(g, [x["e"] for x in mem[0]["fields"] if x["name"] == "obj"][0]))
    check.expect(ok, R, R + "/member-obj", hir.loc(g.rec), "callee member object = the identifier passed in", "replace_call_callee_and_args builds the callee from something else than its ident_callee_expr parameter")
    # the loop over the arguments, in replace_call_callee_and_args itself or in a helper it hands `.args` to
    fl_ = prog.flat(g, 2)
    fe = [(h, n) for h in fl_ for n in hir.calls_in(h.body, name="for_each") if any(hir.is_call(m) and (hir.callee_name(m) or "") == "replace_expressions_in_expr_or_spread" for a_ in hir.call_args(n)[1:] for m in hir.walk(a_))]
    fe = [(h, n) for h, n in fe if h is g or "OperandHandler" not in h.def_path]  # (loops of the operand handler itself walk array elements, not the call's arguments)
    # ... or a plain `for x in <args>.iter_mut() { .. }`
    floops = [(h, m_) for h in fl_ for m_ in h.nodes() if m_.get("k") == "Match" and m_.get("source", "").startswith("ForLoopDesugar") and hir.is_call(hir.peel(m_["scrut"])) and (hir.callee_name(hir.peel(m_["scrut"])) or "") == "into_iter" and any(hir.is_call(z) and (hir.callee_name(z) or "") == "replace_expressions_in_expr_or_spread" for z in hir.walk(m_))]
    floops = [(h, m_) for h, m_ in floops if h is g or "OperandHandler" not in h.def_path]
    if not fe and len(floops) == 1:
        fe = [(floops[0][0], {"k": "Call", "args": [hir.call_args(hir.peel(floops[0][1]["scrut"]))[0]], "f": {"k": "Path"}, "sp": floops[0][1]["sp"]})]
    ok = len(fe) == 1
    chain = []
    if ok:
        h, n0 = fe[0]
        x = hir.peel(hir.call_args(n0)[0])
        for _ in range(3):
            while x.get("k") == "MethodCall":
                chain.append(x["method"])
                x = hir.peel(x["recv"])
            # `let it = <call>.args.iter_mut(); for a in it { .. }`: the iterator through a never-reassigned local
            lx_ = hir.local_of(x) if x.get("k") == "Path" else None
            b_ = h.bindings().get(lx_[0]) if lx_ else None
            if b_ and b_["origin"][0] == "let" and b_["origin"][1] is not None and not h.assignments_to(lx_[0]):
                x = hir.peel(b_["origin"][1])
                continue
            break
        src_ok = (hir.place(x) or "").endswith(".args")
        lx = hir.local_of(x)
        if not src_ok and h is not g and lx and h.bindings()[lx[0]]["origin"][0] == "param":
            pi = h.bindings()[lx[0]]["origin"][1]
            sites = [c_ for c_ in hir.calls_in(g.body) if prog.resolve_local(c_) is h]
            src_ok = bool(sites) and all(len(hir.call_args(c_)) > pi and (hir.place(hir.peel_transparent(hir.call_args(c_)[pi])) or "").endswith(".args") for c_ in sites)
        ok = chain == ["iter_mut"] and src_ok
    check.expect(ok, R, R + "/all-args-in-order", hir.loc(g.rec), "every call argument is processed, in order", "call arguments are not all processed in order (%s)" % (chain if fe else "no for_each over the arguments"))
    # .apply(this, [a, b]) reports a and b; .call reports the arguments as they are
    ifs = [n for n in hir.walk(g.body) if n.get("k") == "If"]
    ok = False
    tested = None  # the local that is compared with "apply"
    for n in ifs:
        at = gate.atom(g, {"t": "bool", "e": n["cond"], "v": True})
        if at[0] == "eq" and at[3] is True and (_is_apply_operand(prog, at[1]) or _is_apply_operand(prog, at[2])):
            th = (_ctor_name(hir.peel(n["then"])) or "").split("::")[-1]
            el = (_ctor_name(hir.peel(n["else"])) or "").split("::")[-1] if "else" in n else ""
            ok = th == "Yes" and el == "No"
            other = at[2] if _is_apply_operand(prog, at[1]) else at[1]
            if isinstance(other, str) and "#" in other and other.split("#")[1].split(".")[0].isdigit():
                tested = int(other.split("#")[1].split(".")[0])
    def _str_of(e_):
        e_ = hir.peel(e_)
        v_ = hir.lit_value(e_) if e_.get("k") == "Lit" else None
        if isinstance(v_, str):
            return v_
        dp_ = hir.def_path_of(e_)
        if dp_:
            try:
                return prog.const_str(dp_)
            except AnchorMissing:
                return None
        return None

    if not ok:
        # `match name { "apply" | APPLY_METHOD_NAME => Yes, _ => No }`
        for m_ in [n for n in hir.walk(g.body) if n.get("k") == "Match" and not n.get("source", "").startswith(("ForLoop", "TryDesugar"))]:
            arms = m_.get("arms", [])
            if len(arms) != 2:
                continue
            vals = [(_ctor_name(hir.peel(a_["body"])) or "").split("::")[-1] for a_ in arms]
            p0 = arms[0]["pat"]
            while p0.get("k") in ("Ref", "Deref", "Box"):
                p0 = p0["inner"]
            lit0 = None
            if p0.get("k") in ("Lit", "Expr", "Const", "Path"):
                lit0 = _str_of(p0.get("e") or p0.get("expr") or p0)
            if lit0 is None:
                for x_ in hir.walk_pat(p0) if hasattr(hir, "walk_pat") else []:
                    if isinstance(x_, dict) and (x_.get("k") in ("Lit",) or x_.get("res")):
                        lit0 = lit0 or _str_of(x_.get("e") or x_)
            wild = str(hir.pat_variant(arms[1]["pat"])) == "_"
            if vals == ["Yes", "No"] and lit0 == "apply" and wild and "guard" not in arms[0]:
                ok = True
                l_ = hir.local_of(hir.peel_transparent(m_["scrut"]))
                tested = l_[0] if l_ else tested
    field_of_param = False
    if not ok:
        # `match &<callee description> { Some(S { method, .. }) if *method == "apply" => Yes, _ => No }`: the name
        # travels in a struct handed in by the callers
        for m_ in [n for n in hir.walk(g.body) if n.get("k") == "Match" and not n.get("source", "").startswith(("ForLoop", "TryDesugar"))]:
            arms = m_.get("arms", [])
            if len(arms) != 2 or "guard" not in arms[0] or "guard" in arms[1]:
                continue
            vals = [(_ctor_name(hir.peel(a_["body"])) or "").split("::")[-1] for a_ in arms]
            at = gate.atom(g, {"t": "bool", "e": arms[0]["guard"], "v": True})
            wild = str(hir.pat_variant(arms[1]["pat"])) == "_"
            if vals == ["Yes", "No"] and wild and at[0] == "eq" and at[3] is True and (_is_apply_operand(prog, at[1]) or _is_apply_operand(prog, at[2])):
                other = at[2] if _is_apply_operand(prog, at[1]) else at[1]
                bound = {b_["name"] for b_ in hir.pat_bindings(arms[0]["pat"])}
                sl_ = hir.local_of(hir.peel_transparent(m_["scrut"]))
                sb_ = g.bindings().get(sl_[0]) if sl_ else None
                if isinstance(other, str) and other.split("#")[0].lstrip("*") in bound and sb_ is not None and sb_["origin"][0] == "param":
                    ok = True
                    field_of_param = True
    pn = [g.bindings()[tested]] if tested in g.bindings() and g.bindings()[tested]["origin"][0] == "let" else [b for b in g.bindings().values() if b["name"] == "prop_name"]
    dflt = False
    if pn and pn[0]["origin"][1] is not None:
        init = hir.peel(pn[0]["origin"][1])
        dflt = hir.is_call(init) and (hir.callee_name(init) or init.get("method")) == "unwrap_or" and _str_of(hir.call_args(init)[1]) == "call"
    if not pn:
        # the name is a plain &str parameter: there is no default here, every caller says which one
        # (checked by the call-or-apply flow below)
        prm = [b for b in g.bindings().values() if b["origin"][0] == "param" and "str" in (b.get("ty") or "")]
        cmp_on_param = False
        for n in ifs:
            at = gate.atom(g, {"t": "bool", "e": n["cond"], "v": True})
            if at[0] == "eq" and (_is_apply_operand(prog, at[1]) or _is_apply_operand(prog, at[2])):
                cmp_on_param = any(isinstance(x, str) and x.split("#")[0] in {b["name"] for b in prm} for x in (at[1], at[2]))
        dflt = cmp_on_param or field_of_param
    check.expect(ok and dflt, R, R + "/expand-arrays", hir.loc(g.rec), "array arguments are expanded iff the call goes through .apply (default .call)", "array expansion is not tied to `.apply` (default `.call`): the hook's argument list does not match the call")
    # ... and nowhere else: every other site hands on its own parameter or says No
    yes_sites = _enum_value_sites(prog, "ExpandArrays::Yes")
    stray = [(f_, n_) for f_, n_ in yes_sites if f_ is not g]
    check.expect(bool(yes_sites) and not stray, R, R + "/expand-arrays-sites", hir.loc(stray[0][1]) if stray else hir.loc(g.rec), "ExpandArrays::Yes is produced only by the `.apply` test in %s" % g.name, "ExpandArrays::Yes is passed in %s: an array-literal operand that is not an `.apply` argument list is split into its elements (the hook no longer receives the operand)" % sorted({f_.name for f_, _ in stray}))
    # `.call` vs `.apply` of the original call is carried to the emitted call: a function that has a
    # `call_or_apply` parameter forwards it, and on the prototype-only path (functions reachable only
    # from replace_prototype_call_or_apply) the value handed on is the original property name
    def cop_index(fn_):
        for i, p_ in enumerate(fn_.rec.get("params", [])):
            b_ = hir.pat_bindings(p_["pat"])
            if b_ and b_[0]["name"] == "call_or_apply":
                return i
        return None

    proto = prog.fn_opt("call_expr_transform::replace_prototype_call_or_apply")
    proto_only = set()
    if proto is not None:
        changed = True
        while changed:
            changed = False
            for fn_ in prog.user_fns:
                if fn_.def_path in proto_only or fn_ is proto or "call_expr_transform" not in fn_.def_path:
                    continue
                sites_ = [c_ for c_, n_ in prog.sites_calling(fn_) if hir.is_call(n_)]
                if sites_ and all(c_ is proto or c_.def_path in proto_only for c_ in sites_):
                    proto_only.add(fn_.def_path)
                    changed = True
    n_cop = 0
    for fn_ in prog.user_fns:
        if "call_expr_transform" not in fn_.def_path:
            continue
        own = cop_index(fn_)
        for n_ in fn_.nodes():
            if not hir.is_call(n_):
                continue
            tgt = prog.resolve_local(n_)
            if tgt is None:
                continue
            ti = cop_index(tgt)
            if ti is None or ti >= len(hir.call_args(n_)):
                continue
            n_cop += 1
            os_ = pv.origins(fn_, hir.call_args(n_)[ti])
            key_ = "%s/call-or-apply/%s->%s" % (R, fn_.name, tgt.name)
            if own is not None:
                ok_ = bool(os_) and all(r[0] == "param" and r[1] == fn_.def_path and r[2] == own for r, p_ in os_)
                check.expect(ok_, R, key_, hir.loc(n_), "%s forwards its call_or_apply" % fn_.name, "%s does not forward the original `.call`/`.apply` name to %s (%s)" % (fn_.name, tgt.name, sorted(origin_str(o) for o in os_)))
            elif fn_ is proto or fn_.def_path in proto_only:
                ok_ = bool(os_) and all(p_ and p_[-1] == "sym" for r, p_ in os_)
                check.expect(ok_, R, key_, hir.loc(n_), "prototype path passes the original property name", "on the `.call`/`.apply` path %s passes %s instead of the original property name: `.apply` is emitted as `.call`" % (fn_.name, sorted(origin_str(o) for o in os_)))
            else:
                def _is_call_const(r):
                    if r[0] != "const":
                        return False
                    try:
                        return prog.const_str(r[1].split("::")[-1]) == "call"
                    except AnchorMissing:
                        return False

                def _carried(r, p_):
                    # the name travels inside a parameter of this function (a small struct / enum of the crate)
                    return r[0] == "param" and r[1] == fn_.def_path and any(str(q).split(".")[-1] == "call_or_apply" for q in p_)

                none_ = bool(os_) and all((r[0] == "ctor" and r[1].split("::")[-1] == "None") or _is_call_const(r) or (r[0] == "lit" and r[1] == "call") or _carried(r, p_) for r, p_ in os_)
                check.expect(none_, R, key_, hir.loc(n_), "plain path: default `.call` with the receiver inserted", "%s passes %s as call/apply name" % (fn_.name, sorted(origin_str(o) for o in os_)))
    # where the name is put into such a carrier it is the original property name
    for fn_ in prog.user_fns:
        if "call_expr_transform" not in fn_.def_path:
            continue
        for n_ in fn_.nodes():
            if n_.get("k") == "Struct" and not (n_["res"].get("path") or "").startswith("swc_"):
                for fl in n_["fields"]:
                    if fl["name"] == "call_or_apply":
                        n_cop += 1
                        os_ = pv.origins(fn_, fl["e"])
                        ok_ = bool(os_) and all((p_ and p_[-1] == "sym") or (r[0] == "param" and r[1] == fn_.def_path and cop_index(fn_) == r[2]) for r, p_ in os_)
                        check.expect(ok_, R, "%s/call-or-apply/%s/carrier" % (R, fn_.name), hir.loc(n_), "the carried name is the original property name", "%s stores %s as the `.call`/`.apply` name" % (fn_.name, sorted(origin_str(o) for o in os_)))
    check.floor(R, "call_or_apply hand-overs", n_cop, 3)
    # bare calls: [fn ident, undefined] then the arguments
    h = prog.fn("call_expr_transform::replace_call_expr_if_csi_method_without_callee")
    al = [lid for lid, b in h.bindings().items() if b["name"] == "arguments" and b["origin"][0] == "let"]
    evs = [n for n in h.nodes() if hir.is_call(n) and any((hir.local_of(x) or (None,))[0] == al[0] for x in hir.call_args(n))] if al else []
    seq = [ev_name(n) for n in evs if ev_name(n) != "get_dd_paren_expr"]

    def _clones_call(n_):
        """a crate function that hands back the cloned call with its arguments replaced"""
        g_ = prog.resolve_local(n_)
        return g_ is not None and (g_.rec.get("ret") or "").endswith("CallExpr") and any(hir.is_call(y) and (hir.callee_name(y) or "") == "replace_expressions_in_expr_or_spread" for x_ in prog.flat(g_, 2) for y in hir.walk(x_.body))

    ok = seq[:2] == ["push", "push"] and len(seq) == 3 and (seq[2] == "replace_call_callee_and_args" or _clones_call([n for n in evs if ev_name(n) != "get_dd_paren_expr"][2]))
    if ok:
        o1 = pv.origins(h, hir.call_args(evs[0])[1])
        first_is_ident = all((r[0] == "param" and r[2] == 0) or (r[0] == "ctor" and r[1].endswith("Expr::Ident")) for r, p in o1)
        und = [x["lit"]["v"] for x in hir.walk(h.body) if x.get("k") == "Lit" and x["lit"]["t"] == "str"]
        ok = first_is_ident and "undefined" in und
    if not ok and al:
        # the same list however it is put together (`vec![fn, undefined]`, pushes, a constructor helper for `undefined`)
        from . import seqform as SQ

        rcs = [n for n in evs if ev_name(n) == "replace_call_callee_and_args"]
        use = [x for n in rcs[:1] for a_ in hir.call_args(n) for x in hir.walk(a_) if (hir.local_of(x) or (None,))[0] == al[0]]
        if use:
            items = SQ.seq_of(h, use[0], upto=rcs[0]["id"])
            if len(items) == 2 and all(it[0] == "one" for it in items):
                o1 = pv.origins(h, items[0][1])
                first_is_ident = bool(o1) and all((r[0] == "param" and r[2] == 0) or (r[0] == "ctor" and r[1].endswith("Expr::Ident")) for r, p in o1)
                lits = [x["lit"]["v"] for x in hir.walk(items[1][1]) if x.get("k") == "Lit" and x["lit"]["t"] == "str"]
                for x in hir.walk(items[1][1]):
                    g_ = prog.resolve_local(x) if hir.is_call(x) else None
                    if g_ is not None and g_.body is not None:
                        lits += [y["lit"]["v"] for y in hir.walk(g_.body) if y.get("k") == "Lit" and y["lit"]["t"] == "str"]
                ok = first_is_ident and "undefined" in lits
                seq = [SQ.show(items)]
    check.expect(ok, R, R + "/bare-call", hir.loc(h.rec), "bare call: (fn, undefined, args..)", "bare-call hook arguments are %s" % seq)
    # a bare call keeps its callee: `f(x)` stays a call of the identifier `f` (direct eval, with-scope
    # lookup, strictness of the callee resolution); only the member path replaces the callee
    rc = prog.fn("call_expr_transform::replace_call_callee_and_args")
    for n in hir.calls_in(h.body, name="replace_call_callee_and_args"):
        os_ = pv.origins(h, hir.call_args(n)[1])
        none_ = bool(os_) and all(r[0] == "ctor" and r[1].split("::")[-1] == "None" for r, p_ in os_)
        check.expect(none_, R, R + "/bare-callee-kept", hir.loc(n), "bare call: no callee replacement is requested", "the bare-call path asks for the callee to be replaced (%s): `f(x)` is no longer a call of the identifier" % sorted(origin_str(o) for o in os_))
    # the parameter of replace_call_callee_and_args that carries the optional callee temporary (whatever it is called)
    def _carries_callee(ty_):
        """Option<Expr>, or Option<S> for a crate struct S that has an Expr field (the callee with what goes with it)"""
        if "Option<swc_ecma_ast::Expr>" in ty_:
            return True
        m_ = re.search(r"Option<([\w:]+)", ty_)
        if not m_:
            return False
        try:
            adt_ = prog.adt(m_.group(1).split("::")[-1])
        except Exception:
            return False
        return any("swc_ecma_ast::Expr" == re.sub(r"^&(mut )?", "", (f_.get("ty") or "")).replace("std::boxed::Box<", "").rstrip(">") for v_ in (adt_.get("variants") or []) for f_ in (v_.get("fields") or []))
    cal_names = {hir.pat_bindings(p_["pat"])[0]["name"] for p_ in rc.rec.get("params", []) if _carries_callee(p_.get("ty") or "") and hir.pat_bindings(p_["pat"])} or {"ident_callee_expr"}
    writers = []
    for f_ in prog.user_fns:
        for n in f_.nodes():
            if n.get("k") in ("Assign", "AssignOp"):
                l = hir.peel(n["l"])
                if l.get("k") == "Field" and l["field"] == "callee" and "CallExpr" in (l.get("base_ty") or ""):
                    writers.append((f_, n))
    for f_, n in writers:
        atoms = gate.atoms_at(f_, n)
        ok_ = f_ is rc and any(a[0] == "variant" and a[3] is True and str(a[2]).split("::")[-1] == "Some" and (a[1] or "").split("#")[0] in cal_names for a in atoms)
        if not ok_ and f_ is rc:
            # the function replaces the callee on every path, and the bare-call path does not go through it
            # (it clones the call with a helper that leaves the callee alone)
            ok_ = not [a for a in atoms if a[0] not in ("variant",)] and f_.def_path not in {x.def_path for x in prog.flat(h, 3)}
        check.expect(ok_, R, "%s/callee-write/%s" % (R, f_.name), hir.loc(n), "the callee of the cloned call is replaced only when a callee temporary is supplied", "%s overwrites the callee of a call outside the reviewed member path: the emitted call is no longer the original call" % f_.name)
    # the same decision written as a value: `CallExpr { callee: match ident_callee_expr { Some(i) => <member>,
    # None => call.callee.clone() }, .. }`
    built = []
    for n in rc.nodes():
        if n.get("k") == "Struct" and (n["res"].get("path") or "").endswith("swc_ecma_ast::CallExpr"):
            for fl in n["fields"]:
                if fl["name"] == "callee":
                    built.append((n, fl["e"]))
    for n, e_ in built:
        os_ = pv.origins(rc, e_)
        fresh = [(r, p_) for r, p_ in os_ if r[0] == "ctor"]
        kept = [(r, p_) for r, p_ in os_ if r[0] == "param" and r[2] == 0 and "callee" in p_]
        other = [(r, p_) for r, p_ in os_ if (r, p_) not in fresh and (r, p_) not in kept and r[0] not in ("residual",)]
        under_some = True
        for r, p_ in fresh:
            node_ = prog.by_def[r[2]].by_id(r[3]) if len(r) > 3 and r[2] in prog.by_def else None
            at_ = gate.atoms_at(rc, node_) if node_ is not None and r[2] == rc.def_path else []
            under_some = under_some and any(a[0] == "variant" and a[3] is True and str(a[2]).split("::")[-1] == "Some" and (a[1] or "").split("#")[0] in cal_names for a in at_)
        ok_ = bool(kept) and bool(fresh) and under_some and not other
        check.expect(ok_, R, "%s/callee-write/%s" % (R, rc.name), hir.loc(n), "the callee of the emitted call is the member path when a callee temporary is supplied, the original callee otherwise", "%s builds the emitted call with a callee that is not `the supplied temporary's member path, else the original callee` (%s)" % (rc.name, sorted(origin_str(o) for o in os_)))
    check.floor(R, "callee writes", len(writers) + len(built), 1)
    s = prog.fn("call_expr_transform::replace_call_spread_if_csi_method_with_member")
    al = [lid for lid, b in s.bindings().items() if b["name"] == "arguments" and b["origin"][0] == "let"]
    evs = [n for n in s.nodes() if hir.is_call(n) and any((hir.local_of(x) or (None,))[0] == al[0] for x in hir.call_args(n))] if al else []
    seq = [ev_name(n) for n in evs if ev_name(n) != "get_dd_paren_expr"]
    check.expect(seq == ["get_ident_used_in_assignation", "replace_call_callee_and_args"], R, R + "/spread-this", hir.loc(s.rec), "spread this-argument: (callee, ...args)", "spread variant fills arguments as %s" % seq)


def enum_atomize(fn, e):
    """`x == Enum::V` / `x != Enum::V` (a unit variant on one side) as the atom `is:<variant path>` - the same
    atom a `match x { Enum::V => .. }` arm gives; `<place>.spread.is_some()` as `spread-flag`"""
    from . import boolform as BF

    e = hir.peel(e)
    if e.get("k") == "Binary" and e.get("op") in ("Eq", "Ne"):
        sides = [hir.peel_transparent(e["l"]), hir.peel_transparent(e["r"])]
        cps = [(s_.get("res") or {}).get("ctor_path") for s_ in sides if s_.get("k") == "Path" and (s_.get("res") or {}).get("ctor_path")]
        if len(cps) == 1:
            a = BF.atom("is:" + cps[0])
            return a if e["op"] == "Eq" else BF.neg(a)
    if hir.is_call(e) and (hir.callee_name(e) or e.get("method")) in ("is_some", "is_none") and hir.call_args(e) and (hir.place(hir.call_args(e)[0]) or "").endswith(".spread"):
        a = BF.atom("spread-flag")
        return a if (hir.callee_name(e) or e.get("method")) == "is_some" else BF.neg(a)
    if (hir.place(e) or "").endswith(".spread") and "Option" in (e.get("ty") or ""):
        return BF.atom("spread-flag")  # (as an Option-valued scrutinee: Some-ness)
    return None


def value_cases(prog, fn, e, atomize=enum_atomize):
    """[(formula, value expression)] for an expression written as if / else-if / match (or a local initialised
    with one): under which condition it takes which value"""
    from . import boolform as BF

    e0 = hir.peel(e)
    for _ in range(4):
        # Box::new(x) / x.into(): the value is x's
        if hir.is_call(e0) and (hir.callee_name(e0) or e0.get("method")) in ("new", "into", "from") and len(hir.call_args(e0)) == 1 and ("boxed::Box" in ((e0.get("callee") or {}).get("path") or "") or (e0.get("callee") or {}).get("trait", "").startswith("std::convert::")):
            e0 = hir.peel(hir.call_args(e0)[0])
            continue
        l = hir.local_of(e0)
        b = fn.bindings().get(l[0]) if l else None
        if b and b["origin"][0] == "let" and b["origin"][1] is not None and not b["origin"][2] and not fn.assignments_to(l[0]):
            e0 = hir.peel(b["origin"][1])
        else:
            break
    out = []
    for conds, v in hir.decision_paths(e0):
        cs = []
        for ce, cv in conds:
            if ce.get("k") == "PatCond":
                cs.append(BF.from_cond(fn, {"t": "pat", "scrut": ce["scrut"], "pat": ce["pat"], "v": cv}, atomize, prog))
            elif ce.get("k") == "ArmNot":
                cs.append(BF.from_cond(fn, {"t": "arm_not", "scrut": ce["scrut"], "pat": ce["pat"], "guard": ce.get("guard")}, atomize, prog) if cv else BF.TRUE)
            else:
                f_ = BF.from_expr(fn, ce, atomize, prog)
                cs.append(f_ if cv else BF.neg(f_))
        out.append((BF.conj(cs), v))
    return out


def _kind_exhaustive(prog):
    try:
        vs = [v["name"] for v in prog.adt("ident_provider::IdentKind")["variants"]]
    except AnchorMissing:
        vs = ["Expr", "Spread"]
    pre = "is:visitor::ident_provider::IdentKind::"
    return pre, {pre: vs}


def rule_spread_once(check):
    R = "SPREAD-ONCE"
    check.rule(R, "a spread operand is evaluated once: its temporary is assigned `[...operand]` (one spread element) and both the rewritten call and the hook spread that temporary; the kind is chosen from operand.spread.is_some()")
    prog = check.prog
    pv = Prov(prog)
    f = prog.fn("IdentProvider::create_assign_right_operand_expression")
    arrs = [n for n in hir.walk(f.body) if n.get("k") == "Struct" and (n["res"].get("path") or "").endswith("ArrayLit")]
    check.floor(R, "ArrayLit constructions", len(arrs), 1)
    from . import boolform as BF
    KPRE, KEXH = _kind_exhaustive(prog)
    KSPREAD = BF.atom(KPRE + "Spread")
    for n in arrs:
        atoms = gate.atoms_at(f, n)
        prem_k = BF.from_conds(f, [c_ for c_ in f.conds_at(n) if c_["t"] != "closure"], enum_atomize, prog)
        gated = gate.has_eq_gate(atoms, "ident_kind", "IdentKind::Spread", True) or BF.entails(prem_k, KSPREAD, exhaustive=KEXH)
        elems = [x for x in hir.walk(n) if x.get("k") == "Struct" and (x["res"].get("path") or "").endswith("ExprOrSpread")]
        one = len(elems) == 1
        okf = False
        if one:
            ff = {x["name"]: hir.peel(x["e"]) for x in elems[0]["fields"]}
            sp = ff["spread"]
            okf = sp.get("k") == "Call" and (hir.peel(sp["f"]).get("res", {}).get("ctor_path") or "").split("::")[-1] == "Some" and all(r[0] == "param" and r[2] == 1 for r, p in pv.origins(f, ff["expr"]))
        check.expect(gated and one and okf, R, R + "/array-wrap", hir.loc(n), "Spread kind: temp = [...operand]", "spread temporaries are not assigned `[...operand]` under IdentKind::Spread (gated=%s, one element=%s)" % (gated, one))
        # ... for every spread operand: nothing but the kind decides (a call result, a `new` or an array
        # spread twice is expanded twice: a one-shot iterator yields nothing the second time)
        extra = [a for a in atoms if a[0] not in ("closure",) and not (a[0] == "eq" and any(isinstance(x, str) and x.endswith("IdentKind::Spread") for x in a[1:3]))]
        if extra and all(BF.entails([KSPREAD], p_, exhaustive=KEXH) for p_ in prem_k):
            extra = []  # the same gate written as a match arm: nothing but the kind decides
        check.expect(not extra, R, R + "/array-wrap-every-spread", hir.loc(n), "every Spread operand gets the copy", "the `[...operand]` copy of a spread operand additionally depends on %s: an operand that is not copied is spread twice - in the call and in the hook's argument list" % "; ".join(re.sub(r"#\d+", "", (hir.describe(a[-1]) if isinstance(a[-1], dict) and "k" in a[-1] else str(a[:4])))[:80] for a in extra))
    g = prog.fn("IdentProvider::get_expr_or_spread")
    lits = [n for n in hir.walk(g.body) if n.get("k") == "Struct" and (n["res"].get("path") or "").endswith("ExprOrSpread")]
    for n in lits:
        sp = [x["e"] for x in n["fields"] if x["name"] == "spread"][0]
        vals = []
        for v in __import__("iast.prov", fromlist=["value_exprs"]).value_exprs(gate._resolve_bool_local(g, sp)) if False else []:
            pass
        l = hir.local_of(sp)
        init = g.bindings()[l[0]]["origin"][1] if l else sp
        init = hir.peel(init)
        ok = init.get("k") == "If"
        if ok:
            at = gate.atom(g, {"t": "bool", "e": init["cond"], "v": True})
            cond_ok = at[0] == "eq" and at[3] is True and any(isinstance(x, str) and x.endswith("IdentKind::Spread") for x in (at[1], at[2]))
            th = hir.peel(init["then"])
            el = hir.peel(init["else"])
            then_some = any(x.get("k") == "Call" and (hir.peel(x["f"]).get("res", {}).get("ctor_path") or "").split("::")[-1] == "Some" for x in hir.walk(th))
            else_none = any(x.get("k") == "Path" and (x["res"].get("ctor_path") or "").split("::")[-1] == "None" for x in hir.walk(el))
            ok = cond_ok and then_some and else_none
        if not ok:
            # any other way of writing "Some(..) exactly for the Spread kind" (a match on the kind, ..)
            cases = value_cases(prog, g, sp)
            okc = bool(cases)
            for fml, v in cases:
                v0 = hir.peel(v) if v is not None else {}
                is_some_v = v0.get("k") == "Call" and (hir.peel(v0["f"]).get("res", {}).get("ctor_path") or "").split("::")[-1] == "Some"
                is_none_v = v0.get("k") == "Path" and ((v0.get("res") or {}).get("ctor_path") or "").split("::")[-1] == "None"
                goal = KSPREAD if is_some_v else (BF.neg(KSPREAD) if is_none_v else None)
                okc = okc and goal is not None and BF.entails([fml], goal, exhaustive=KEXH) and BF.entails([goal], fml, exhaustive=KEXH)
            ok = okc
        check.expect(ok, R, R + "/spread-iff-kind", hir.loc(n), "argument is spread iff kind == Spread", "get_expr_or_spread does not spread exactly the Spread kind")
    # the kind travels with the operand: inside the operand handler every callee that takes an
    # IdentKind receives the caller's own IdentKind parameter (never a constant, never dropped)
    n_kind = 0
    for g in prog.user_fns:
        if "OperandHandler" not in g.def_path or g.name == "replace_expressions_in_expr_or_spread":
            continue
        takes_operand = any(core_type(p["ty"]).endswith("swc_ecma_ast::Expr") for p in g.rec["params"])
        if not takes_operand:
            continue
        kind_params = [i for i, p in enumerate(g.rec["params"]) if p["ty"].endswith("IdentKind")]
        for n in g.nodes():
            if not hir.is_call(n):
                continue
            tgt = prog.resolve_local(n)
            if tgt is None:
                continue
            # find the argument positions of the callee that are of type IdentKind
            off = 0
            cps = tgt.rec.get("params", [])
            args = hir.call_args(n)
            for i, p in enumerate(cps):
                if p["ty"].endswith("IdentKind") and i < len(args):
                    n_kind += 1
                    os_ = pv.origins(g, args[i])
                    ok = bool(kind_params) and all(r[0] == "param" and r[1] == g.def_path and r[2] in kind_params for r, pr in os_)
                    check.expect(ok, R, "%s/kind-flow/%s->%s" % (R, g.name, tgt.name), hir.loc(n), "%s passes its own IdentKind on to %s" % (g.name, tgt.name), "%s calls %s with kind %s instead of the kind of the operand it handles: a spread operand is captured or reported un-spread" % (g.name, tgt.name, sorted(origin_str(o) for o in os_)))
                    # the own kind describes the operand the function was handed - not an element
                    # (`elem.expr` of an ExprOrSpread) it has dug out of it: that one has a spread flag of its own
                    for j, q in enumerate(cps):
                        if j < len(args) and "swc_ecma_ast::Expr" in q["ty"] and "ExprOrSpread" not in q["ty"]:
                            dug = [y for y in hir.walk(args[j]) if y.get("k") == "Field" and y.get("field") == "expr" and "ExprOrSpread" in (y.get("base_ty") or "")]
                            check.expect(not dug, R, "%s/kind-of-element/%s->%s" % (R, g.name, tgt.name), hir.loc(n), "no element of an ExprOrSpread list is handled with the kind of its container", "%s hands the `.expr` of an ExprOrSpread element to %s together with its own kind: a spread element `...y` of the list is captured as `t = y` and reported to the hook un-spread" % (g.name, tgt.name))
    check.floor(R, "IdentKind hand-overs inside the operand handler", n_kind, 1)
    h = prog.fn("OperandHandler::replace_expressions_in_expr_or_spread")
    kinds = [n for n in hir.walk(h.body) if n.get("k") == "If"]
    ok = False
    for n in kinds:
        c = hir.peel(n["cond"])
        if hir.is_call(c) and (hir.callee_name(c) or c.get("method")) == "is_some" and (hir.place(hir.call_args(c)[0]) or "").endswith(".spread"):
            th = _ctor_name(hir.peel(n["then"]))
            el = _ctor_name(hir.peel(n["else"]))
            ok = (th or "").endswith("IdentKind::Spread") and (el or "").endswith("IdentKind::Expr")
    if not ok:
        # the same decision as a match on `operand.spread`, or any other if / match form
        SF = BF.atom("spread-flag")
        for n in [x for x in hir.walk(h.body) if x.get("k") in ("If", "Match") and (x.get("ty") or "").endswith("IdentKind")]:
            cases = value_cases(prog, h, n)
            okc = bool(cases)
            for fml, v in cases:
                cn = (_ctor_name(hir.peel(v)) or "") if v is not None else ""
                goal = SF if cn.endswith("IdentKind::Spread") else (BF.neg(SF) if cn.endswith("IdentKind::Expr") else None)
                okc = okc and goal is not None and BF.entails([fml], goal) and BF.entails([goal], fml)
            ok = ok or okc
    check.expect(ok, R, R + "/kind-from-operand", hir.loc(h.rec), "kind = Spread iff operand.spread.is_some()", "the ident kind is not derived from operand.spread.is_some()")
    # IdentKind::Spread is produced only there (and consumed by comparison in the assignment builder)
    sp_sites = _enum_value_sites(prog, "IdentKind::Spread")
    stray = [(f_, n_) for f_, n_ in sp_sites if f_ is not h]
    check.expect(bool(sp_sites) and not stray, R, R + "/spread-kind-sites", hir.loc(stray[0][1]) if stray else hir.loc(h.rec), "IdentKind::Spread is produced only from operand.spread.is_some()", "IdentKind::Spread is passed in %s for an operand that is not a spread element: it is captured as `[...operand]` and reported spread" % sorted({f_.name for f_, _ in stray}))


# ---------------------------------------------------------------------------------------------
# C01


ORDER_TABLE = {"BinExpr": ["left", "right"], "AssignExpr": ["left", "right"], "MemberExpr": ["obj", "prop"], "CallExpr": ["callee", "args"], "CondExpr": ["test", "cons", "alt"], "OptCall": ["callee", "args"], "NewExpr": ["callee", "args"]}
REORDER = {"rev", "reverse", "sort", "sort_by", "sort_by_key", "sort_unstable", "sort_unstable_by", "swap", "swap_remove", "rotate_left", "rotate_right", "dedup", "retain", "remove", "pop", "truncate", "drain", "split_off", "insert"}


def _full_forward_drain(f, n):
    """`v.drain(..)` over the full range whose iterator is consumed completely and in order (map / inspect /
    enumerate, then collect / for_each / extend / a for loop)"""
    a = hir.call_args(n)
    if len(a) < 2 or "RangeFull" not in (hir.peel(a[1]).get("ty") or ""):
        return False
    cur = n
    for _ in range(8):
        par = f.parent(cur)
        while par is not None and par.get("k") in ("DropTemps", "Use", "AddrOf"):
            cur, par = par, f.parent(par)
        if par is None:
            return False
        if par.get("k") == "MethodCall" and hir.peel(par["recv"]) is hir.peel(cur):
            if par["method"] in ("map", "inspect", "enumerate", "by_ref", "into_iter", "chain"):
                cur = par
                continue
            return par["method"] in ("collect", "for_each", "count")
        if hir.is_call(par) and (hir.callee_name(par) or "") in ("into_iter", "extend", "from_iter"):
            cur = par
            if (hir.callee_name(par) or "") == "into_iter":
                continue
            return True
        if par.get("k") == "Match" and par.get("source", "").startswith("ForLoop"):
            return True
        return False
    return False


_HOIST_BASE = {"replace_expressions_in_expr": 0, "replace_expressions_in_expr_or_spread": 0, "replace_default": 0, "get_ident_used_in_assignation": 1, "get_temporal_ident_used_in_assignation": 1}
_HP_MEMO = {}


def _hoisted_positions(prog, call, depth=0):
    """argument positions (call_args indexing) of `call` whose value is hoisted / replaced by the callee - directly
    (the operand parameter of the operand handler and of the temp helper) or through a crate helper that hands
    its parameter on to one; None when the callee is not a crate function (no refinement)"""
    name = hir.callee_name(call) or call.get("method") or ""
    if name in _HOIST_BASE:
        return {_HOIST_BASE[name]}
    h = prog.resolve_local(call)
    if h is None or h.body is None or depth > 3:
        return None
    if h.def_path in _HP_MEMO:
        return _HP_MEMO[h.def_path]
    _HP_MEMO[h.def_path] = None
    out = set()
    found_inner = False
    off = 0
    for c in h.nodes():
        if not hir.is_call(c) or c is call:
            continue
        hp = _hoisted_positions(prog, c, depth + 1)
        if not hp:
            continue
        found_inner = True
        ca = hir.call_args(c)
        for i_ in hp:
            if i_ < len(ca):
                l_ = hir.local_of(hir.peel_transparent(ca[i_]))
                b_ = h.bindings().get(l_[0]) if l_ else None
                if b_ and b_["origin"][0] == "param" and not b_["origin"][2]:
                    out.add(b_["origin"][1])
    res = out if found_inner and out else None
    _HP_MEMO[h.def_path] = res
    return res


def rule_order(check):
    R = "ORDER"
    check.rule(R, "evaluation order is the order of pushes into `assignations`: no reordering operation on operand collections (the one reviewed exception inserts the this-argument at index 0); operands of one node are hoisted in ECMAScript order (left before right, object before property, callee before arguments); operand collections are iterated forwards")
    prog = check.prog
    n_scanned = 0
    for f in xform_fns(prog):
        if f.file.endswith("block_transform_visitor.rs"):
            continue
        for n in f.nodes():
            if n.get("k") != "MethodCall":
                continue
            name = n["method"]
            rty = hir.peel(n["recv"]).get("ty") or ""
            is_coll = any(t in rty for t in ("Vec<swc_ecma_ast::Expr>", "Vec<swc_ecma_ast::ExprOrSpread>", "Vec<std::boxed::Box<swc_ecma_ast::Expr>>", "Vec<std::option::Option<swc_ecma_ast::ExprOrSpread>>", "[swc_ecma_ast::ExprOrSpread]", "[swc_ecma_ast::Expr]", "Iter<", "IterMut<", "Skip<", "Map<", "Rev<"))
            if not is_coll:
                continue
            n_scanned += 1
            if name in REORDER:
                key = "%s/reorder/%s/%s" % (R, f.name, name)
                if name == "drain" and _full_forward_drain(f, n):
                    check.ok(R, key, hir.loc(n), "drain(..) of the whole collection, consumed front to back by element-wise adapters: same elements, same order")
                elif name == "insert" and hir.lit_value(hir.call_args(n)[1]) == 0 and _emitted_call_args(f, n["recv"]):
                    check.ok(R, key, hir.loc(n), "reviewed: the this-argument is inserted at index 0 of the emitted .call (CALL-SIGNATURE checks what is inserted)")
                else:
                    check.bad(R, key, hir.loc(n), "%s() on an operand collection changes the order in which operands are evaluated or reported" % name)
    check.floor(R, "operand-collection method calls scanned", n_scanned, 15)
    # ES order of hoisting inside one function
    pairs = 0
    for f in xform_fns(prog):
        evs = []
        for n in f.nodes():
            if not hir.is_call(n):
                continue
            a = hir.call_args(n)
            # a hoisting step is handed the accumulator of assignments: by its usual names, as a field of a
            # struct that groups the accumulators, or simply as the `&mut Vec<Expr>` it is
            def _is_acc(x):
                pl_ = hir.place(x, transparent=True) or ""
                ty_ = (hir.peel(x).get("aty") or hir.peel(x).get("ty") or "")
                return "assignations" == (hir.local_of(x) or (0, ""))[1] or pl_.endswith(".assignments") or pl_.endswith(".assignations") or (ty_.replace(" ", "").startswith("&mutstd::vec::Vec<swc_ecma_ast::Expr>"))

            if not any(_is_acc(x) for x in a):
                continue
            hp_ = _hoisted_positions(prog, n)
            for ix_, x in enumerate(a):
                if hp_ is not None and ix_ not in hp_:
                    continue  # an argument the callee only looks at (the sibling that decides the mode, ..)
                p = hir.place(x, transparent=True)
                if p and "." in p:
                    base, fld = p.rsplit(".", 1)
                    bty = None
                    xx = hir.peel_transparent(x)
                    if xx.get("k") == "Field":
                        bty = core_type(xx.get("base_ty") or "").split("::")[-1]
                    evs.append((n, base, fld, bty))
        for i in range(len(evs)):
            for j in range(i + 1, len(evs)):
                a, b = evs[i], evs[j]
                if a[1] == b[1] and a[3] == b[3] and a[3] in ORDER_TABLE and a[2] != b[2] and a[2] in ORDER_TABLE[a[3]] and b[2] in ORDER_TABLE[a[3]]:
                    if fanout.exclusive(f, a[0], b[0]):
                        continue
                    pairs += 1
                    first, second = (a, b) if a[0]["id"] < b[0]["id"] else (b, a)
                    ok = ORDER_TABLE[a[3]].index(first[2]) < ORDER_TABLE[a[3]].index(second[2])
                    check.expect(ok, R, "%s/es-order/%s/%s" % (R, f.name, a[3]), hir.loc(second[0]), "%s.%s hoisted before %s.%s" % (a[3], first[2], a[3], second[2]), "%s.%s is hoisted before %s.%s: operands are evaluated in the wrong order" % (a[3], first[2], a[3], second[2]))
    check.floor(R, "ordered operand pairs", pairs, 1)
    # forward iteration over operand lists
    for fname in ("TemplateTransform::to_dd_tpl_expr", "call_expr_transform::replace_call_callee_and_args", "OperandHandler::replace_expressions_in_expr"):
        f = prog.fn(fname)
        for n in hir.calls_in(f.body, name="for_each"):
            chain = []
            x = hir.peel(hir.call_args(n)[0])
            while x.get("k") == "MethodCall":
                chain.append(x["method"])
                x = hir.peel(x["recv"])
            ok = [c_ for c_ in chain if c_ not in ("flatten", "by_ref")] in (["iter_mut"], ["iter"])  # flatten() over Option elements keeps the order
            check.expect(ok, R, "%s/forward/%s" % (R, f.name), hir.loc(n), "operands iterated forwards over %s" % (hir.place(x) or "?").split(".")[-1], "%s iterates its operands through %s" % (f.name, chain))
    # the assign transform keeps left/right
    f = prog.fn("AssignAddTransform::to_dd_assign_expr")
    pv = Prov(prog)
    for n in [x for x in hir.walk(f.body) if x.get("k") == "Struct" and (x["res"].get("path") or "").endswith("BinExpr")]:
        flds = {x["name"]: x["e"] for x in n["fields"]}
        lo = {p[0] for r, p in pv.origins(f, flds["left"]) if r[0] == "param" and p}
        ro = {p[0] for r, p in pv.origins(f, flds["right"]) if r[0] == "param" and p}
        check.expect(lo == {"left"} and ro == {"right"}, R, R + "/assign-operands", hir.loc(n), "a += b is treated as a + b", "+= builds the binary expression from left=%s right=%s" % (lo, ro))


_TIGHT_CTORS = {"Paren", "Ident", "Lit", "Call", "Member", "Array", "Object", "Tpl", "This", "New", "Null", "Str", "Num"}


def _operand_cases(prog, f, e, depth=0, seen=None):
    """how an operand of a synthesised binary expression is obtained, case by case:
    ('fresh', ctor) - built here; ('target', ty) - an assignment target (LeftHandSideExpression);
    ('input', guarded) - an expression of the input placed as written (guarded: on a path that excludes
    a binary expression); ('?', what)"""
    from .prov import return_exprs, value_exprs

    seen = seen if seen is not None else set()
    e0 = e
    e = hir.peel(e)
    # clone()/into()/Box::new(..)/Expr::from around the value
    while hir.is_call(e) and (hir.callee_name(e) or e.get("method")) in ("clone", "into", "new", "from", "to_owned", "as_ref", "deref") and hir.call_args(e):
        if (hir.callee_name(e) or e.get("method")) == "new" and "Box" not in ((e.get("callee") or {}).get("path") or "") + ((e.get("callee") or {}).get("resolved") or ""):
            break
        e = hir.peel(hir.call_args(e)[-1] if (hir.callee_name(e) or e.get("method")) in ("new", "from") else hir.call_args(e)[0])
    k = e.get("k")
    is_ctor_call = hir.is_call(e) and "Ctor" in ((e.get("callee") or {}).get("kind") or "")
    if k == "Struct" or is_ctor_call:
        path = (e.get("callee") or {}).get("path") if is_ctor_call else (e.get("res") or {}).get("path") or ""
        nm = path.split("::")[-1].replace("Expr", "").replace("Lit", "") or path.split("::")[-1]
        # Expr::Paren(ParenExpr {..}): the variant says what the node is
        return [("fresh", nm)] if nm in _TIGHT_CTORS else [("?", "a %s built here" % nm)]
    if k in ("If", "Match", "BlockExpr", "Block"):
        out = []
        for v in value_exprs(e):
            out += _operand_cases(prog, f, v, depth, seen)
        if out:
            return out
    if hir.is_call(e):
        g = prog.resolve_local(e)
        if g is not None and depth < 3 and g.def_path not in seen:
            out = []
            for r in return_exprs(g.body):
                out += _operand_cases(prog, g, r, depth + 1, seen | {g.def_path})
            return out or [("?", "call of %s" % g.name)]
        nm = hir.callee_name(e) or e.get("method") or "?"
        if nm in ("get_dd_paren_expr", "get_dd_call_expr"):
            return [("fresh", "Call")]
        return [("?", "call of %s" % nm)]
    loc = hir.local_of(e) if k == "Path" else None
    if loc and loc[0] in f.bindings():
        b = f.bindings()[loc[0]]
        if b["origin"][0] == "let" and b["origin"][1] is not None and ("let", loc[0]) not in seen:
            return _operand_cases(prog, f, b["origin"][1], depth, seen | {("let", loc[0])})
    ty = re.sub(r"^&(mut )?", "", e.get("ty") or "")
    if "SimpleAssignTarget" in ty or "AssignTarget" in ty:
        return [("target", ty.split("::")[-1])]
    if k in ("Path", "Field", "Unary", "Index") or hir.place(e):
        atoms = gate.atoms_at(f, e0)
        guarded = gate.has_call_gate(atoms, "is_bin", False)
        for c_ in f.conds_at(e0):
            if c_["t"] == "pat" and c_["v"] is False and str(hir.pat_variant(c_["pat"])).endswith("Expr::Bin"):
                # excluded: every binary expression, or the sums (the only binary expressions the operand
                # handler keeps in place - KEPT-IN-PLACE)
                import json as _json

                ops = set(re.findall(r"BinaryOp::(\w+)", _json.dumps(c_["pat"])))
                if ops <= {"Add"}:
                    guarded = True
        return [("input", guarded)]
    return [("?", hir.describe(e)[:60])]


def rule_synth_operands(check):
    R = "GROUP"
    prog = check.prog
    lits = []
    for f in prog.user_fns:
        if f.rec.get("in_test"):
            continue
        for n in f.nodes():
            if n.get("k") == "Struct" and ((n.get("res") or {}).get("path") or "").split("::")[-1] == "BinExpr":
                lits.append((f, n))
    check.floor(R, "binary expressions built by the transforms", len(lits), 2)
    for f, n in lits:
        flds = {x["name"]: x["e"] for x in n["fields"]}
        for side in ("left", "right"):
            if side not in flds:
                continue
            cases = _operand_cases(prog, f, flds[side])
            bad = [c for c in cases if c[0] == "?" or (c[0] == "input" and not c[1])]
            key = "%s/synth-operand/%s/%s" % (R, f.name, side)
            check.expect(not bad, R, key, hir.loc(n), "the %s operand of the binary expression built in %s is a primary expression, an assignment target, or an input expression that is not itself a binary expression (%s)" % (side, f.name, sorted(set(str(c[0]) for c in cases))), "the %s operand of the binary expression built in %s is an expression of the input placed as written (%s): the printer adds no parentheses, so a sum there regroups - `a += 1 + 2` is emitted as `t + 1 + 2`, which is `(t + 1) + 2`" % (side, f.name, sorted(set("%s:%s" % c for c in bad))))


HOOK_BUILDERS = ("get_dd_paren_expr", "get_dd_call_expr")


def _arg_list_source(prog, f, a, depth=0):
    """where the list handed over as hook arguments comes from: 'accumulator' (a list some function was lent
    mutably, or that a helper handed back - filled while the operands were replaced), ('param', i) forwarded,
    or ('literal', description): a list written down on the spot that nothing else ever touched"""
    e = hir.peel(a)
    while e.get("k") in ("AddrOf", "Unary") or (hir.is_call(e) and (hir.callee_name(e) or e.get("method")) in ("as_slice", "as_ref", "deref", "as_mut_slice", "borrow") and hir.call_args(e)):
        e = hir.peel(e.get("e") or e.get("x") or hir.call_args(e)[0]) if e.get("k") in ("AddrOf", "Unary") else hir.peel(hir.call_args(e)[0])
    base = e
    while base.get("k") == "Field":
        base = hir.peel(base["x"])
    loc = hir.local_of(base) if base.get("k") == "Path" else None
    if not loc or loc[0] not in f.bindings():
        return "accumulator" if e.get("k") not in ("Array",) else ("literal", hir.describe(e)[:70])
    b = f.bindings()[loc[0]]
    if b["origin"][0] == "param" and base is e:
        return ("param", b["origin"][1])
    # lent mutably to anything (the operand handler, the identifier provider, push ..)?
    for n in f.nodes():
        if n.get("k") == "AddrOf" and n.get("mut") is True:
            inner = hir.peel(n.get("e") or n.get("x") or {})
            while inner.get("k") == "Field":
                inner = hir.peel(inner["x"])
            l2 = hir.local_of(inner) if inner.get("k") == "Path" else None
            if l2 and l2[0] == loc[0]:
                return "accumulator"
        if n.get("k") == "MethodCall" and n.get("method") in ("push", "extend", "append", "insert", "extend_from_slice"):
            inner = hir.peel(n["recv"])
            while inner.get("k") in ("Field", "AddrOf"):
                inner = hir.peel(inner.get("x") or inner.get("e"))
            l2 = hir.local_of(inner) if inner.get("k") == "Path" else None
            if l2 and l2[0] == loc[0]:
                return "accumulator"
    if b["origin"][0] == "let" and b["origin"][1] is not None and base is e:
        init = hir.peel(b["origin"][1])
        d_ = hir.describe(init)
        if init.get("k") == "Array" or "into_vec" in d_[:80] or "box_assume_init_into_vec" in d_[:80]:
            return ("literal", "Array" if init.get("k") == "Array" else "vec![..]")
        if depth < 3 and init.get("k") in ("Path", "AddrOf"):
            return _arg_list_source(prog, f, init, depth + 1)
    return "accumulator"


def rule_hook_args_source(check):
    R = "HOOK-ARGS"
    check.rule(R, "the argument list handed to a hook builder (get_dd_paren_expr / get_dd_call_expr) is the accumulator that the operand handler and the identifier provider filled while they replaced the operands of the very expression handed over with it (a local `Vec::new()` passed on by `&mut`, or a parameter forwarded from such a site): never a list put together on the spot from copies of the input's operands - those operands would stay in place in the wrapped expression *and* be evaluated a second time only to tell the hook their value")
    prog = check.prog
    sites = []
    for f in prog.user_fns:
        if f.rec.get("in_test"):
            continue
        for n in f.nodes():
            if hir.is_call(n) and (hir.callee_name(n) or "") in HOOK_BUILDERS and prog.resolve_local(n) is not None:
                sites.append((f, n))
    check.floor(R, "hook builder call sites", len(sites), 4)

    def judge(f, n, idx, depth=0):
        a = hir.call_args(n)
        if idx >= len(a):
            return ["?"]
        src = _arg_list_source(prog, f, a[idx])
        if src == "accumulator":
            return []
        if isinstance(src, tuple) and src[0] == "literal":
            return ["%s written down in %s, never lent to the operand handler" % (src[1], f.name)]
        if isinstance(src, tuple) and depth < 3:
            ups = [(cf, c) for cf, c in prog.sites_calling(f) if hir.is_call(c)]
            if not ups:
                return ["parameter %s of %s, which nothing calls" % (src[1], f.name)]
            out = []
            for cf, c in ups:
                out += judge(cf, c, src[1], depth + 1)
            return out
        return ["%s in %s" % (src, f.name)]

    for f, n in sites:
        g = prog.resolve_local(n)
        idxs = [i for i, p in enumerate(g.rec.get("params") or []) if "ExprOrSpread" in (p.get("ty") or "")]
        if len(idxs) != 1:
            check.bad(R, "%s/%s/signature" % (R, f.name), hir.loc(n), "%s has no single argument-list parameter" % g.name)
            continue
        bad = judge(f, n, idxs[0])
        check.expect(not bad, R, "%s/%s/%s" % (R, f.name, g.name), hir.loc(n), "the hook arguments are the accumulator filled while the operands were replaced", "the hook arguments given to %s are not the operand accumulator: %s - the operands listed there are still in place in the wrapped expression, so each is evaluated twice and the hook is told the value of the second evaluation" % (g.name, "; ".join(sorted(set(bad)))))


def rule_hoist_paren(check):
    R = "GROUP"
    check.rule(R, "an operand hoisted into `temp = <operand>` moves from an Expression / AssignmentExpression position into an AssignmentExpression position: the only extra shape is a top-level comma expression, which must be parenthesised (everything else hoisted is placed as primary expressions: identifiers, literals, parenthesised sequences)")
    prog = check.prog
    pv = Prov(prog)
    f = prog.fn("IdentProvider::create_assign_right_operand_expression")
    rets = return_exprs(f.body)
    kinds = []
    for r in rets:
        for root, proj in pv.origins(f, r):
            if root[0] == "ctor":
                node = prog.by_def[root[2]].by_id(root[3])
                atoms = gate.atoms_at(f, node)
                from . import boolform as BF
                KPRE, KEXH = _kind_exhaustive(prog)
                prem_ = BF.from_conds(f, [c_ for c_ in f.conds_at(node) if c_["t"] != "closure"], enum_atomize, prog)
                is_spread_ = gate.has_eq_gate(atoms, "ident_kind", "IdentKind::Spread", True) or BF.entails(prem_, BF.atom(KPRE + "Spread"), exhaustive=KEXH)
                kinds.append((root[1].split("::")[-1].replace("Lit", "").replace("Expr", "") or root[1].split("::")[-1], "seq" if gate.has_call_gate(atoms, "is_seq", True) else ("spread" if is_spread_ else "?")))
            elif root[0] == "param" and root[2] == 1:
                # bare operand: must be on the !is_seq edge
                clones = [x for x in hir.walk(f.body) if hir.is_call(x) and (hir.callee_name(x) or x.get("method")) == "clone" and hir.local_of(hir.call_args(x)[0]) and f.bindings()[hir.local_of(hir.call_args(x)[0])[0]]["origin"][:2] == ("param", 1)]
                bare = [c for c in clones if fanout.sinks_into_output(f, c) in ("local right_ep", "result") or f.parent(c).get("k") in ("If", "BlockExpr", "Block")]
                for c in clones:
                    par = f.parent(c)
                    if par is not None and par.get("k") in ("Block",) and par.get("tail") is c:
                        atoms = gate.atoms_at(f, c)
                        kinds.append(("bare", "not-seq" if gate.has_call_gate(atoms, "is_seq", False) else "unguarded"))
    want = {("Array", "spread"), ("Paren", "seq"), ("bare", "not-seq")}
    if set(kinds) != want:
        # the same three shapes decided in another way (a match on the kind with a guard, early returns ..):
        # read the value of the function case by case
        from . import boolform as BF
        KPRE, KEXH = _kind_exhaustive(prog)
        SEQ = BF.atom("operand-is-a-sequence")

        def atomize_r(fn_, e):
            e1 = hir.peel(e)
            if hir.is_call(e1) and (hir.callee_name(e1) or e1.get("method")) == "is_seq":
                return SEQ
            return enum_atomize(fn_, e)

        kinds2 = []
        for r in rets:
            # the conditions under which this result is the one returned (an if / match chain around it)
            prem_r = list(BF.from_conds(f, [c_ for c_ in f.conds_at(r) if c_["t"] != "closure"], atomize_r, prog) or [])
            for fml, v in value_cases(prog, f, r, atomize_r):
                if v is None:
                    kinds2.append(("?", "?"))
                    continue
                os_ = pv.origins(f, v)
                for root, proj in os_:
                    if root[0] == "ctor":
                        shape = root[1].split("::")[-1].replace("Lit", "").replace("Expr", "") or root[1].split("::")[-1]
                        how = "spread" if BF.entails(prem_r + [fml], BF.atom(KPRE + "Spread"), exhaustive=KEXH) else ("seq" if BF.entails(prem_r + [fml], SEQ, exhaustive=KEXH) else "?")
                        kinds2.append((shape, how))
                    elif root[0] == "param" and root[2] == 1:
                        kinds2.append(("bare", "not-seq" if BF.entails(prem_r + [fml], BF.neg(SEQ), exhaustive=KEXH) else "unguarded"))
                    else:
                        kinds2.append((origin_str((root, proj)), "?"))
        if set(kinds2) == want:
            kinds = kinds2
    check.expect(set(kinds) == want, R, R + "/assign-right", hir.loc(f.rec), "assignment right side: [...x] | (a, b) parenthesised | bare non-sequence", "assignment right side shapes are %s: a comma expression would be hoisted as `t = a, b`" % sorted(set(kinds)))
    # parentheses of the input are never stripped: a node taken out of ParenExpr.expr (category
    # Expression) would land in the tighter slot its parent occupied and swc prints the tree as given
    n_ret = 0
    for g in xform_fns(prog):
        outs = []
        rty = core_type(g.rec.get("ret") or "")
        if rty.startswith("swc_ecma_ast::") or "swc_ecma_ast::" in (g.rec.get("ret") or ""):
            outs += [(r, "result of %s" % g.name) for r in return_exprs(g.body)]
        for n in g.nodes():
            if hir.is_call(n) and (hir.callee_name(n) or n.get("method")) == "map_with_mut":
                for a in hir.call_args(n)[1:]:
                    cl = hir.peel(a)
                    if cl.get("k") == "Closure":
                        outs += [(r, "in-place replacement in %s" % g.name) for r in return_exprs(cl["body"])]
                    else:
                        h = prog.resolve_local(cl) if hir.is_call(cl) else None
                        dp = hir.def_path_of(cl)
                        h = prog.by_generic_free().get(__import__("iast.engine", fromlist=["x"])._generic_free(dp)) if dp else h
                        if h is not None and h.body is not None:
                            outs += [(r, "in-place replacement by %s" % h.name) for r in return_exprs(h.body)]
            if n.get("k") == "Struct" and (n["res"].get("path") or "").startswith("swc_ecma_ast::"):
                outs += [(fl["e"], "field %s.%s" % (n["res"]["path"].split("::")[-1], fl["name"])) for fl in n["fields"] if "swc_ecma_ast::Expr" in (hir.peel(fl["e"]).get("ty") or "")]
            if n.get("k") == "Assign" and "swc_ecma_ast::Expr" in (hir.peel(n["r"]).get("ty") or "") and "swc_ecma_ast::Expr" in (hir.peel(n["l"]).get("ty") or ""):
                outs.append((n["r"], "assignment into the tree in %s" % g.name))
        for r, where in outs:
            n_ret += 1
            gg = g
            for root, proj in pv.origins(gg, r):
                for i in range(len(proj) - 1):
                    if proj[i] == "Paren.0" and proj[i + 1] == "expr":
                        check.bad(R, "%s/paren-strip/%s" % (R, g.name), hir.loc(r), "%s: the content of a parenthesised input expression is moved out of its parentheses (%s): grouping is lost when printed" % (where, origin_str((root, proj))))
    check.ok(R, R + "/paren-strip-scan", "-", "%d output positions scanned: no input ParenExpr is unwrapped" % n_ret)
    check.floor(R, "output positions scanned for paren stripping", n_ret, 30)
    ca = prog.fn("IdentProvider::create_assign_expression")
    rights = [x["e"] for n in hir.walk(ca.body) if n.get("k") == "Struct" and (n["res"].get("path") or "").endswith("AssignExpr") for x in n["fields"] if x["name"] == "right"]
    ok = len(rights) == 1 and hir.is_call(hir.peel(rights[0])) and hir.callee_name(hir.peel(rights[0])) == "create_assign_right_operand_expression"
    check.expect(ok, R, R + "/single-path", hir.loc(ca.rec), "every hoisted operand goes through create_assign_right_operand_expression", "create_assign_expression builds the right side differently")


def rule_ident_mode(check):
    R = "IDENT-MODE"
    check.rule(R, "an identifier operand may stay in place only if what is evaluated after it is an identifier or literal: the mode for the left operand derives from get_ident_mode(right) and vice versa; get_ident_mode returns Keep only under is_ident() || is_lit(); templates and call arguments always use Replace")
    prog = check.prog
    from . import boolform as BF

    # the function that decides the mode from the sibling operand: returns an IdentMode, takes an expression
    deciders = [h for h in prog.user_fns if (h.rec.get("ret") or "").endswith("IdentMode") and any("swc_ecma_ast::Expr" in (p_.get("ty") or "") for p_ in h.rec.get("params", []))]
    if len(deciders) != 1:
        raise AnchorMissing("the function that derives an IdentMode from the sibling operand (%d candidates)" % len(deciders))
    g = deciders[0]
    entry = prog.fn("BinaryAddTransform::to_dd_binary_expr")
    def _operand_calls(h):
        """calls of h that hoist `<x>.left` / `<x>.right` (directly or through a helper)"""
        out_ = []
        for n_ in h.nodes():
            if not hir.is_call(n_) or n_.get("exp"):
                continue
            hp_ = _hoisted_positions(prog, n_)
            a_ = hir.call_args(n_)
            if hp_ and any(i_ < len(a_) and (hir.place(a_[i_]) or "").split(".")[-1] in ("left", "right") for i_ in hp_):
                out_.append(n_)
        return out_

    fs = [h for h in prog.flat(entry, 3) if len(_operand_calls(h)) >= 2 and h.name != "replace_expressions_in_expr"]
    if not fs:
        raise AnchorMissing("the function of the binary transform that replaces both operands")
    f = fs[0]
    calls = _operand_calls(f)
    check.floor(R, "operand replacements in the binary transform", len(calls), 2)

    def _mode_source(h, call_, depth=0):
        """the expression (in h) whose sibling the decider looks at for this hoisting call"""
        a_ = hir.call_args(call_)
        if (hir.callee_name(call_) or "") in ("replace_expressions_in_expr", "replace_expressions_in_expr_or_spread") and len(a_) > 1:
            m0 = hir.peel(a_[1])
            l0 = hir.local_of(m0)
            if l0 and h.bindings()[l0[0]]["origin"][0] == "let" and h.bindings()[l0[0]]["origin"][1] is not None:
                m0 = hir.peel(h.bindings()[l0[0]]["origin"][1])
            if hir.is_call(m0) and prog.resolve_local(m0) is g and hir.call_args(m0):
                return hir.call_args(m0)[0]
            return None
        hh = prog.resolve_local(call_)
        if hh is None or hh.body is None or depth > 2:
            return None
        for inner in hh.nodes():
            if hir.is_call(inner) and _hoisted_positions(prog, inner):
                srcx = _mode_source(hh, inner, depth + 1)
                lx = hir.local_of(hir.peel_transparent(srcx)) if srcx is not None else None
                bx = hh.bindings().get(lx[0]) if lx else None
                if bx and bx["origin"][0] == "param" and bx["origin"][1] < len(a_):
                    return a_[bx["origin"][1]]
        return None

    for n in calls:
        a = hir.call_args(n)
        hp_n = sorted(_hoisted_positions(prog, n) or {0})
        operand = (hir.place(a[hp_n[0]]) or "").split(".")[-1]
        srcx = _mode_source(f, n)
        src = (hir.place(srcx) or "").split(".")[-1] if srcx is not None else None
        if False:
            pass
        other = {"left": "right", "right": "left"}.get(operand)
        check.expect(src == other, R, "%s/%s" % (R, operand), hir.loc(n), "mode of %s = %s(%s)" % (operand, g.name, src), "the keep/replace mode of binary.%s derives from %s (must be %s(binary.%s))" % (operand, src or hir.describe(a[1]), g.name, other))
    # Keep exactly when the sibling is an identifier or a literal
    PRE = "is:swc_ecma_ast::Expr::"

    def atomize(fn_, e):
        e = hir.peel(e)
        if hir.is_call(e) and (hir.callee_name(e) or e.get("method")) in ("is_ident", "is_lit") and "swc_ecma_ast::Expr" in ((e.get("callee") or {}).get("path") or "") + (hir.peel(hir.call_args(e)[0]).get("ty") or ""):
            return BF.atom(PRE + ("Ident" if (hir.callee_name(e) or e.get("method")) == "is_ident" else "Lit"))
        return None

    goal = BF.disj([BF.atom(PRE + "Ident"), BF.atom(PRE + "Lit")])
    n_ret = 0
    for r in return_exprs(g.body):
        cn = (_ctor_name(r) or "").split("::")[-1]
        prem = BF.from_conds(g, [c for c in g.conds_at(r) if c["t"] != "closure"], atomize, prog)
        if cn == "Keep":
            n_ret += 1
            ok = BF.entails(prem, goal) and all(BF.entails([goal], p_) for p_ in prem)
            check.expect(ok, R, R + "/keep", hir.loc(r), "Keep only if is_ident() || is_lit()", "Keep is returned under %s" % [BF.show(p_) for p_ in prem])
        elif cn == "Replace":
            n_ret += 1
            ok = BF.entails(prem, BF.neg(goal)) and all(BF.entails([BF.neg(goal)], p_) for p_ in prem)
            check.expect(ok, R, R + "/replace", hir.loc(r), "Replace otherwise", "Replace is returned under %s" % [BF.show(p_) for p_ in prem])
    check.floor(R, "Keep / Replace answers of the mode function", n_ret, 2)
    for fname in ("TemplateTransform::to_dd_tpl_expr", "call_expr_transform::replace_call_callee_and_args"):
        h = prog.fn(fname)
        for n in list(hir.calls_in(h.body, name="replace_expressions_in_expr")) + list(hir.calls_in(h.body, name="replace_expressions_in_expr_or_spread")):
            m = (_ctor_name(hir.call_args(n)[1]) or "").split("::")[-1]
            check.expect(m == "Replace", R, "%s/always-replace/%s" % (R, h.name), hir.loc(n), "%s always uses Replace" % h.name, "%s uses mode %s" % (h.name, m or hir.describe(hir.call_args(n)[1])))


# ---------------------------------------------------------------------------------------------
# C02 / C08

ALLOWED_CTORS = {
    "CallExpr", "MemberExpr", "Ident", "IdentName", "ParenExpr", "SeqExpr", "AssignExpr", "BinExpr", "CondExpr", "Null", "ArrayLit", "ExprOrSpread",
    "BlockStmt", "ReturnStmt", "VarDecl", "VarDeclarator", "BindingIdent",
}
ALLOWED_VARIANTS = {
    "Expr::Call", "Expr::Member", "Expr::Ident", "Expr::Paren", "Expr::Seq", "Expr::Assign", "Expr::Bin", "Expr::Cond", "Expr::Lit", "Expr::Array", "Expr::Arrow",
    "Callee::Expr", "MemberProp::Ident", "Lit::Null", "AssignTarget::Simple", "SimpleAssignTarget::Ident", "Pat::Ident", "Stmt::Return", "Stmt::Decl", "Decl::Var",
    "BlockStmtOrExpr::BlockStmt", "ModuleItem::Stmt", "AssignOp::Assign", "BinaryOp::Add", "BinaryOp::EqEq", "VarDeclKind::Let",
}


def rule_inventory(check):
    R = "INVENTORY"
    check.rule(R, "the rewriter constructs only the node kinds that make up instrumentation (hook call, .call/.apply member, temp/namespace/undefined identifiers, parenthesised sequences, plain assignments, + and == null tests, conditional, [...x], block+return for arrows, `let` declarations): a new kind, an assignment operator other than `=`, or a declaration kind other than `let` is something erasure cannot undo")
    prog = check.prog
    seen = {}
    for f in prog.user_fns:
        for n in f.nodes():
            cn = None
            if n.get("k") == "Struct":
                p = n["res"].get("path") or ""
                if p.startswith("swc_ecma_ast::") or p.startswith("swc_ecma_visit::swc_ecma_ast::"):
                    cn = p.split("::")[-1]
                    kind = "struct"
            elif n.get("k") == "Call":
                f0 = hir.peel(n["f"])
                cp = f0.get("res", {}).get("ctor_path") if f0.get("k") == "Path" else None
                if cp and ("swc_ecma_ast::" in cp):
                    cn = "::".join(cp.split("::")[-2:])
                    kind = "variant"
            elif n.get("k") == "Path" and n["res"].get("ctor_path") and "swc_ecma_ast::" in n["res"]["ctor_path"] and n["res"].get("kind", "").startswith("Ctor"):
                par = f.parent(n)
                if par is not None and par.get("k") == "Call" and hir.peel(par["f"]) is n:
                    continue
                # unit variants used as values (operators, kinds) - not in patterns (patterns are not expressions)
                cn = "::".join(n["res"]["ctor_path"].split("::")[-2:])
                kind = "unit"
                cmp_par = par
                if cmp_par is not None and cmp_par.get("k") in ("Binary",) and cmp_par.get("op") in ("Eq", "Ne"):
                    continue  # compared, not constructed
                if cmp_par is not None and cmp_par.get("k") == "AddrOf":
                    gp = f.parent(cmp_par)
                    if gp is not None and gp.get("k") == "Binary" and gp.get("op") in ("Eq", "Ne"):
                        continue
            if cn:
                seen.setdefault((kind, cn), []).append((f, n))
    for (kind, cn), sites in sorted(seen.items()):
        f, n = sites[0]
        if kind == "struct":
            ok = cn in ALLOWED_CTORS or all(_functional_update(g, m) for g, m in sites)
        else:
            ok = cn in ALLOWED_VARIANTS or (kind == "variant" and cn.split("::")[0] in ("Expr", "Callee") and False)
        # passing a matched variant through unchanged (Expr::Lit(literal) re-wrapping an input) is not new structure
        if not ok and kind == "variant" and all(_rewrap(g, m) for g, m in sites):
            check.ok(R, "%s/%s/%s" % (R, kind, cn), hir.loc(n), "%s only re-wraps a matched input node" % cn)
            continue
        check.expect(ok, R, "%s/%s/%s" % (R, kind, cn), hir.loc(n), "%s (%d site%s)" % (cn, len(sites), "" if len(sites) == 1 else "s"), "the rewriter constructs %s, which is not part of the documented instrumentation shapes (%s)" % (cn, ", ".join(sorted({T.short(g) for g, _ in sites}))))
    check.floor(R, "distinct constructed node kinds", len(seen), 25)


def _functional_update(f, n):
    """a struct literal of an AST type whose fields - all but at most two - are copied from the same-named
    fields of one input node of that type: the node is rebuilt, not a new kind of node"""
    if n.get("k") != "Struct":
        return False
    ty = (n["res"].get("path") or "").split("::")[-1]
    copied, roots = 0, set()
    for fl in n["fields"]:
        e = hir.peel_transparent(fl["e"])
        if e.get("k") == "Field" and e["field"] == fl["name"] and ty in (e.get("base_ty") or ""):
            copied += 1
            roots.add(hir.place(e["x"]))
    return copied >= max(1, len(n["fields"]) - 2) and len(roots) == 1


def _rewrap(f, n):
    """Expr::X(v) where v is a binding of a pattern matching the same variant of an input."""
    if n.get("k") != "Call" or len(n["args"]) != 1:
        return False
    l = hir.local_of(n["args"][0])
    if not l:
        return False
    b = f.bindings().get(l[0])
    return bool(b) and b["origin"][0] in ("match",)


def rule_fanout(check):
    R = "FANOUT"
    check.rule(R, "no function copies one input sub-tree into two positions of the constructed output on the same path (every original sub-expression survives exactly once); reviewed exceptions carry a machine-checked side condition")
    prog = check.prog
    cands = fanout.candidates(prog, xform_fns(prog))
    OUT = ("field of", "pushed", "constructor")
    n = 0
    seen = set()
    for f, a, b, ov, sa, sb in cands:
        if not (sa.startswith(OUT) and sb.startswith(OUT)):
            continue
        n += 1
        place = fanout.place_str(f, ov[0] if len(ov[0]) <= len(ov[1]) else ov[1])
        key = "%s/%s/%s" % (R, f.name, place)
        if key in seen:
            continue
        seen.add(key)
        why = _fanout_exception(prog, f, a, b, place)
        if why:
            check.ok(R, key, hir.loc(a), "reviewed exception: %s" % why)
        else:
            check.bad(R, key, hir.loc(b), "%s copies %s into two output positions (%s and %s): the sub-expression is evaluated twice" % (f.name, place, sa, sb))
    check.floor(R, "copy pairs examined", len(cands), 5)


def _fanout_exception(prog, f, a, b, place):
    def _root_local(l_, depth=0):
        """the local a wrapper local stands for: `let this_arg = ExprOrSpread::from(x)` / `Box::new(x)` / `x.into()` -> x"""
        if l_ is None or depth > 3:
            return l_
        b_ = f.bindings().get(l_[0])
        if b_ and b_["origin"][0] == "let" and b_["origin"][1] is not None and not f.assignments_to(l_[0]):
            i_ = hir.peel_transparent(b_["origin"][1])
            if hir.local_of(i_) is not None:
                return _root_local(hir.local_of(i_), depth + 1)
            if hir.is_call(i_) and (hir.callee_name(i_) or i_.get("method")) in ("from", "into", "new") and len(hir.call_args(i_)) == 1:
                inner = hir.local_of(hir.peel_transparent(hir.call_args(i_)[0]))
                if inner is not None:
                    return _root_local(inner, depth + 1)
            if i_.get("k") == "Struct":
                ls_ = {hir.local_of(hir.peel_transparent(x)) for fl in i_["fields"] for x in [fl["e"]] if hir.local_of(hir.peel_transparent(x)) is not None}
                ls_ |= {hir.local_of(hir.peel_transparent(hir.call_args(x)[-1])) for fl in i_["fields"] for x in [hir.peel_transparent(fl["e"])] if hir.is_call(x) and hir.call_args(x) and hir.local_of(hir.peel_transparent(hir.call_args(x)[-1])) is not None}
                if len(ls_) == 1:
                    return _root_local(list(ls_)[0], depth + 1)
        return l_

    locs0 = {_root_local(hir.local_of(hir.call_args(x)[0])) for x in (a, b)}
    l0 = list(locs0)[0] if len(locs0) == 1 and None not in locs0 else None
    b0 = f.bindings().get(l0[0]) if l0 else None
    def _from_temp_helper(e, depth=0):
        for x in hir.walk(e):
            if hir.is_call(x) and (hir.callee_name(x) or x.get("method")) in ("get_ident_used_in_assignation", "get_temporal_ident_used_in_assignation"):
                return True
            lx = hir.local_of(x) if x.get("k") == "Path" else None
            if lx and depth < 2:
                bx = f.bindings().get(lx[0])
                if bx and bx["origin"][0] == "let" and bx["origin"][1] is not None and not f.assignments_to(lx[0]) and _from_temp_helper(bx["origin"][1], depth + 1):
                    return True
        return False

    standin = bool(b0) and b0["origin"][0] == "let" and b0["origin"][1] is not None and _from_temp_helper(b0["origin"][1])
    if standin:
        # both copies are of `ident_replacement`, which is the receiver itself only when no temporary was
        # made, i.e. (side condition) only when the receiver is a literal
        g = prog.fn("IdentProvider::get_temporal_ident_used_in_assignation")
        nones = [r for r in return_exprs(g.body) if (hir.peel(r).get("res", {}).get("ctor_path") or "").split("::")[-1] == "None"]
        ok = bool(nones) and all(gate.has_call_gate(gate.atoms_at(g, r), "is_lit", True) for r in nones)
        locs = {_root_local(hir.local_of(hir.call_args(x)[0])) for x in (a, b)}
        same_local = len(locs) == 1 and None not in locs
        if ok and same_local:
            return "both copy the receiver stand-in, which is the original receiver only when it is a literal (get_temporal_ident_used_in_assignation returns None only under is_lit())"
    if f.name == "get_call_from_base_call" and place.startswith("call_expr.callee"):
        first, second = (a, b) if a["id"] < b["id"] else (b, a)
        between = [x for x in f.nodes() if hir.is_call(x) and (hir.callee_name(x) or x.get("method")) == "map_with_mut" and first["id"] < x["id"] < second["id"] and hir.local_of(hir.call_args(x)[0]) == hir.local_of(hir.call_args(second)[0])]
        if between:
            return "the member expression is replaced in place (map_with_mut) by the one built from the first copy before the second copy is taken"
    return None


def rule_nothing_dropped(check):
    R = "NOTHING-DROPPED"
    check.rule(R, "the wrapped first hook argument is the whole original node after in-place replacement of its operands; every operand list is processed completely (no skip/take/filter except the reviewed this-argument split)")
    prog = check.prog
    pv = Prov(prog)
    for fname, idx in (("binary_add_transform::to_dd_binary_expr_binary", 0), ("TemplateTransform::to_dd_tpl_expr", 0)):
        f = prog.fn(fname)
        for n in hir.calls_in(f.body, name="get_dd_paren_expr"):
            o = pv.origins(f, hir.call_args(n)[0])
            ok = all((r[0] == "param" and r[2] == idx and not p) or (r[0] == "ctor" and r[1].endswith("Expr::Bin")) for r, p in o)
            check.expect(ok, R, "%s/wrapped/%s" % (R, f.name), hir.loc(n), "the hook wraps the whole (rewritten) node", "the hook's first argument is %s" % sorted(origin_str(x) for x in o))
    partial = {"skip", "take", "filter", "step_by", "skip_while", "take_while", "filter_map", "nth", "last", "first", "next"}
    n = 0
    for f in xform_fns(prog):
        if f.file.endswith("block_transform_visitor.rs") or f.file.endswith("visitor_util.rs"):
            continue
        for x in f.nodes():
            if x.get("k") == "MethodCall" and x["method"] in partial:
                rty = hir.peel(x["recv"]).get("ty") or ""
                cpath = (x.get("callee") or {}).get("path", "")
                if not any(t in cpath for t in ("iter::", "slice::", "vec::Vec", "Iterator")):
                    continue
                if any(t in rty for t in ("ExprOrSpread", "swc_ecma_ast::Expr")):
                    # only operand lists of the *input* matter: a list the rewriter fills itself (its
                    # assignations, the lowering's own state) holds nothing that could be left out
                    src = hir.peel(x["recv"])
                    while src.get("k") == "MethodCall" and src["method"] in ("iter", "iter_mut", "into_iter", "as_slice", "as_ref", "clone"):
                        src = hir.peel(src["recv"])
                    pl = hir.place(src, transparent=False) or ""
                    root = pl.split(".")[0]
                    if "#" in root:
                        bnd = f.bindings().get(int(root.split("#")[1]))
                        if bnd and bnd["name"] == "self" and pl.count(".") >= 1:
                            continue  # a field of the transforming visitor itself
                        if bnd and bnd["origin"][0] == "let" and bnd["origin"][1] is not None and hir.is_call(hir.peel(bnd["origin"][1])) and (hir.callee_name(hir.peel(bnd["origin"][1])) in ("new", "with_capacity")):
                            continue  # a vector created here
                    n += 1
                    key = "%s/partial/%s/%s" % (R, f.name, x["method"])
                    if f.name == "get_expression_parts_from_call_or_apply" and x["method"] == "skip" and hir.lit_value(hir.call_args(x)[1]) == 1:
                        check.ok(R, key, hir.loc(x), "reviewed: the this-argument of .call/.apply is split off and handled separately")
                    elif f.name in ("invalid_args",) and x["method"] == "skip":
                        check.ok(R, key, hir.loc(x), "reviewed: predicate over the argument array, builds nothing")
                    elif f.name == "get_call_from_base_call" and x["method"] == "first":
                        check.ok(R, key, hir.loc(x), "reviewed: reads the first assignment of the lowering, builds nothing from operands")
                    else:
                        check.bad(R, key, hir.loc(x), "%s() on an operand list in %s: some operands are left out of the instrumentation" % (x["method"], f.name))
    check.ok(R, R + "/scan", "-", "%d partial-iteration calls on operand lists inspected" % n)


def rule_paren_wrap(check):
    R = "PAREN-WRAP"
    check.rule(R, "every constructed comma sequence is the direct child of a constructed ParenExpr, and the injected conditional is an element of such a sequence")
    prog = check.prog
    seqs = []
    for f in prog.user_fns:
        for n in f.nodes():
            if n.get("k") == "Struct" and (n["res"].get("path") or "").endswith("SeqExpr"):
                seqs.append((f, n))
    check.floor(R, "SeqExpr constructions", len(seqs), 2)
    for f, n in seqs:
        chain = []
        cur = n
        ok = False
        for _ in range(6):
            par = f.parent(cur)
            if par is None:
                break
            if par.get("k") == "Struct" and (par["res"].get("path") or "").endswith("ParenExpr"):
                ok = chain in (["Expr::Seq", "Box::new"], ["Expr::Seq", "new"])
                break
            if par.get("k") == "Call":
                chain.append((_ctor_name(par) or "").split("swc_ecma_ast::")[-1] or (hir.callee_name(par) or "?"))
            cur = par
        check.expect(ok, R, "%s/%s" % (R, f.name), hir.loc(n), "Paren(Seq(..))", "a comma sequence is built without enclosing parentheses in %s (%s)" % (f.name, chain))
    # every returned Seq-containing expr is the Paren
    oc = prog.fn("OptChainTransform::to_dd_cond_expr")
    conds = [n for g_ in prog.flat(oc, 2) for n in hir.walk(g_.body) if n.get("k") == "Struct" and (n["res"].get("path") or "").endswith("CondExpr")]
    pushes = [n for n in hir.calls_in(oc.body, name="push")]
    ok = len(conds) == 1 and any(any(hir.local_of(x) for x in hir.walk(hir.call_args(p)[1])) and (hir.place(hir.call_args(p)[0]) or "").endswith(".assignments") for p in pushes)
    if not ok and len(conds) == 1:
        # however the element list of the sequence is put together: the conditional is one of its elements
        from . import seqform as SQ

        pv_ = Prov(prog)
        for sq in [n for n in hir.walk(oc.body) if n.get("k") == "Struct" and (n["res"].get("path") or "").endswith("SeqExpr")]:
            ex = [x["e"] for x in sq["fields"] if x["name"] == "exprs"]
            items = SQ.seq_of(oc, ex[0], upto=sq["id"]) if ex else []
            for it in items:
                if it[0] == "one":
                    lo_ = pv_.origins(oc, it[1])
                    if lo_ and all(r[0] == "ctor" and r[1].endswith("Expr::Cond") for r, p_ in lo_):
                        ok = True
    check.expect(ok, R, R + "/cond-in-seq", hir.loc(oc.rec), "the null-guard conditional is appended to the parenthesised sequence", "the injected conditional is not part of the parenthesised sequence")


def rule_program_kind(check):
    R = "PROGRAM-KIND"
    check.rule(R, "the program kind is never changed: no Script/Module is constructed, the parser decides with IsModule::Unknown, and both arms of visit_mut_program insert statements only")
    prog = check.prog
    bad = []
    for f in prog.user_fns:
        for n in f.nodes():
            cn = _ctor_name(n) if n.get("k") in ("Struct", "Call") else None
            if cn and cn.split("::")[-1] in ("Script", "Module") and "swc_ecma_ast" in cn:
                bad.append((f, n))
    check.expect(not bad, R, R + "/no-construction", bad[0][1]["sp"] if bad else "-", "no Program/Script/Module construction", "a Script/Module is constructed in %s" % [T.short(f) for f, _ in bad])
    pj = prog.fn("rewriter::parse_js")
    im = [hir.peel(x) for n in hir.calls_in(pj.body, name="parse_js") for x in hir.call_args(n)]
    unknown = [x for x in im if (x.get("res", {}).get("ctor_path") or "").endswith("IsModule::Unknown")]
    check.expect(len(unknown) == 1, R, R + "/is-module-unknown", hir.loc(pj.rec), "parsed with IsModule::Unknown", "the parser is not asked to detect the program kind (IsModule::Unknown)")
    vp = [f for f in overrides_of(prog, "BlockTransformVisitor") if f.name == "visit_mut_program"]
    if vp:
        f = vp[0]
        for n in hir.calls_in(f.body, name="insert"):
            rp = hir.place(hir.call_args(n)[0]) or ""
            if not rp.endswith(".body"):
                continue
            v = [hir.pat_variant(c["pat"]).split("::")[-1] for c in f.conds_at(n) if c["t"] == "pat" and c["v"] and isinstance(hir.pat_variant(c["pat"]), str) and "Program::" in hir.pat_variant(c["pat"])]
            e = hir.peel(hir.call_args(n)[2])
            cn = (_ctor_name(e) or "").split("swc_ecma_ast::")[-1]
            ty = core_type(e.get("ty") or "")
            ok = (v == ["Script"] and ty.endswith("Stmt")) or (v == ["Module"] and cn == "ModuleItem::Stmt")
            check.expect(ok, R, "%s/insert/%s" % (R, v[0] if v else "?"), hir.loc(n), "inserts a statement into the %s body" % (v[0] if v else "?"), "visit_mut_program inserts %s into a %s" % (cn or ty, v))


def rule_optchain_lowering(check):
    R = "OPTCHAIN-LOWERING"
    check.rule(R, "an optional chain is lowered to `(t = <optional part>, t == null ? undefined : <rest>)`: loose equality with the null literal, `undefined` when short-circuited, the lowered chain otherwise, evaluated after the assignments")
    prog = check.prog
    pv = Prov(prog)
    f0 = prog.fn("OptChainTransform::to_dd_cond_expr")
    conds_g = [(g, n) for g in prog.flat(f0, 2) for n in hir.walk(g.body) if n.get("k") == "Struct" and (n["res"].get("path") or "").endswith("CondExpr")]
    check.floor(R, "CondExpr constructions", len(conds_g), 1)
    for f, n in conds_g:
        flds = {x["name"]: x["e"] for x in n["fields"]}
        # test
        to = pv.origins(f, flds["test"])
        tnode = None
        for r, p in to:
            if r[0] == "ctor" and r[1].endswith("Expr::Bin"):
                call = prog.by_def[r[2]].by_id(r[3])
                lit = [x for x in hir.walk(call) if x.get("k") == "Struct" and (x["res"].get("path") or "").endswith("BinExpr")]
                tnode = lit[0] if lit else None
        ok_test = False
        if tnode is not None:
            bf = {x["name"]: hir.peel(x["e"]) for x in tnode["fields"]}
            op_ok = (bf["op"].get("res", {}).get("ctor_path") or "").endswith("BinaryOp::EqEq")
            right_null = any((_ctor_name(x) or "").endswith("Lit::Null") for x in hir.walk(bf["right"]))
            lo = pv.origins(f, [x["e"] for x in tnode["fields"] if x["name"] == "left"][0])
            left_tmp = any(r[0] == "ctor" and r[1].endswith("Expr::Ident") for r, p in lo)
            ok_test = op_ok and right_null and left_tmp
        check.expect(ok_test, R, R + "/test", hir.loc(n), "test = <temp> == null", "the short-circuit test is not `<temp> == null`")
        co = pv.origins(f, flds["cons"])
        und = False
        for r, p in co:
            if r[0] == "ctor" and r[1].endswith("Expr::Ident"):
                call = prog.by_def[r[2]].by_id(r[3])
                def _strs(e_, depth=0):
                    """string literals and crate string constants under e_ (through locals)"""
                    out_ = []
                    for y in hir.walk(e_):
                        if y.get("k") == "Lit" and y["lit"]["t"] == "str":
                            out_.append(y["lit"]["v"])
                        d_ = hir.def_path_of(y) if y.get("k") == "Path" else None
                        if d_:
                            for cp_, crec in prog.consts.items():
                                if cp_ == d_ or cp_.split("::")[-1] == d_.split("::")[-1]:
                                    out_ += [z["lit"]["v"] for z in hir.walk(crec["body"]) if z.get("k") == "Lit" and z["lit"]["t"] == "str"]
                        l2 = hir.local_of(y) if y.get("k") == "Path" else None
                        if l2 and depth < 3:
                            i2 = f.bindings()[l2[0]]["origin"][1] if f.bindings().get(l2[0]) else None
                            if isinstance(i2, dict):
                                out_ += _strs(i2, depth + 1)
                    return out_

                if "undefined" in _strs(call):
                    und = True
                for x in hir.walk(call):
                    l = hir.local_of(x)
                    if l:
                        init = f.bindings()[l[0]]["origin"][1]
                        if init is not None and "undefined" in [y["lit"]["v"] for y in hir.walk(init) if y.get("k") == "Lit"]:
                            und = True
        check.expect(und, R, R + "/cons", hir.loc(n), "short-circuit value = undefined", "the short-circuited value is not the identifier `undefined`")
        ao = pv.origins(f, flds["alt"])
        if f is not f0:
            # built by a helper: what the lowering hands to that parameter
            lifted = set()
            for r, p in ao:
                if r[0] == "param" and r[1] == f.def_path:
                    for h_ in prog.flat(f0, 2):
                        for c_ in hir.calls_in(h_.body):
                            if prog.resolve_local(c_) is f and len(hir.call_args(c_)) > r[2]:
                                lifted |= {(r2, tuple(p2) + tuple(p)) for r2, p2 in pv.origins(h_, hir.call_args(c_)[r[2]])}
                else:
                    lifted.add((r, p))
            ao = lifted
        check.expect(all(r[0] == "param" and r[1] == f0.def_path and r[2] == 0 for r, p in ao) and bool(ao), R, R + "/alt", hir.loc(n), "otherwise: the lowered chain", "the non-null branch is not the lowered chain expression")
    f = f0
    # the lowering is discarded (not_modified) only when nothing was hoisted: the visitor rewrites the
    # chain in place, so a discarded result with assignments would leave references to unassigned temporaries
    from . import boolform as BF

    def _atomize(fn_, e):
        e = hir.peel(e)
        if hir.is_call(e):
            nm = hir.callee_name(e) or e.get("method")
            pl = hir.place(hir.call_args(e)[0]) or ""
            if nm == "is_empty" and pl.endswith(".assignments"):
                return BF.atom("no-assignments")
            if nm in ("is_none", "is_some") and pl.endswith(".new_ident"):
                a = BF.atom("no-ident")
                return a if nm == "is_none" else BF.neg(a)
        return None

    def _ident_pat(c):
        """`let Some(t) = visitor.new_ident.take() else ..` / `match visitor.new_ident {..}`: the same test as is_some()"""
        if c.get("t") != "pat" or c.get("scrut") is None:
            return None
        sc = hir.peel_transparent(c["scrut"])
        while sc.get("k") == "MethodCall" and sc["method"] in ("take", "as_ref", "as_mut", "clone", "as_deref", "as_deref_mut"):
            sc = hir.peel_transparent(sc["recv"])
        if not (hir.place(sc) or "").endswith(".new_ident"):
            return None
        v = str(hir.pat_variant(c["pat"])).split("::")[-1]
        if v not in ("Some", "None"):
            return None
        a = BF.atom("no-ident")
        fml = BF.neg(a) if v == "Some" else a
        return fml if c["v"] else BF.neg(fml)

    def _prem(fn_, node):
        out = []
        for c in fn_.conds_at(node):
            ip = _ident_pat(c)
            out.append(ip if ip is not None else BF.from_cond(fn_, c, _atomize, prog))
        return [x for x in out if x != BF.TRUE]

    nms = [x for x in hir.calls_in(f.body, name="not_modified")]
    check.floor(R, "not_modified exits of the lowering", len(nms), 1)
    for x in nms:
        prem = _prem(f, x)
        ok = BF.entails(prem, BF.disj([BF.atom("no-assignments"), BF.atom("no-ident")]))
        check.expect(ok, R, R + "/discard-only-if-nothing-hoisted", hir.loc(x), "not_modified only if no assignment was made or no temporary was created", "the lowering can be discarded (not_modified) although assignments were hoisted: the chain was already rewritten in place and refers to temporaries that are never assigned")
    # inside the visitor: once the temporary of the lowering is recorded (new_ident = Some(..)), the
    # helper hands back the rewritten node - never None, which would leave the chain un-rewritten next
    # to its hoisted assignment (the optional part evaluated twice)
    n_rec = 0
    for g in prog.user_fns:
        if not (g.rec.get("self_ty") or "").split("<")[0].endswith("OptChainVisitor"):
            continue
        for a in g.nodes():
            if a.get("k") == "Assign" and (hir.place(a["l"]) or "").endswith(".new_ident") and (_ctor_name(hir.peel(a["r"])) or "").split("::")[-1] == "Some":
                n_rec += 1
                blk = None
                for anc in g.ancestors(a):
                    if anc.get("k") == "Block":
                        blk = anc
                        break
                after = []
                seen_ = False
                for st in (blk or {}).get("stmts", []):
                    e_ = st.get("init") if st["k"] == "Let" else st.get("e")
                    if e_ is not None and any(y is a for y in hir.walk(e_)):
                        seen_ = True
                        continue
                    if seen_ and e_ is not None:
                        after.append(e_)
                if blk is not None and "tail" in blk and seen_:
                    after.append(blk["tail"])
                verdict = None
                for e_ in after:
                    for y in hir.walk(e_):
                        if y.get("k") == "Ret" and "x" in y:
                            verdict = (_ctor_name(hir.peel(y["x"])) or "").split("::")[-1] == "Some"
                            break
                    if verdict is not None:
                        break
                if verdict is None and after:
                    verdict = (_ctor_name(hir.peel(after[-1])) or "").split("::")[-1] == "Some"
                check.expect(bool(verdict), R, "%s/rewritten-node-returned/%s" % (R, g.name), hir.loc(a), "after recording the temporary the helper returns Some(<rewritten node>)", "%s records the temporary of the lowering and then returns None: the chain is left as it was next to its hoisted assignment (evaluated twice, not instrumented)" % g.name)
    # the guard variable is the temporary of the *last* hoisted part (the optional link itself): it is
    # overwritten by plain assignment, never kept from an earlier hoist
    keepers = []
    for g in prog.user_fns:
        if not (g.rec.get("self_ty") or "").split("<")[0].endswith("OptChainVisitor"):
            continue
        for x in g.nodes():
            if x.get("k") == "MethodCall" and (hir.place(x["recv"]) or "").endswith(".new_ident") and x["method"] in ("get_or_insert_with", "get_or_insert", "or", "or_else", "insert", "replace", "take", "get_or_insert_default", "xor"):
                keepers.append((g, x))
                n_rec += 1
    for g, x in keepers:
        check.bad(R, "%s/guard-variable/%s" % (R, g.name), hir.loc(x), "the guard variable of the lowering is set with .%s(..): when two temporaries are hoisted (object and member of an optional call) the `== null` test can end up on the wrong one" % x["method"])
    check.floor(R, "places where the lowering records its temporary", n_rec, 1)
    pushes = [x for x in hir.calls_in(f.body, name="push") if (hir.place(hir.call_args(x)[0]) or "").endswith(".assignments")]
    seqs = [x for x in hir.walk(f.body) if x.get("k") == "Struct" and (x["res"].get("path") or "").endswith("SeqExpr")]
    ok = len(pushes) == 1 and len(seqs) == 1 and pushes[0]["id"] < seqs[0]["id"]
    if ok:
        ex = [x["e"] for x in seqs[0]["fields"] if x["name"] == "exprs"][0]
        chain = []
        y = hir.peel(ex)
        while y.get("k") == "MethodCall":
            chain.append(y["method"])
            y = hir.peel(y["recv"])
        # every assignment, front to back: iter_mut().map(take) / drain(..).map(Box::new) / into_iter().map(..)
        full_drain = chain[-1:] == ["drain"] and any(x.get("k") == "MethodCall" and x["method"] == "drain" and _full_forward_drain(f, x) for x in hir.walk(ex))
        ok = chain[:2] == ["collect", "map"] and (chain[2:] in (["iter_mut"], ["into_iter"]) or (chain[2:] == ["drain"] and full_drain)) and (hir.place(y) or "").endswith(".assignments")
    if not ok and len(seqs) == 1:
        # the same, read off the value of `exprs` however it is put together (push + collect, chain(once(..)), ..)
        from . import seqform as SQ

        ex = [x["e"] for x in seqs[0]["fields"] if x["name"] == "exprs"][0]
        items = SQ.seq_of(f, ex, upto=seqs[0]["id"])
        if len(items) == 2 and items[0][0] == "all" and (items[0][1] or "").endswith(".assignments") and items[1][0] == "one":
            lo_ = pv.origins(f, items[1][1])
            ok = bool(lo_) and all(r[0] == "ctor" and r[1].endswith("Expr::Cond") for r, p_ in lo_)
    check.expect(ok, R, R + "/sequence", hir.loc(f.rec), "sequence = assignments in order, conditional last", "the lowered sequence is not [assignments.., conditional] in order")
    # guards: nothing is lowered unless an optional part was extracted
    nm = [x for x in hir.calls_in(f.body, name="not_modified")]
    for x in nm:
        atoms = gate.atoms_at(f, x)
        ok = any(a[0] == "compound" for a in atoms) or any(a[0] == "call" and a[1] in ("is_empty", "is_none") and a[4] is True for a in atoms) or any(_ident_pat(c) is not None for c in f.conds_at(x))
        check.expect(ok, R, R + "/not-modified", hir.loc(x), "not modified when nothing was extracted", "to_dd_cond_expr reports not-modified under other conditions")


def rule_optchain_link_flag(check):
    """OPTCHAIN-LINK-FLAG: a link of an optional chain is `?.` or `.` according to the `optional` flag of its
    OptChainExpr node; code that builds output from the `base` of such a node without looking at the flag turns
    `a?.b` into `a.b` (TypeError on a nullish `a` where the input short-circuits to undefined)."""
    R = "OPTCHAIN-LINK-FLAG"
    check.rule(R, "in the lowering helpers of the optional-chain visitor (the functions that build the replacement call / member), an OptChainExpr is never taken apart (`.base`, or the payload of an `Expr::OptChain(..)` pattern) without its `optional` flag being read in the same function: nested links are left to the visitor's own dispatch, which handles the flag")
    prog = check.prog
    n_fn = 0
    # the functions of the chain visitor and the free helpers of its module (whatever the lowering is split into)
    vis = [g for g in prog.user_fns if (g.rec.get("self_ty") or "").split("<")[0].endswith("OptChainVisitor")]
    mods = {hir.loc(g.rec).split(":")[0] for g in vis}
    for g in prog.user_fns:
        in_scope = (g.rec.get("self_ty") or "").split("<")[0].endswith("OptChainVisitor") or (not g.rec.get("self_ty") and hir.loc(g.rec).split(":")[0] in mods)
        if g.body is None or g.rec.get("gen") or g.rec.get("in_test") or not in_scope:
            continue
        builder = not (g.name or "").startswith("visit_") and (g.rec.get("ret") or "()").strip() not in ("bool", "()")
        if not builder:
            continue  # (a predicate that only looks at the chain builds nothing from it)
        n_fn += 1
        flags = {hir.place(x["x"]) for x in g.nodes() if x.get("k") == "Field" and x["field"] == "optional" and "OptChainExpr" in (x.get("base_ty") or "")}
        flags = {re.sub(r"^\*|^&", "", p_ or "") for p_ in flags}
        taken = []
        for x in g.nodes():
            if x.get("k") == "Field" and x["field"] == "base" and "OptChainExpr" in (x.get("base_ty") or ""):
                taken.append((x, hir.place(x["x"]) or hir.describe(x["x"])))
        # payloads bound by `Expr::OptChain(c)` patterns (match arms, if-let, let-else)
        pats = [a["pat"] for m in g.nodes() if m.get("k") == "Match" for a in m["arms"]] + [m["pat"] for m in g.nodes() if m.get("k") == "LetCond" and "pat" in m]
        for pt in pats:
            for q in hir.walk_pat(pt):
                if str(hir.pat_variant(q)).endswith("Expr::OptChain"):
                    for b_ in hir.pat_bindings(q):
                        uses = [u for u in g.nodes() if hir.local_of(u) and hir.local_of(u)[0] == b_["local"]]
                        if uses:
                            taken.append((uses[0], "%s#%d" % (b_["name"], b_["local"])))
        for x, pl in taken:
            pl_ = re.sub(r"^\*|^&", "", pl or "")
            ok = any(f_ == pl_ or f_.split(".")[0] == pl_.split(".")[0] for f_ in flags)
            check.expect(ok, R, "%s/%s/%s" % (R, g.name, re.sub(r"#\d+", "", pl_)), hir.loc(x), "the flag of the link is read where the link is taken apart", "%s takes the optional-chain link `%s` apart without reading its `optional` flag: an optional link `a?.b` of the input is rebuilt as the plain `a.b`, which throws on a nullish `a` where the input gives undefined" % (g.name, re.sub(r"#\d+", "", pl_)))
    check.floor(R, "lowering helpers of the optional-chain visitor", n_fn, 2)
    check.ok(R, R + "/scan", "-", "%d lowering helpers scanned" % n_fn)


def rule_assigned_in_sequence(check):
    """the C06 reading of FRESH-TEMP ("assigned before it is read")"""
    return rule_fresh_temp(check, only_out_of_sequence=True)


def rule_fresh_temp(check, only_out_of_sequence=False):
    """FRESH-TEMP: one temporary per captured operand position."""
    R = "FRESH-TEMP"
    check.rule(R, "every identifier returned by get_temporal_ident_used_in_assignation is an Ident built on that very path (in the function or in a helper it calls) whose name comes from get_dd_local_variable_name(self.next_ident(), ..), and exactly one assignment `that identifier = <capture of the operand>` is pushed to `assignations` on that path: two operand positions never share a temporary (a shared capture is read at the wrong time and erasure cannot tell the positions apart)")
    prog = check.prog
    g = prog.fn("IdentProvider::get_temporal_ident_used_in_assignation")
    pv = Prov(prog, opaque={"get_dd_local_variable_name", "next_ident", "create_assign_right_operand_expression"})
    rets = return_exprs(g.body)
    somes = [r for r in rets if not (hir.peel(r).get("k") == "Path" and (hir.peel(r)["res"].get("ctor_path") or "").split("::")[-1] == "None")]
    check.floor(R, "Some(..) returns of the temp helper", len(somes), 1)
    opnd_idx = [k for k, prm in enumerate(g.rec["params"]) if any(b_["name"] == "operand" for b_ in hir.pat_bindings(prm["pat"]))]

    def _node(root):
        f_ = prog.by_def.get(root[2])
        try:
            return f_, (f_.by_id(root[3]) if f_ else None)
        except KeyError:
            return f_, None

    def _site_conds(defp, node):
        """path conditions, in g, under which the node (of g or of a helper g calls) runs"""
        if defp == g.def_path:
            return [x for x in g.conds_at(node) if x["t"] != "closure"]
        for c_ in hir.calls_in(g.body):
            h_ = prog.resolve_local(c_)
            if h_ is not None and defp in {x.def_path for x in prog.flat(h_, 3)}:
                return [x for x in g.conds_at(c_) if x["t"] != "closure"]
        return None

    def _key(root):
        return (root[0], root[1], root[2], root[3])

    for i, r in enumerate(somes):
        rconds = [x for x in g.conds_at(r) if x["t"] != "closure"]
        os_ = pv._proj(pv.origins(g, r), ("Some", "0")) or pv.origins(g, r)
        os_ = {o for o in os_ if o[0][0] != "ctor" or o[0][1].split("::")[-1] != "Some"} or os_
        why = []
        idents = [o[0] for o in os_ if o[0][0] == "ctor" and o[0][1].split("::")[-1] == "Ident"]
        bad = [origin_str(o) for o in os_ if o[0] not in idents]
        if bad or not idents:
            why.append("it returns %s" % (", ".join(sorted(bad)) or "an identifier of unknown origin"))
        fresh = bool(idents)
        for root in idents:
            h_, n_ = _node(root)
            if n_ is None or n_.get("k") != "Struct":
                fresh = False
                continue
            sym = [fl["e"] for fl in n_["fields"] if fl["name"] == "sym"]
            so = pv.origins(h_, sym[0], root[4]) if sym else set()
            namers = [o[0] for o in so if o[0][0] == "call" and o[0][1].split("::")[-1] == "get_dd_local_variable_name"]
            if not namers or len(namers) != len({o[0] for o in so if o[0][0] != "residual"}):
                fresh = False
                continue
            for nm in namers:
                hn, cn = _node(nm)
                a_ = hir.call_args(cn) if cn is not None else []
                io = pv.origins(hn, a_[0], nm[4]) if a_ else set()
                ctr = [o[0] for o in io if o[0][0] == "call" and o[0][1].split("::")[-1] == "next_ident"]
                if not ctr or len(ctr) != len(io):
                    fresh = False
                    continue
                for c_ in ctr:
                    hc, cc = _node(c_)
                    if cc is None or _site_conds(c_[2], cc) != rconds:
                        fresh = False
        if idents and not fresh:
            why.append("the name of the returned identifier is not get_dd_local_variable_name(self.next_ident(), ..) drawn on the returning path")
        pushed = 0
        captured_ok = True
        for psh in hir.calls_in(g.body, name="push"):
            if (hir.place(hir.call_args(psh)[0]) or "").split("#")[0] != "assignations" or [x for x in g.conds_at(psh) if x["t"] != "closure"] != rconds:
                continue
            po = pv.origins(g, hir.call_args(psh)[1])
            cand = po | pv._proj(po, ("0",)) | _ctor_args(pv, g, po)
            for o in cand:
                if not (o[0][0] == "ctor" and o[0][1].split("::")[-1] == "AssignExpr"):
                    continue
                ha, na = _node(o[0])
                if na is None or na.get("k") != "Struct":
                    continue
                left = [fl["e"] for fl in na["fields"] if fl["name"] == "left"]
                right = [fl["e"] for fl in na["fields"] if fl["name"] == "right"]
                # the identifier assigned to: the innermost expression of `left` that is an Ident value
                lids = set()
                for x in hir.walk(left[0]) if left else []:
                    if (x.get("ty") or "").endswith("swc_ecma_ast::Ident") or (x.get("aty") or "").endswith("swc_ecma_ast::Ident"):
                        lids |= {_key(o2[0]) for o2 in pv.origins(ha, x, o[0][4]) if o2[0][0] == "ctor" and o2[0][1].split("::")[-1] == "Ident"}
                if lids and lids == {_key(x) for x in idents}:
                    pushed += 1
                    # what is captured: the operand of this call
                    caps = [x for x in hir.walk(right[0]) if hir.is_call(x) and (hir.callee_name(x) or x.get("method")) == "create_assign_right_operand_expression"] if right else []
                    for cp in caps:
                        co = pv.origins(ha, hir.call_args(cp)[1], o[0][4])
                        if not (co and all(o3[0][0] == "param" and o3[0][1] == g.def_path and o3[0][2] in opnd_idx for o3 in co)):
                            captured_ok = False
                    if not caps:
                        captured_ok = False
        if pushed != 1:
            why.append("its assignment is pushed %d times" % pushed)
        elif not captured_ok:
            why.append("the captured value is not the operand")
        ok = not why
        if only_out_of_sequence:
            # hygiene only asks that the temporary is assigned before it is read: one handed out again without an
            # assignment is fine when it is taken from the assignments collected for *this* operation (they sit
            # earlier in the same comma sequence and always run first), not when it is remembered by the provider
            def _from_acc(o, depth=0):
                root = o[0]
                if root[0] == "param":
                    # the accumulator of assignments, by its type (in the helper itself or in a function it is
                    # handed on to): `&mut Vec<Expr>` / `&[Expr]`
                    f2 = prog.by_def.get(root[1])
                    prm = f2.rec["params"][root[2]] if f2 is not None and root[2] < len(f2.rec["params"]) else None
                    ty_ = re.sub(r"^&(mut )?", "", (prm or {}).get("ty") or "")
                    return ty_ in ("std::vec::Vec<swc_ecma_ast::Expr>", "[swc_ecma_ast::Expr]")
                if root[0] == "call" and len(root) >= 5 and depth < 4:
                    h_, n_ = _node(root)
                    if n_ is not None and hir.call_args(n_):
                        ro = pv.origins(h_, hir.call_args(n_)[0], root[4])
                        # (the accumulator stands for its elements too: the assignments pushed into it)
                        elem = lambda o2: o2[0][0] == "ctor" and o2[0][1].split("::")[-1] in ("Assign", "AssignExpr")
                        return any(_from_acc(o2, depth + 1) for o2 in ro) and all(_from_acc(o2, depth + 1) or elem(o2) for o2 in ro)
                return False

            stale = [o for o in os_ if o[0] not in idents and not _from_acc(o)]
            ok = ok or pushed == 1 or not stale
            check.expect(ok, R, "%s/return-%d/assigned" % (R, i) if i else R + "/return/assigned", hir.loc(r), "the temporary handed out is assigned on this path, or taken from the assignments of this very operation", "get_temporal_ident_used_in_assignation hands out a temporary without assigning it, and takes it from the provider's own state (%s) rather than from the assignments collected for this operation: on a path of the rewritten expression that skips the earlier use (`&&`, `||`, `?:`) it is read before it is assigned" % ", ".join(sorted(origin_str(o) for o in stale)))
            continue
        check.expect(ok, R, "%s/return-%d" % (R, i) if i else R + "/return", hir.loc(r), "returns the identifier of the one fresh assignment pushed on this path", "get_temporal_ident_used_in_assignation can hand out a temporary that is not fresh for this operand position (%s): operands share a capture" % "; ".join(why))


def temp_ident_chain(prog):
    """Where the identifiers handed out by get_temporal_ident_used_in_assignation come from, read off the
    provenance of its Some(..) returns (through whatever helpers it is split into):
    [{ret, conds, idents: [(fn, Ident struct node, root)], namers: [(fn, call node, root)], counters: [(fn, call node, root)], other: [origin strings]}]"""
    g = prog.fn("IdentProvider::get_temporal_ident_used_in_assignation")
    pv = Prov(prog, opaque={"get_dd_local_variable_name", "next_ident", "create_assign_right_operand_expression"})
    out = []

    def _node(root):
        f_ = prog.by_def.get(root[2])
        try:
            return f_, (f_.by_id(root[3]) if f_ else None)
        except KeyError:
            return f_, None

    for r in return_exprs(g.body):
        if hir.peel(r).get("k") == "Path" and (hir.peel(r)["res"].get("ctor_path") or "").split("::")[-1] == "None":
            continue
        os_ = pv._proj(pv.origins(g, r), ("Some", "0")) or pv.origins(g, r)
        os_ = {o for o in os_ if o[0][0] != "ctor" or o[0][1].split("::")[-1] != "Some"} or os_
        rec = {"ret": r, "conds": [x for x in g.conds_at(r) if x["t"] != "closure"], "idents": [], "namers": [], "counters": [], "other": [], "g": g, "pv": pv}
        for o in os_:
            root = o[0]
            if not (root[0] == "ctor" and root[1].split("::")[-1] == "Ident"):
                rec["other"].append(origin_str(o))
                continue
            h_, n_ = _node(root)
            if n_ is None or n_.get("k") != "Struct":
                rec["other"].append(origin_str(o))
                continue
            rec["idents"].append((h_, n_, root))
            sym = [fl["e"] for fl in n_["fields"] if fl["name"] == "sym"]
            for o2 in (pv.origins(h_, sym[0], root[4]) if sym else set()):
                if o2[0][0] == "call" and o2[0][1].split("::")[-1] == "get_dd_local_variable_name":
                    hn, cn = _node(o2[0])
                    rec["namers"].append((hn, cn, o2[0]))
                    a_ = hir.call_args(cn) if cn is not None else []
                    for o3 in (pv.origins(hn, a_[0], o2[0][4]) if a_ else set()):
                        if o3[0][0] == "call" and o3[0][1].split("::")[-1] == "next_ident":
                            hc, cc = _node(o3[0])
                            rec["counters"].append((hc, cc, o3[0]))
                        else:
                            rec["other"].append("index " + origin_str(o3))
                elif o2[0][0] != "residual":
                    rec["other"].append("name " + origin_str(o2))
        out.append(rec)
    return out


def _ctor_args(pv, g, origins):
    """origins of the arguments of constructor-call origins (Expr::Assign(assign) -> assign)"""
    out = set()
    for root, proj in origins:
        if root[0] == "ctor" and len(root) >= 5:
            f = pv.prog.by_def.get(root[2])
            try:
                node = f.by_id(root[3]) if f else None
            except KeyError:
                node = None
            if node is not None and node.get("k") == "Call":
                for a in node["args"]:
                    out |= pv.origins(f, a, root[4])
    return out


TS_ONLY_FIELDS = {"optional": False, "definite": False, "declare": False, "type_ann": None, "type_args": None, "type_params": None, "return_type": None, "accessibility": None, "is_abstract": False, "is_override": False, "readonly": False}


def rule_ts_flags(check):
    """TS-FLAGS (C08): constructed nodes never carry TypeScript-only syntax."""
    R = "TS-FLAGS"
    check.rule(R, "every swc node the rewriter builds sets its TypeScript-only fields (Ident.optional, VarDeclarator.definite, VarDecl.declare, type annotations / arguments / parameters) to false / None or copies them from the input node it replaces: the printer would otherwise emit `x?`, `let x!`, `declare let`, which are not JavaScript")
    prog = check.prog
    n_fields = 0
    for f in prog.user_fns:
        for n in f.nodes():
            if n.get("k") != "Struct":
                continue
            p_ = n["res"].get("path") or ""
            if not (p_.startswith("swc_ecma_ast::") or p_.startswith("swc_ecma_visit::swc_ecma_ast::")):
                continue
            if p_.split("::")[-1] in ("OptChainExpr", "OptCall") and False:
                continue
            for fl in n["fields"]:
                if fl["name"] not in TS_ONLY_FIELDS:
                    continue
                if p_.split("::")[-1] in ("OptChainExpr",) and fl["name"] == "optional":
                    continue  # `?.` itself: JavaScript
                n_fields += 1
                e = hir.peel_transparent(fl["e"])
                want = TS_ONLY_FIELDS[fl["name"]]
                v = hir.lit_value(e)
                is_none = e.get("k") == "Path" and (e["res"].get("ctor_path") or "").split("::")[-1] == "None"
                copied = (hir.place(e) or "").split(".")[-1] == fl["name"]
                ok = (want is False and v is False) or (want is None and is_none) or copied
                key = "%s/%s/%s.%s" % (R, T.short(f), p_.split("::")[-1], fl["name"])
                if ok:
                    check.ok(R, key, hir.loc(fl["e"]), "%s = %s" % (fl["name"], "copied from the input node" if copied else want))
                else:
                    check.bad(R, key, hir.loc(fl["e"]), "%s builds a %s with %s = %s: TypeScript-only syntax in the output" % (f.name, p_.split("::")[-1], fl["name"], hir.describe(e)[:60]))
    check.floor(R, "TypeScript-only fields of constructed nodes", n_fields, 8)


def rule_node_rebuild(check):
    """NODE-REBUILD (C01, C08): a node that replaces an original of the same type keeps every field"""
    from .prov import Prov

    R = "NODE-REBUILD"
    check.rule(R, "where a transform builds an AST node of type T while an original node of type T is in scope (a parameter or a matched binding) the new node replaces the original: every field of T is either listed in the literal or taken from the original through the struct base - a base such as `..Default::default()` silently resets the fields that are not listed (is_async, is_generator, type arguments, optional flags ...)")
    prog = check.prog
    pv = Prov(prog)
    n = 0
    for f in prog.user_fns:
        for s in hir.walk(f.body):
            if s.get("k") != "Struct" or not (s["res"].get("krate") or "").startswith("swc_ecma_ast"):
                continue
            ty = s["res"]["path"]
            originals = [p_ for p_ in f.rec.get("params", []) if re.search(r"(^|[^A-Za-z_:])%s($|[^A-Za-z_])" % re.escape(ty), p_.get("ty") or "") and "[" not in (p_.get("ty") or "")]
            if not originals:
                continue
            n += 1
            key = "%s/%s/%s" % (R, f.name, ty.split("::")[-1])
            base = s.get("base")
            adt = prog.adts.get(ty)
            listed = [x["name"] for x in s["fields"]]
            if base is None:
                check.ok(R, key, hir.loc(s), "every field of %s is listed (%s)" % (ty.split("::")[-1], ", ".join(listed)))
                continue
            os_ = pv.origins(f, base)
            from_orig = bool(os_) and all(r[0] == "param" for r, _ in os_)
            all_fields = [x["name"] for x in adt["variants"][0]["fields"]] if adt else []
            dropped = [x for x in all_fields if x not in listed]
            check.expect(from_orig, R, key, hir.loc(s), "the fields not listed are taken from the original node", "the new %s replaces the original one but takes %s from `%s`, not from the original: these fields of the input are lost" % (ty.split("::")[-1], ", ".join(dropped) or "the unlisted fields", re.sub(r"#\\d+", "", hir.describe(base))[:40]))
    check.floor(R, "AST nodes rebuilt next to their original", n, 3)


def deep_origins(prog, pv, f, e, depth=0, seen=None):
    """origins of e with parameters of local helpers followed to the arguments of their call sites"""
    seen = seen or set()
    out = []
    for (r, p) in pv.origins(f, e):
        if r[0] == "param" and depth < 5:
            g = prog.by_def.get(r[1])
            sites = [(cf, n) for cf, n in (prog.sites_calling(g) if g else []) if hir.is_call(n)]
            if sites and (r[1], r[2]) not in seen:
                seen2 = seen | {(r[1], r[2])}
                for cf, n in sites:
                    a = hir.call_args(n)
                    if r[2] < len(a):
                        for (r2, p2) in deep_origins(prog, pv, cf, a[r[2]], depth + 1, seen2):
                            out.append((r2, tuple(p2) + tuple(p)))
                continue
        out.append((r, p))
    return out


def rule_method_name_kept(check):
    """METHOD-NAME-KEPT (C01, C02): the property read from the receiver temporary is the one the input reads"""
    R = "METHOD-NAME-KEPT"
    check.rule(R, "where a transform emits a member access whose property name comes from the input (`<temporary>.<method>` of a method hook), that name is the very identifier of the input's member expression on every path - never one made up on the way (a normalised, resolved or renamed method): otherwise erasing the hook does not give back the input and a receiver that only defines the written name fails")
    prog = check.prog
    pv = Prov(prog)
    n = 0
    for f in xform_fns(prog):
        for s in hir.walk(f.body):
            if not (s.get("k") == "Struct" and (s["res"].get("path") or "").endswith("::MemberExpr")):
                continue
            for fl in s["fields"]:
                if fl["name"] != "prop":
                    continue
                e = hir.peel(fl["e"])
                if not (e.get("k") == "Call" and (hir.peel(e["f"]).get("res", {}).get("ctor_path") or "").endswith("MemberProp::Ident")):
                    continue
                os_ = deep_origins(prog, pv, f, e["args"][0])
                from_input = [o for o in os_ if o[0][0] == "param" and any(str(x).split(".")[-1] in ("prop", "sym") or str(x) == "prop" for x in o[1])]
                if not from_input:
                    continue  # a constant name (`call`, `apply`, the global hook object ...)
                n += 1
                # a constructed value with a projection left over is a node Prov could not look into (or an
                # infeasible projection such as None.1): unknown, not "made up"
                made_up = [o for o in os_ if (o[0][0] in ("ctor", "lit") and not o[1]) or (o[0][0] == "call" and not (o[0][1].split("::")[-1] in ("new", "with_capacity", "default") and ("<T>" in o[0][1] or "Vec" in o[0][1])))]
                check.expect(not made_up, R, "%s/%s" % (R, f.name), hir.loc(s), "the emitted property is the identifier of the input's member expression", "the property of the emitted member access can be %s instead of the name written in the input" % sorted({origin_str(o)[:60] for o in made_up}))
    check.floor(R, "emitted member accesses named after the input", n, 1)


def rule_optchain_spine(check):
    """OPTCHAIN-SPINE (C01, C02, C04): one run of the lowering visitor lowers one chain"""
    R = "OPTCHAIN-SPINE"
    check.rule(R, "the visitor that lowers an optional chain shares one list of hoisted assignments and one guard variable for the whole run, so it must stay on the chain: it does not enter call arguments or computed keys (an optional chain there has a null check of its own: merged into the outer one it guards the wrong value or suppresses a call that the input makes). Those operands are visited afterwards: the OptChain arm of the operation visitor visits the children of the (lowered) expression on every path")
    prog = check.prog
    ovs = {f.name: f for f in overrides_of(prog, "OptChainVisitor")}
    for slot, names in (("call arguments", ("visit_mut_expr_or_spreads", "visit_mut_expr_or_spread")), ("computed keys", ("visit_mut_computed_prop_name",))):
        cut = [ovs[n] for n in names if n in ovs]
        ok = bool(cut) and all(not any(x.get("k") == "MethodCall" and x["method"].startswith("visit_") for x in f.nodes()) for f in cut)
        where = hir.loc(cut[0].rec) if cut else (hir.loc(ovs["visit_mut_expr"].rec) if "visit_mut_expr" in ovs else "-")
        check.expect(ok, R, "%s/%s" % (R, slot.replace(" ", "-")), where, "the lowering visitor does not enter %s" % slot, "the lowering visitor enters the %s of the chain: an optional chain nested there is lowered in the same run and shares the outer chain's guard (`a?.concat(c?.d.trim())` is guarded on `c`, `a?.b(c?.d.trim())` drops the call of b when c is null)" % slot)
    # the operands are visited by the operation visitor afterwards
    from .statusrules import opv_visit_mut_expr

    f = opv_visit_mut_expr(prog)
    low = [n for g in prog.flat(f, 1) for n in hir.calls_in(g.body, name="to_dd_cond_expr") if g is f or (g.rec.get("self_ty") or "") == (f.rec.get("self_ty") or "")]
    check.floor(R, "lowering calls in the operation visitor", len(low), 1)
    for n in low:
        g = [g for g in prog.flat(f, 1) if any(x is n for x in g.nodes())][0]
        later = [x for x in g.nodes() if x.get("k") == "MethodCall" and x["method"] == "visit_mut_children_with" and x["id"] > n["id"] and "OperationTransformVisitor" in (hir.peel(x["args"][0]).get("ty") or "") if x["args"]]
        same = [x for x in later if [c for c in g.conds_at(x) if c["t"] not in ("closure",)] == [c for c in g.conds_at(n) if c["t"] not in ("closure",)]]
        check.expect(bool(same), R, R + "/operands-visited-afterwards", hir.loc(n), "after the lowering the children of the expression are visited by the operation visitor on every path", "after to_dd_cond_expr the operation visitor does not visit the children of the expression on every path: optional chains in arguments / computed keys are never lowered")


REMOVERS = {"split_off", "remove", "clear", "drain", "truncate", "pop", "swap_remove", "retain", "take", "dedup", "dedup_by", "dedup_by_key"}


def _param_view(f, b, depth=0):
    """is binding b a parameter, or a view into one (bound by a pattern / a let over a place rooted in a
    parameter: `match expr { Expr::Array(array) => ..` with expr: &mut Expr)"""
    o = b["origin"]
    if o[0] == "param":
        return True
    if depth > 6 or o[0] not in ("match", "let") or o[1] is None or _has_copy(o[1]):
        return False
    src = hir.peel_transparent(o[1])
    while src.get("k") == "MethodCall" and src["method"] in ("as_mut", "as_deref_mut", "as_mut_slice", "iter_mut", "unwrap", "expect", "as_mut_array", "as_mut_expr"):
        src = hir.peel_transparent(src["recv"])
    pl = hir.place(src) or ""
    root = pl.split(".")[0]
    if "#" not in root or not root.split("#")[1].isdigit():
        return False
    b2 = f.bindings().get(int(root.split("#")[1]))
    if b2 is None or b2 is b:
        return False
    # an owned local (a clone, a fresh node) is the transform's own
    if o[0] == "let" and hir.peel(o[1]).get("k") in ("Call", "MethodCall") and hir.peel(o[1]) is src:
        return False
    return _param_view(f, b2, depth + 1)


_HOFS = {"for_each", "all", "any", "map", "filter", "filter_map", "find", "find_map", "position", "map_while", "take_while", "skip_while", "inspect", "try_for_each", "fold", "flat_map", "retain", "retain_mut", "for_each_mut"}
_ADAPTERS = {"iter", "iter_mut", "into_iter", "by_ref", "rev", "flatten", "skip", "take", "enumerate", "map", "filter", "filter_map", "map_while", "take_while", "skip_while", "zip", "chain", "as_mut", "as_deref_mut", "peekable", "inspect"}


def _has_copy(e):
    """the expression goes through a copy (clone / to_owned / to_vec ...): what it denotes is the function's own"""
    cur = e
    for _ in range(12):
        if cur is None:
            return False
        k = cur.get("k")
        if k == "MethodCall":
            if cur["method"] in ("clone", "to_owned", "to_vec", "cloned", "to_string", "take", "into"):
                return True
            cur = cur["recv"]
        elif k in ("Field", "Index", "Unary", "AddrOf", "Deref", "DropTemps", "Use", "Cast"):
            cur = cur.get("x") or cur.get("e")
        elif k == "Call":
            return (hir.callee_name(cur) or "") in ("clone", "from", "new")
        else:
            return False
    return False


def _mut_view_of_param(f, e, depth=0):
    """does expression e denote (a mutable view into) an AST node that f received through a parameter?
    places rooted in a parameter, pattern bindings over them, and the elements handed to a closure by an
    iterator chain over them"""
    if depth > 6:
        return False
    if _has_copy(e):
        return False
    e = hir.peel_transparent(e)
    while e.get("k") == "MethodCall" and e["method"] in ("as_mut", "as_deref_mut", "unwrap", "expect", "as_mut_slice"):
        e = hir.peel_transparent(e["recv"])
    pl = hir.place(e) or ""
    root = pl.split(".")[0]
    if "#" not in root or not root.split("#")[1].isdigit():
        return False
    b = f.bindings().get(int(root.split("#")[1]))
    if b is None:
        return False
    o = b["origin"]
    if o[0] == "closure_param":
        call = f.parent(o[1])
        while call is not None and call.get("k") != "MethodCall":
            call = f.parent(call)
        if call is None or call["method"] not in _HOFS:
            return False
        src = hir.peel_transparent(call["recv"])
        while src.get("k") == "MethodCall" and src["method"] in _ADAPTERS:
            src = hir.peel_transparent(src["recv"])
        return _mut_view_of_param(f, src, depth + 1)
    return _param_view(f, b)


def _cond_key(c):
    if c["t"] == "pat":
        return ("pat", hir.place(c.get("scrut") or {}) or (c.get("scrut") or {}).get("id"), str(hir.pat_variant(c["pat"])))
    if c["t"] == "bool":
        return ("bool", (c.get("e") or {}).get("id"))
    return None


_NOT_WRITES = {"clone", "span", "as_mut", "as_ref", "len", "is_empty", "iter", "get", "first", "last", "contains", "eq_ignore_span"}


def _decline_exits(f):
    """nodes at which f produces a declining answer: TransformResult::not_modified(), and - for functions
    that return Option / bool - a `None` / `false` in return position"""
    out = [n for n in f.nodes() if hir.is_call(n) and hir.callee_name(n) == "not_modified"]
    ret = f.rec.get("ret") or ""
    if ret.startswith("std::option::Option<") or ret == "bool":
        for _conds, v in hir.decision_paths(f.body):
            if v is None:
                continue
            v = hir.peel(v)
            if ret == "bool" and v.get("k") == "Lit" and hir.lit_value(v) is False:
                out.append(v)
            elif ret != "bool" and v.get("k") == "Path" and (v.get("res", {}).get("ctor_path") or "").endswith("Option::None"):
                out.append(v)
    return out


def _param_index_of_view(f, e, depth=0):
    """index of the parameter of f that expression e is a mutable view of, or None"""
    e0 = hir.peel_transparent(e)
    pl = hir.place(e0) or ""
    root = pl.split(".")[0]
    if "#" not in root or not root.split("#")[1].isdigit():
        return None
    b = f.bindings().get(int(root.split("#")[1]))
    seen = 0
    while b is not None and seen < 8:
        seen += 1
        o = b["origin"]
        if o[0] == "param":
            return o[1]
        if o[0] in ("match", "let") and o[1] is not None:
            src = hir.peel_transparent(o[1])
        elif o[0] == "closure_param":
            call = f.parent(o[1])
            while call is not None and call.get("k") != "MethodCall":
                call = f.parent(call)
            if call is None:
                return None
            src = hir.peel_transparent(call["recv"])
            while src.get("k") == "MethodCall" and src["method"] in _ADAPTERS:
                src = hir.peel_transparent(src["recv"])
        else:
            return None
        while src.get("k") == "MethodCall" and src["method"] in ("as_mut", "as_deref_mut", "unwrap", "expect", "as_mut_slice", "iter_mut"):
            src = hir.peel_transparent(src["recv"])
        pl = hir.place(src) or ""
        root = pl.split(".")[0]
        if "#" not in root or not root.split("#")[1].isdigit():
            return None
        b = f.bindings().get(int(root.split("#")[1]))
    return None


def _writes_of(prog, f, memo, depth=0):
    """[(node, what, callee-or-None)]: writes to AST nodes f received through a parameter"""
    key = f.def_path
    if key in memo:
        return memo[key]
    memo[key] = []  # cycle: assume nothing more than what is found outside the cycle
    out = []
    for n in f.nodes():
        if n.get("k") in ("Assign", "AssignOp") and _mut_view_of_param(f, n["l"]) and "swc_ecma_ast" in ((hir.peel(n["l"]).get("ty") or "") + " " + (hir.peel(n["l"]).get("base_ty") or "") + " " + (n["l"].get("ty") or "")):
            out.append((n, "an assignment into `%s`" % re.sub(r"#\d+", "", hir.place(n["l"]) or "?"), None))
        elif hir.is_call(n) and not n.get("exp"):
            name = hir.callee_name(n) or n.get("method") or ""
            if name.startswith("visit_") or name in _ADAPTERS or name in _HOFS or name in _NOT_WRITES:
                continue
            for a in hir.call_args(n):
                # the type the callee receives (after auto-ref / reborrow adjustments)
                ty = a.get("aty") or a.get("ty") or hir.peel(a).get("ty") or ""
                if not (ty.startswith("&mut ") and "swc_ecma_ast" in ty):
                    continue
                if not _mut_view_of_param(f, a):
                    continue
                g = prog.resolve_local(n)
                if g is not None and g.body is not None and depth < 4 and not _writes_of(prog, g, memo, depth + 1) and g.def_path != f.def_path:
                    break  # the helper only reads it
                out.append((n, "%s(..) receives a `&mut` view of `%s`" % (name, re.sub(r"#\d+", "", hir.place(hir.peel_transparent(a)) or "?")), g))
                break
    memo[key] = out
    return out


def _violations_nmu(prog, f, memo, vmemo, depth=0):
    """[(write node, what, exit node)] - writes of f that a declining answer can follow"""
    key = f.def_path
    if key in vmemo:
        return vmemo[key]
    vmemo[key] = []
    exits = _decline_exits(f)
    out = []
    if exits:
        order = {n["id"]: i for i, n in enumerate(f.nodes())}
        for w, what, g in _writes_of(prog, f, memo):
            if g is not None and g.def_path != f.def_path:
                # a helper that answers for itself (Option / bool / TransformResult) and never declines after
                # writing: its answer tells whether it wrote, provided it is asked once and its answer is used
                ret = g.rec.get("ret") or ""
                answers = ret.startswith("std::option::Option<") or ret == "bool" or "TransformResult" in ret
                inside = any(a.get("k") in ("Closure", "Loop") for a in f.ancestors(w))
                par = f.parent(w)
                discarded = par is not None and par.get("k") == "Block" and any(st.get("k") in ("Semi", "Expr") and st.get("e") is w for st in par.get("stmts", []))
                if answers and not inside and not discarded and depth < 4 and not _violations_nmu(prog, g, memo, vmemo, depth + 1):
                    continue
            wk = {}
            for c in f.conds_at(w):
                k = _cond_key(c)
                if k:
                    wk[k] = c["v"]
            for x in exits:
                if order.get(x.get("id"), -1) < order[w["id"]]:
                    continue
                if any(_cond_key(c) in wk and wk[_cond_key(c)] != c["v"] for c in f.conds_at(x)):
                    continue
                out.append((w, what, x))
                break
    vmemo[key] = out
    return out


def rule_not_modified_untouched(check):
    """NOT-MODIFIED-UNTOUCHED (C01, C02): a transform that declines has not written to the node it was handed:
    its caller keeps that node and prints it as the original code"""
    R = "NOT-MODIFIED-UNTOUCHED"
    check.rule(R, "in every transform function, no write to the AST node received through a parameter (an assignment into it, a call that receives a `&mut` view of it - directly, through a pattern binding or an iterator chain - and can write; handing it to the visitors excepted) can be followed, on the same path, by a declining answer (not_modified(), or None / false in helpers): the caller keeps the node, so a half-applied replacement - operands already swapped for temporaries whose assignments are then thrown away - is printed as if it were the input. A helper that never declines after writing is trusted to tell through its answer whether it wrote (asked once, answer used)")
    prog = check.prog
    memo, vmemo = {}, {}
    n_fn = n_w = 0
    for f in xform_fns(prog):
        if f.rec.get("gen") or f.body is None or not _decline_exits(f):
            continue
        n_fn += 1
        n_w += len(_writes_of(prog, f, memo))
        # a helper that is only called by other transform functions is judged where it is called: whether the node
        # it writes to is a received one or the caller's own copy is only known there (the call counts as a write
        # of the caller unless the helper never declines after writing)
        callers_ = [cf for cf, cn in prog.sites_calling(f) if hir.is_call(cn) and not cf.rec.get("gen") and not cf.rec.get("in_test")]
        tf_ = {x_.def_path for x_ in xform_fns(prog)}
        if callers_ and all(cf.def_path in tf_ and not (cf.name or "").startswith("visit_") for cf in callers_):
            continue
        for w, what, x in _violations_nmu(prog, f, memo, vmemo):
            check.bad(R, "%s/%s" % (R, f.name), hir.loc(w), "%s: %s, and the path can go on to a declining answer (%s): the caller keeps the node with that write in it and prints it as untouched code" % (f.name, what, hir.loc(x)))
    check.floor(R, "transform functions with a declining answer", n_fn, 5)
    check.ok(R, R + "/inventory", "-", "%d writes to received nodes in %d transform functions that can decline, none followed by a declining answer" % (n_w, n_fn))


def rule_input_untouched(check):
    """INPUT-UNTOUCHED (C01, C02): a transform builds its result next to the input; it never takes parts
    out of the node it was handed, because every transform can still decide not to instrument"""
    R = "INPUT-UNTOUCHED"
    check.rule(R, "no transform removes or moves parts out of an AST node it received through a parameter (split_off / remove / drain / truncate / take / clear / retain ... on a place rooted in a parameter): the caller keeps that node whenever the transform answers `not modified`, so whatever was taken out is missing from code that is printed as if untouched. Results are built from clones (or the node is replaced as a whole by the caller)")
    prog = check.prog
    n_fn = 0
    for f in xform_fns(prog):
        n_fn += 1
        for n in f.nodes():
            if n.get("k") != "MethodCall" or n["method"] not in REMOVERS:
                continue
            pl = hir.place(n["recv"]) or ""
            root = pl.split(".")[0]
            lid = int(root.split("#")[1]) if "#" in root and root.split("#")[1].isdigit() else None
            b = f.bindings().get(lid) if lid is not None else None
            if b is None or not _param_view(f, b):
                continue
            ty = hir.peel(n["recv"]).get("ty") or ""
            if "swc_ecma_ast" not in ty and "swc_ecma_ast" not in (b.get("ty") or ""):
                continue
            if n["method"] == "take" and not hir.call_args(n)[1:]:
                # in-place rewrite: `let Variant(inner) = &mut *node.slot { .. inner.take() .. ; *node.slot = <new value
                # built around what was taken> }` - the slot the part was taken from is overwritten on the same path
                l_ = hir.local_of(hir.peel_transparent(n["recv"]))
                b_ = f.bindings().get(l_[0]) if l_ else None
                slot = None
                if b_ is not None and b_["origin"][0] in ("match", "let") and b_["origin"][1] is not None:
                    slot = hir.place(hir.peel_transparent(b_["origin"][1]))
                slot = slot or hir.place(hir.peel_transparent(n["recv"]))
                order_ = {x["id"]: i_ for i_, x in enumerate(f.nodes())}
                tk_conds = [(c_["t"], str(c_.get("v")), hir.cond_str(c_)) for c_ in f.conds_at(n) if c_["t"] != "closure"]
                refilled = False
                for a_ in f.nodes():
                    if a_.get("k") == "Assign" and order_.get(a_["id"], -1) > order_.get(n["id"], 1 << 30):
                        lp = hir.place(hir.peel_transparent(a_["l"])) or ""
                        ac = [(c_["t"], str(c_.get("v")), hir.cond_str(c_)) for c_ in f.conds_at(a_) if c_["t"] != "closure"]
                        if slot and lp and (slot == lp or slot.startswith(lp + ".")) and all(c_ in tk_conds for c_ in ac):
                            refilled = True
                if refilled and not [x for x in f.nodes() if hir.is_call(x) and hir.callee_name(x) == "not_modified"]:
                    check.ok(R, "%s/%s/take-refill" % (R, f.name), hir.loc(n), "the part is taken out and the slot it came from is overwritten with the value built around it, on the same path (an in-place rewrite that cannot decline)")
                    continue
            if n["method"] in ("take", "drain"):
                # every declining answer lies behind: all `not_modified()` exits are early returns that come
                # before the part is taken, and the taking is not repeated (no loop, no closure)
                order2_ = {x["id"]: i_ for i_, x in enumerate(f.nodes())}
                nms_ = [x for x in f.nodes() if hir.is_call(x) and hir.callee_name(x) == "not_modified"]
                early = bool(nms_) and all(order2_.get(x["id"], 1 << 30) < order2_.get(n["id"], -1) and any(a_.get("k") == "Ret" for a_ in f.ancestors(x)) for x in nms_)
                repeated = any(a_.get("k") in ("Loop", "Closure") for a_ in f.ancestors(n))
                param_root = b["origin"][0] == "param" if b else False
                if early and not repeated and param_root and n["method"] == "take":
                    check.ok(R, "%s/%s/take-after-last-decline" % (R, f.name), hir.loc(n), "the part is taken only after the last point at which the function can still answer `not modified`")
                    continue
            if n["method"] == "drain":
                # `x.elems = x.elems.drain(..).map(f).collect()`: every element is put back, in order
                chain, cur = [], n
                while True:
                    par = f.parent(cur)
                    while par is not None and par.get("k") not in ("MethodCall", "Assign", "Block", "Let") and hir.peel(par) is hir.peel(cur):
                        cur, par = par, f.parent(par)
                    if par is not None and par.get("k") == "MethodCall" and hir.peel(par["recv"]) is hir.peel(cur):
                        chain.append(par["method"])
                        cur = par
                        continue
                    break
                if par is not None and par.get("k") == "Assign" and hir.place(par["l"]) == pl and chain and chain[-1] == "collect" and set(chain[:-1]) <= {"map", "inspect"} and not hir.call_args(n)[1:2] == [] and "RangeFull" in (hir.peel(hir.call_args(n)[1]).get("ty") or ""):
                    check.ok(R, "%s/%s/drain-refill" % (R, f.name), hir.loc(n), "drain(..) mapped element by element and collected back into the same place")
                    continue
            check.bad(R, "%s/%s/%s" % (R, f.name, n["method"]), hir.loc(n), "%s() takes parts out of `%s`, a node handed in by the caller: on every path where %s then answers `not modified` the caller keeps - and prints - the node without them" % (n["method"], re.sub(r"#\d+", "", pl), f.name))
    check.floor(R, "transform functions inspected", n_fn, 20)
    check.ok(R, R + "/inventory", "-", "no removing / moving call on a parameter-rooted AST place in %d transform functions" % n_fn)
