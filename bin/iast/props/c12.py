"""C12 - unmodified files are reported as such and handed back byte for byte; status and content agree.
Decided: print only under Modified; Modified only from hook-built results; prologue/trailer gates;
the values handed to print_js; the JS hand-back of the caller's text."""
from .. import hir, gate
from ..engine import AnchorMissing
from ..prov import Prov, origin_str, return_exprs
from .. import statusrules as S
from . import c15
from .. import jsast


def rule_print_gate(check):
    R = "PRINT-GATE"
    check.rule(R, "Compiler::print is called only from transform_js and only on the path where the final status is Modified; NotModified yields empty code/map and no original map; Cancelled yields Err")
    prog = check.prog
    sites = [(f, n) for f, n, c in prog.call_sites() if hir.is_call(n) and c["name"] == "print" and "Compiler" in c["path"] and not f.rec.get("gen")]
    check.floor(R, "Compiler::print call sites", len(sites), 1)
    from .. import boolform as BF

    MOD, NOT, CAN = (BF.atom("is:Status::" + x) for x in ("Modified", "NotModified", "Cancelled"))

    def knows(f_, node, goal, extra=()):
        prem = S.status_premises(prog, f_, list(extra) + f_.conds_at(node))
        return BF.entails(prem, goal, exhaustive=S.STATUS_EXH)

    for f, n in sites:
        ok_fn = f.name == "transform_js"
        check.expect(ok_fn and knows(f, n, MOD), R, "%s/%s" % (R, f.name), hir.loc(n), "print only where the final status is known to be Modified", "Compiler::print in %s is not guarded by the final status being Modified" % f.name)
    f = prog.fn("rewriter::transform_js")
    # what transform_js hands back, wherever it is built (the function itself or a crate constructor)
    outs = []
    for g in prog.flat(f, 1):
        for n in hir.walk(g.body):
            if n.get("k") == "Struct" and (n["res"].get("path") or "").endswith("RewrittenOutput"):
                if g is f:
                    outs.append((n, f, n, f))
                else:
                    for cn in hir.calls_in(f.body):
                        if prog.resolve_local(cn) is g:
                            outs.append((n, f, cn, g))
    # one literal fed by a `match` on the status (`let (code, map) = match status { Modified => .., NotModified
    # => .. }; Ok(RewrittenOutput { code, .. })`) is as many results as the match has arms that yield a value
    cases = []
    for lit, f_, site, owner in outs:
        flds = {x["name"]: hir.peel(x["e"]) for x in lit["fields"]}
        split = None
        for nm in ("code", "source_map", "original_source_map"):
            l = hir.local_of(flds.get(nm, {})) if owner is f_ else None
            bnd = f_.bindings().get(l[0]) if l else None
            if bnd and bnd["origin"][0] == "let" and isinstance(bnd["origin"][1], dict) and hir.peel(bnd["origin"][1]).get("k") == "Match" and not f_.assignments_to(l[0]):
                m_ = hir.peel(bnd["origin"][1])
                if (hir.place(m_["scrut"]) or "").endswith(".status") and not knows(f_, site, MOD) and not knows(f_, site, NOT):
                    split = m_
        if split is None:
            cases.append((flds, f_, site, owner, None))
            continue
        from ..prov import value_exprs as _vals
        for arm in split["arms"]:
            v_ = hir.pat_variant(arm["pat"])
            vn = str(v_).split("::")[-1]
            if vn not in ("Modified", "NotModified", "Cancelled") or hir.diverges(arm["body"]):
                continue
            vals = [hir.peel(x) for x in _vals(arm["body"])]
            fl2 = dict(flds)
            for nm, e_ in flds.items():
                l = hir.local_of(e_)
                bnd = f_.bindings().get(l[0]) if l else None
                if bnd and bnd["origin"][0] == "let" and isinstance(bnd["origin"][1], dict) and hir.peel(bnd["origin"][1]) is split:
                    proj = bnd["origin"][2] if len(bnd["origin"]) > 2 else ()
                    proj = proj[0] if proj and isinstance(proj[0], tuple) and proj[0] and isinstance(proj[0][0], tuple) else proj
                    idx = [int(p_[1]) for p_ in proj if isinstance(p_, tuple) and p_[0] == "tuple"]
                    if len(vals) == 1 and vals[0].get("k") == "Tup" and idx and idx[0] < len(vals[0]["elems"]):
                        fl2[nm] = hir.peel(vals[0]["elems"][idx[0]])
                    elif len(vals) == 1 and not idx:
                        fl2[nm] = vals[0]
            cases.append((fl2, f_, arm["body"], owner, BF.atom("is:Status::" + vn)))
    check.floor(R, "results built by transform_js", len(cases), 2)
    pvp = Prov(prog)
    n_empty = 0
    for flds, f_, site, owner, arm_status in cases:
        if arm_status is not None:
            knows_here = lambda goal, a_=arm_status: BF.entails([a_], goal, exhaustive=S.STATUS_EXH)
        else:
            knows_here = lambda goal, f2=f_, s2=site: knows(f2, s2, goal)
        code = flds.get("code", {})
        printed = any(r[0] == "call" and r[1].split("::")[-1] == "print" for r, p_ in pvp.origins(owner, code)) or any(c["t"] == "closure" for c in f_.conds_at(site))
        if printed:
            check.expect(knows_here(MOD), R, R + "/printed-result", hir.loc(site), "the printed result is returned only for Modified", "a printed result is returned on a path where the status is not known to be Modified")
            continue
        n_empty += 1
        detail = []
        ok = knows_here(NOT)
        for nm in ("code", "source_map"):
            e = flds.get(nm, {})
            empty = (hir.is_call(e) and hir.callee_name(e) in ("default", "new") and "String" in (e["callee"]["path"] + e.get("ty", ""))) or hir.lit_value(e) == ""
            ok = ok and empty
            detail.append("%s=%s" % (nm, "empty" if empty else hir.describe(e)))
        osm = flds.get("original_source_map", {})
        def _no_map(e_, depth=0):
            """an OriginalSourceMap without a map and without a comment: the literal with two `None`s, the
            derived default, or a crate constructor all of whose results are one of these"""
            e_ = hir.peel(e_)
            if e_.get("k") == "Struct":
                ns_ = [x for x in hir.walk(e_) if x.get("k") == "Path" and (x["res"].get("ctor_path") or "").split("::")[-1] == "None"]
                return len(ns_) == 2 and len(e_.get("fields", [])) == 2
            if hir.is_call(e_):
                h_ = prog.resolve_local(e_)
                if h_ is not None and h_.body is not None and not h_.rec.get("gen") and depth < 3:
                    from ..prov import return_exprs as _re
                    rs_ = _re(h_.body)
                    return bool(rs_) and all(_no_map(r_, depth + 1) for r_ in rs_)
                return hir.callee_name(e_) == "default"
            return False

        no_map = _no_map(osm)
        ok = ok and no_map
        check.expect(ok, R, R + "/not-modified-empty", hir.loc(site), "NotModified: %s, no original map" % ", ".join(detail), "the non-printed result is not empty or not confined to NotModified: %s%s" % (", ".join(detail), "" if no_map else ", original map present"))
    check.expect(n_empty >= 1, R, R + "/arms", hir.loc(f.rec), "transform_js has a printed (Modified) and an empty (NotModified) result", "transform_js builds no empty result for NotModified")
    # Cancelled is an error: some Err(..) value is produced where the status is known to be Cancelled,
    # and the two results above exclude it (they imply Modified / NotModified)
    errs = [x for x in hir.walk(f.body) if x.get("k") == "Call" and (hir.peel(x["f"]).get("res", {}).get("ctor_path") or "").split("::")[-1] == "Err"]
    ok = any(knows(f, x, CAN) for x in errs)
    check.expect(ok, R, R + "/cancelled-err", hir.loc(errs[0]) if errs else hir.loc(f.rec), "Cancelled returns Err", "Cancelled does not return Err")


def rule_prologue_trailer(check):
    R = "PROLOGUE-TRAILER"
    check.rule(R, "the file prologue is inserted only when the status is Modified; print_js appends the trailer iff the final map is non-empty and is fed the code/map/original map of the same result")
    prog = check.prog
    from ..trav import overrides_of

    # role-based: every read of Config.file_prefix_code (the statements of the prologue) in the visitors
    reads = []
    for g in prog.user_fns:
        for n in g.nodes():
            if n.get("k") == "Field" and n.get("field") == "file_prefix_code" and "Config" in (n.get("base_ty") or ""):
                reads.append((g, n))
    check.floor(R, "reads of the prologue statements (Config.file_prefix_code)", len(reads), 1)
    for i, (g, n) in enumerate(reads):
        atoms = gate.atoms_at(g, n)
        ok, extra = gate.modified_gate(prog, g, atoms)
        v = [a[2].split("::")[-1] for a in atoms if a[0] == "variant" and a[3] is True and isinstance(a[2], str) and "Program::" in a[2]]
        # nothing else may decide: the status test (direct or through a predicate), the Script / Module
        # arm of the program, and loops / closures over the prologue statements are all a path may carry
        import re as _re
        for a in atoms:
            if a[0] in ("closure", "loop", "try"):
                continue
            if a[0] == "eq" and any(isinstance(x, str) and x.endswith("Status::Modified") for x in a[1:3]):
                continue
            if a[0] in ("variant", "arm_not") and any("Program::" in str(x) or "Status::" in str(x) for x in a[1:3]):
                continue
            if a[0] == "call" and a[4] is True and gate.modified_gate(prog, g, [a])[0]:
                continue
            extra = list(extra) + [_re.sub(r"#\d+", "", "%s%s(%s)" % ("" if a[-2] is True or a[0] != "call" else "!", a[1], a[3] or "")) if a[0] == "call" else _re.sub(r"#\d+", "", str(a[:4]))]
        if ok and extra:
            check.bad(R, "%s/prologue/%s" % (R, v[0] if v else g.name), hir.loc(n), "the prologue is inserted only if %s: a Modified file can come back without its prologue" % "; ".join(extra))
            continue
        check.expect(ok, R, "%s/prologue/%s" % (R, v[0] if v else g.name), hir.loc(n), "prologue statements are read (for insertion) under status == Modified", "the prologue statements are used in %s without a status == Modified guard" % g.name)
    # ... and on that path every statement of the prologue is put into the body of the program,
    # whichever kind of program it is (a Modified result always carries the prologue)
    from ..prov import Prov as _Prov

    _pv = _Prov(prog)
    hosts = {g.def_path: g for g, _ in reads}
    for g in hosts.values():
        got = set()
        for fg in prog.flat(g, 1):
            for x in fg.nodes():
                if x.get("k") != "MethodCall" or x["method"] not in ("insert", "splice", "extend", "push", "append", "extend_from_slice", "insert_many"):
                    continue
                pl = hir.place(x["recv"]) or ""
                if not pl.endswith(".body"):
                    continue
                vals = x["args"][-1:] if x["args"] else []
                def _is_prefix(r_, p_):
                    if any("file_prefix_code" in str(q) for q in p_):
                        return True
                    if r_[0] == "param":
                        hf = prog.by_def.get(r_[1])
                        prm = hf.rec.get("params", []) if hf is not None else []
                        return r_[2] < len(prm) and "Stmt" in (prm[r_[2]].get("ty") or "") and "[" in (prm[r_[2]].get("ty") or "")
                    return False

                subs = [y for v_ in vals for y in hir.walk(v_) if y.get("k") in ("Path", "Field", "MethodCall")]
                from_prefix = any(_is_prefix(r_, p_) for y in subs for r_, p_ in _pv.origins(fg, y))
                if not from_prefix:
                    continue
                vs = [str(hir.pat_variant(c_["pat"])).split("::")[-1] for c_ in fg.conds_at(x) if c_["t"] == "pat" and c_["v"] and "Program::" in str(hir.pat_variant(c_["pat"]))]
                ty = hir.peel(x["recv"]).get("ty") or ""
                kind = vs[0] if vs else ("Module" if "ModuleItem" in ty else "Script" if "Stmt" in ty else "?")
                got.add(kind)
        # ... or hands body and prologue to a crate helper that inserts into the body it is given
        INS = ("insert", "splice", "extend", "push", "append", "extend_from_slice", "insert_many")
        for x in g.nodes():
            h = prog.resolve_local(x) if hir.is_call(x) else None
            if h is None or h.body is None or h is g:
                continue
            a_ = hir.call_args(x)
            body_arg = [i for i, y in enumerate(a_) if (hir.place(y) or "").endswith(".body")]
            pre_arg = [i for i, y in enumerate(a_) if any(any("file_prefix_code" in str(q) for q in p_) for z in hir.walk(y) if z.get("k") in ("Path", "Field", "MethodCall") for r_, p_ in _pv.origins(g, z))]
            if not body_arg or not pre_arg:
                continue
            bl = {b_["local"] for b_ in hir.pat_bindings(h.rec["params"][body_arg[0]]["pat"])} if body_arg[0] < len(h.rec.get("params", [])) else set()
            inserts = [y for fh in prog.flat(h, 1) for y in fh.nodes() if y.get("k") == "MethodCall" and y["method"] in INS and (hir.local_of(y["recv"]) or (None,))[0] in bl]
            # ... or rebuilds the list and writes it back through the parameter (`*items = rebuilt`)
            for y in h.nodes():
                if y.get("k") == "Assign":
                    pl_ = hir.place(y["l"]) or ""
                    root_ = pl_.split(".")[0].lstrip("*")
                    if "#" in root_ and root_.split("#")[1].isdigit() and int(root_.split("#")[1]) in bl:
                        inserts.append(y)
            if not inserts:
                continue
            vs = [str(hir.pat_variant(c_["pat"])).split("::")[-1] for c_ in g.conds_at(x) if c_["t"] == "pat" and c_["v"] and "Program::" in str(hir.pat_variant(c_["pat"]))]
            ty = hir.peel(a_[body_arg[0]]).get("ty") or ""
            got.add(vs[0] if vs else ("Module" if "ModuleItem" in ty else "Script" if "Stmt" in ty else "?"))
        check.expect({"Script", "Module"} <= got, R, R + "/prologue-inserted", hir.loc(g.rec), "the prologue statements are inserted into the body of scripts and of modules", "the prologue statements are inserted for %s only: a Modified %s comes back without its prologue" % (sorted(got) or "no program kind", " / ".join(sorted({"Script", "Module"} - got))))
    pj = prog.fn("rewriter::print_js")
    fmts = [n for n in hir.walk(pj.body) if n.get("exp") and (n.get("macro") or "").endswith("format")]
    tr_nodes = [n for n in hir.walk(pj.body) if n.get("k") == "Lit" and n["lit"]["t"] == "str" and "application/json;base64" in str(n["lit"]["v"])]
    # every return value: either final_code (under is_empty) or the trailer format
    rets = return_exprs(pj.body)
    kinds = []
    for r in rets:
        atoms = gate.atoms_at(pj, r)
        empty_true = gate.has_call_gate(atoms, "is_empty", True, "final_source_map") or any(a[0] == "call" and a[1] == "is_empty" and a[4] is True for a in atoms)
        empty_false = any(a[0] == "call" and a[1] == "is_empty" and a[4] is False for a in atoms)
        kinds.append(("empty" if empty_true else "nonempty" if empty_false else "?", hir.describe(r)[:60]))
    check.expect(sorted(k for k, _ in kinds) == ["empty", "nonempty"], R, R + "/trailer-iff-map", hir.loc(pj.rec), "print_js returns bare code when the map is empty, code+trailer otherwise", "print_js return paths are %s" % kinds)
    rw = prog.fn("lib_wasm::Rewriter::rewrite")
    for n in hir.calls_in(rw.body, name="print_js"):
        a = hir.call_args(n)
        places = [hir.place(x) or "" for x in a[:3]]
        bases = {p.rsplit(".", 1)[0] for p in places}
        ok = [p.rsplit(".", 1)[-1] for p in places] == ["code", "source_map", "original_source_map"] and len(bases) == 1
        check.expect(ok, R, R + "/print-args", hir.loc(n), "print_js(result.code, result.source_map, result.original_source_map)", "print_js is fed %s" % places)
        cfg = hir.place(a[3]) or ""
        check.expect(cfg.endswith(".config"), R, R + "/print-config", hir.loc(n), "print_js uses the rewriter's configuration", "print_js config is %s" % cfg)


def rule_js_handback(check):
    R = "JS-HANDBACK"
    check.rule(R, "NonCacheRewriter.rewrite returns the native response and, when its metrics.status is the not-modified status string, sets response.content to the caller's code parameter; the compared strings are lower-cased Debug names of Status variants")
    prog = check.prog
    js = jsast.JsFile(prog.js, "main.js")
    cls = js.class_decl("NonCacheRewriter")
    m = js.method(cls, "rewrite")
    params = [jsast.param_name(p) for p in m["function"]["params"]]
    body = m["function"]["body"]["stmts"]
    # const response = this.nativeRewriter.rewrite(code, file)
    ok_call = False
    resp = None
    for st in body:
        if st["type"] == "VariableDeclaration":
            for d in st["declarations"]:
                init = d.get("init")
                if init and init["type"] == "CallExpression" and jsast.member_chain(init["callee"]["expression"] if "expression" in init["callee"] else init["callee"]) == ["this", "nativeRewriter", "rewrite"]:
                    args = [jsast.ident_name(a["expression"]) for a in init["arguments"]]
                    ok_call = args == params[:2]
                    resp = jsast.ident_name(d["id"])
    check.expect(ok_call and resp, R, R + "/native-call", js.loc(m), "response = nativeRewriter.rewrite(code, file)", "NonCacheRewriter.rewrite does not call the native rewriter with (code, file)")
    variants = [v["name"].lower() for v in prog.adt("transform_status::Status")["variants"]]
    from .. import jsguards, jsflow as JF, boolform as BF
    F = jsguards.File(js)
    NOT = BF.atom("status-is-notmodified")

    def atomize(e, top):
        cmp_ = jsast.strict_eq_literal(e, F.consts) if e.get("type") == "BinaryExpression" else None
        sc_ = jsguards.status_cmp(F, e) if e.get("type") == "BinaryExpression" else None
        if sc_ is not None and sc_[0] == [resp, "metrics", "status"]:
            cmp_ = (None, sc_[1])
        if cmp_ and (cmp_[0] is None or jsast.opt_member_chain(JF.unparen(cmp_[0])) == [resp, "metrics", "status"]):
            check.expect(cmp_[1] in variants, R, R + "/status-literal", js.loc(e), "compares with %r (a Status name)" % cmp_[1], "main.js compares metrics.status with %r which is no lower-cased Status variant %s" % (cmp_[1], variants))
            return BF.atom("status-is-" + cmp_[1])
        return None

    reach = jsguards.Reach(F, atomize, stop=[m])
    sites = [a for a in jsast.walk(m) if a.get("type") == "AssignmentExpression" and jsast.member_chain(a["left"]) == [resp, "content"] and jsast.ident_name(a["right"]) == params[0] and a["operator"] == "="]
    check.expect(bool(sites), R, R + "/content", js.loc(m), "response.content = code", "NonCacheRewriter.rewrite does not hand back the caller's code for not-modified results")
    if sites:
        jsguards.expect_gate(check, R, R + "/content-gate", js.loc(sites[0]), reach.any_of(sites), NOT, "the caller's code is handed back")
    # `code` still is the caller's text when it is handed back: the parameter is never written
    rewrites = [x for x in jsast.walk(m) if (x.get("type") == "AssignmentExpression" and jsast.ident_name(x["left"]) == params[0]) or (x.get("type") == "UpdateExpression" and jsast.ident_name(x.get("argument")) == params[0]) or (x.get("type") == "VariableDeclarator" and jsast.ident_name(x.get("id")) == params[0])]
    check.expect(not rewrites, R, R + "/code-untouched", js.loc(rewrites[0]) if rewrites else js.loc(m), "the `code` parameter is never reassigned or shadowed", "`%s` is reassigned before it is handed back: a not-modified file does not come back byte for byte" % params[0])
    last = body[-1]
    ok_ret = last["type"] == "ReturnStatement" and jsast.ident_name(last.get("argument")) == resp
    others = [x for x in jsast.walk(m["function"]["body"]) if x.get("type") == "ReturnStatement" and x is not last]
    check.expect(ok_ret and not others, R, R + "/return", js.loc(last), "returns the response object", "NonCacheRewriter.rewrite does not simply return the response")
    # no other write to response.content / response.metrics
    writes = [a for a in jsast.walk(m["function"]["body"]) if a.get("type") == "AssignmentExpression" and (jsast.member_chain(a["left"]) or [None])[0] == resp]
    check.expect(len(writes) == 1, R, R + "/single-write", js.loc(m), "exactly one write to the response", "%d writes to the response object" % len(writes))


def rule_metrics_present(check):
    R = "METRICS-PRESENT"
    check.rule(R, "the JS hand-back keys on metrics.status, so every successful rewrite must carry metrics: transform_js always returns Some(transform_status), and get_metrics maps Some(status) to Some(Metrics) unconditionally (None only for None)")
    prog = check.prog
    t = prog.fn("rewriter::transform_js")
    lits = [n for g_ in prog.flat(t, 1) for n in hir.walk(g_.body) if n.get("k") == "Struct" and (n["res"].get("path") or "").endswith("RewrittenOutput")]
    check.floor(R, "RewrittenOutput constructions in transform_js", len(lits), 1)
    for n in lits:
        e = [hir.peel(x["e"]) for x in n["fields"] if x["name"] == "transform_status"][0]
        ok = e.get("k") == "Call" and (hir.peel(e["f"]).get("res", {}).get("ctor_path") or "").split("::")[-1] == "Some"
        arm = [hir.pat_variant(c["pat"]).split("::")[-1] for c in t.conds_at(n) if c["t"] == "pat" and c["v"] and isinstance(hir.pat_variant(c["pat"]), str) and "Status::" in hir.pat_variant(c["pat"])]
        check.expect(ok, R, "%s/status-some/%s" % (R, arm[0] if arm else "?"), hir.loc(n), "transform_status: Some(..)", "a successful rewrite result carries no transform status (no metrics, so the JS wrapper cannot recognise a not-modified result)")
    g = prog.fn("lib_wasm::get_metrics")
    ms = [n for n in hir.walk(g.body) if n.get("k") == "Struct" and (n["res"].get("path") or "").endswith("Metrics")]
    check.floor(R, "Metrics constructions", len(ms), 1)
    for n in ms:
        conds = [c for c in g.conds_at(n) if c["t"] != "closure"]
        in_closure = [c for c in g.conds_at(n) if c["t"] == "closure"]
        extra = []
        for c in conds:
            if c["t"] == "pat" and c["v"] and str(hir.pat_variant(c["pat"])).split("::")[-1] == "Some" and hir.local_of(c["scrut"]) and g.bindings()[hir.local_of(c["scrut"])[0]]["origin"][:2] == ("param", 0):
                continue
            extra.append(hir.cond_str(c))
        chain_bad = []
        if in_closure:
            cl = in_closure[-1]["node"]
            call = g.parent(cl)
            while call is not None and not hir.is_call(call):
                call = g.parent(call)
            x = call
            names = []
            while x is not None and x.get("k") == "MethodCall":
                names.append(x["method"])
                x = hir.peel(x["recv"])
            root_ok = hir.local_of(x) and g.bindings()[hir.local_of(x)[0]]["origin"][:2] == ("param", 0)
            chain_bad = [m for m in names if m not in ("map", "as_ref", "as_mut", "take")] + ([] if root_ok else ["<not the status parameter>"])
        check.expect(not extra and not chain_bad, R, R + "/always-for-some", hir.loc(n), "Some(status) -> Some(Metrics) unconditionally", "get_metrics drops the metrics of some results (%s): main.js then hands back empty content for a not-modified file" % "; ".join(extra + chain_bad))
    rw = prog.fn("lib_wasm::Rewriter::rewrite")
    res = [n for n in hir.walk(rw.body) if n.get("k") == "Struct" and (n["res"].get("path") or "").endswith("lib_wasm::Result")]
    for n in res:
        e = [hir.peel(x["e"]) for x in n["fields"] if x["name"] == "metrics"][0]
        ok = hir.is_call(e) and hir.callee_name(e) == "get_metrics"
        check.expect(ok, R, R + "/result-metrics", hir.loc(n), "Result.metrics = get_metrics(..)", "Result.metrics is %s" % hir.describe(e))


def rule_prologue_own(check):
    """PROLOGUE-OWN: the prologue a rewriter inserts is built from its own configuration"""
    R = "PROLOGUE-OWN"
    check.rule(R, "what fills Config::file_prefix_code is computed by to_config / generate_prefix_stmts from their arguments alone: no function on that path reads or fills a static (a prologue memoised process-wide is the first rewriter's - empty if its template did not parse - and a modified result of every later rewriter carries that one, or none)")
    prog = check.prog
    g = prog.fn("rewriter::generate_prefix_stmts")
    fns = prog.flat(g, 4)
    callers = [f for f, n, c in prog.call_sites() if hir.is_call(n) and c["name"] == "generate_prefix_stmts" and not f.rec.get("gen") and not f.rec.get("in_test") and prog.resolve_local(n) is not None]
    for f in callers:
        if f.def_path not in {x.def_path for x in fns}:
            fns.append(f)
    check.expect(bool(callers), R, R + "/ANCHOR/callers", "-", "generate_prefix_stmts is called from %s" % sorted({f.name for f in callers}), "nothing calls generate_prefix_stmts: anchor lost")
    hits = []
    for f in fns:
        for n in f.nodes():
            if n.get("k") == "Path" and n["res"].get("res") == "Def" and n["res"].get("kind", "").startswith("Static") and not n.get("exp"):
                hits.append((f, n))
    for f, n in hits:
        check.bad(R, "%s/%s" % (R, f.name), hir.loc(n), "%s, on the way to the file prologue, uses the static %s: the prologue no longer depends only on the configuration of the rewriter that emits it" % (f.name, (n["res"].get("path") or n["res"].get("def") or "?")))
    if not hits:
        check.ok(R, R + "/no-statics", hir.loc(g.rec), "no static is read or written in %s" % sorted(f.name for f in fns))


def run(check):
    check.guarded("PRINT-GATE", rule_print_gate)
    check.guarded("PROLOGUE-OWN", rule_prologue_own)
    # "an embedded map": what follows `;base64,` must be decodable as that
    from . import c10 as _c10
    from ..engine import Only as _Only
    check.rule("EMBEDDED-MAP", "the payload of the trailer of a modified result is the map in the standard base64 alphabet announced by the data url (a result whose trailer strict decoders reject carries no usable map)")
    check.guarded("EMBEDDED-MAP", lambda c: _c10.rule_trailer(_Only(c, "TRAILER", "EMBEDDED-MAP", ("/payload", "/single-site"))))
    check.guarded("METRICS-PRESENT", rule_metrics_present)
    from . import c04

    check.guarded("PREDICATES", c04.rule_predicates)
    check.guarded("MODIFIED-HOOK", S.rule_modified_implies_hook)
    check.guarded("COUNT-ONCE", c15.rule_count_once)
    check.guarded("PROLOGUE-TRAILER", rule_prologue_trailer)
    check.guarded("JS-HANDBACK", rule_js_handback)
    check.guarded("SNAPSHOT-ORDER", S.rule_snapshot_order)
    return {
        "explanation": "Gate and provenance rules over transform_js / print_js / visit_mut_program / update_status (typed HIR) and over the syntax tree of main.js: printing, prologue and trailer happen only for Modified; Modified is only ever set from hook-built results; the JS wrapper hands back the caller's text for the not-modified status string that the Rust side produces.",
        "assumptions": ["swc prints exactly the tree it is given", "serde renames Metrics.status to `status` and Result.content to `content` (camelCase of single words)"],
        "not_decided": ["byte-for-byte identity is decided only as 'the same JS binding is returned'", "that a hook call built by a hook builder is never dropped later (C02 FANOUT/INVENTORY rules)"],
    }
