"""C14 - literal collection reports exactly the input's string literals, truly located.
Decided: collector traversal completeness with the two documented exclusions (each guarded by
exactly its four conjuncts), predicates not discarded, window constants/operators, location
arithmetic, dedupe key, enable gate, no string literal is ever constructed by instrumentation."""
from .. import hir, gate, jsast
from ..engine import AnchorMissing
from ..prov import Prov, origin_str, return_exprs
from ..trav import core_type, overrides_of
from .. import travrules as T

LV = "LiteralVisitor"


def _alternatives(prog, fn, e, val, root_variant, subst, depth=0, node_locals=None):
    """ways in which the boolean expression e of fn can have the value val, each a list of atomic facts
    (fn, expr, value, subst); calls of crate predicates are opened up (all paths of their bodies),
    alternatives that need the visited node to be of another kind than root_variant are dropped"""
    out = [[]]
    if node_locals is None:
        # the visited node: the node parameter of the override
        node_locals = set()
        if len(fn.rec.get("params", [])) > 1:
            node_locals = {(fn.def_path, b_["local"]) for b_ in hir.pat_bindings(fn.rec["params"][1]["pat"])}
    for x, v in _flatten({"e": e, "v": val}):
        x0 = hir.peel(x)
        h = prog.resolve_local(x0) if hir.is_call(x0) else None
        compound = x0.get("k") in ("Match", "If", "BlockExpr") and depth < 4
        if compound or (h is not None and h.body is not None and (h.rec.get("ret") or "") == "bool" and depth < 4):
            sub_subst = dict(subst)
            sub_nodes = set(node_locals)
            body_ = x0 if compound else h.body
            if compound:
                h = fn
            for i_, a_ in enumerate(hir.call_args(x0) if not compound else []):
                la_ = hir.local_of(hir.peel_transparent(a_))
                if la_ and (fn.def_path, la_[0]) in node_locals and i_ < len(h.rec["params"]):
                    for b_ in hir.pat_bindings(h.rec["params"][i_]["pat"]):
                        sub_nodes.add((h.def_path, b_["local"]))
                lv = hir.lit_value(a_)
                if lv is None:
                    la = hir.local_of(a_)
                    if la and (fn.def_path, la[0]) in subst:
                        lv = subst[(fn.def_path, la[0])]
                if lv is not None and i_ < len(h.rec["params"]):
                    for b_ in hir.pat_bindings(h.rec["params"][i_]["pat"]):
                        sub_subst[(h.def_path, b_["local"])] = lv
            alts = []
            for conds_h, value in hir.decision_paths(body_):
                if value is None or value.get("k") == "?":
                    alts.append([(h, {"k": "?"}, True, sub_subst)])
                    continue
                lv = hir.lit_value(value)
                if lv is not None and bool(lv) != v:
                    continue
                facts = [[]]
                bad_variant = False
                for ce, ct in conds_h:
                    if ce.get("k") == "PatCond":
                        pv_ = str(hir.pat_variant(ce["pat"]))
                        if ct and "swc_ecma_ast::Expr::" in pv_ and hir.local_of(ce["scrut"]) and (h.def_path, hir.local_of(ce["scrut"])[0]) in sub_nodes:
                            if root_variant is not None and not pv_.endswith("Expr::" + root_variant):
                                bad_variant = True
                            facts = [f0 + [(h, {"k": "NodeVariant", "v": pv_.split("::")[-1]}, True, sub_subst)] for f0 in facts]
                        continue
                    if ce.get("k") == "ArmNot":
                        continue
                    facts = [f0 + a0 for f0 in facts for a0 in _alternatives(prog, h, ce, ct, root_variant, sub_subst, depth + 1, sub_nodes)]
                if bad_variant:
                    continue
                if lv is None:
                    facts = [f0 + a0 for f0 in facts for a0 in _alternatives(prog, h, value, v, root_variant, sub_subst, depth + 1, sub_nodes)]
                alts += facts
            out = [o + a for o in out for a in alts]
        else:
            out = [o + [(fn, x, v, subst)] for o in out]
    return out


def _exclusion(name_lit, root_variant, siblings=None):
    """siblings: {variant: name} of all documented (call kind, callee name) exclusions; used when the path
    itself does not say which kind the node is (the kind is decided inside a predicate)"""
    def pred(tr, path, missing):
        v = tr.variant_known(path, ())
        if v is None:
            # a per-node hook (`visit_call_expr(&CallExpr)`): the kind of the node is the hook's parameter type
            pty_ = core_type((tr.fn.rec.get("params") or [{}, {}])[1].get("ty") or "") if len(tr.fn.rec.get("params") or []) > 1 else ""
            if pty_.endswith("::CallExpr"):
                v = "swc_ecma_ast::Expr::Call"
            elif pty_.endswith("::NewExpr"):
                v = "swc_ecma_ast::Expr::New"
        unknown_root = v is None and siblings is not None
        if not unknown_root and not (isinstance(v, str) and v.endswith("Expr::" + root_variant)):
            return None
        if not path.term:
            return None
        if unknown_root:
            alts = [[]]
            for c in path.conds:
                if c.get("t") == "pat":
                    continue
                if c.get("t") != "bool":
                    if c.get("t") not in ("closure", "inlined"):
                        return None
                    continue
                alts = [a + b for a in alts for b in _alternatives(tr.prog, tr.fn, c["e"], c["v"], None, {})]
            if not alts:
                return None
            for facts in alts:
                vs = {e["v"] for fn_, e, val, subst in facts if isinstance(e, dict) and e.get("k") == "NodeVariant"}
                if len(vs) != 1 or list(vs)[0] not in siblings:
                    return None
                nm = siblings[list(vs)[0]]
                want = {"name": False, "nonempty": False, "nospread": False, "islit": False}
                for fn_, e, val, subst in facts:
                    if isinstance(e, dict) and e.get("k") == "NodeVariant":
                        continue
                    k = _classify(e, val, nm, fn_, subst)
                    if k in want:
                        want[k] = True
                        if k in ("nospread", "islit") and _via_first(fn_, e):
                            want["nonempty"] = True
                    else:
                        return None
                if not all(want.values()):
                    return None
            return "require(<literal>, ..) / new RegExp(<literal>, ..): literal arguments are a documented exclusion (decided inside a predicate)"
        alts = [[]]
        extra0 = []
        for c in path.conds:
            if c.get("t") == "pat":
                continue
            if c.get("t") != "bool":
                if c.get("t") not in ("closure", "inlined"):
                    extra0.append(hir.cond_str(c))
                continue
            alts = [a + b for a in alts for b in _alternatives(tr.prog, tr.fn, c["e"], c["v"], root_variant, {})]
        if extra0 or not alts:
            return None
        for facts in alts:
            want = {"name": False, "nonempty": False, "nospread": False, "islit": False}
            extra = []
            for fn_, e, val, subst in facts:
                if isinstance(e, dict) and e.get("k") == "NodeVariant":
                    continue
                k = _classify(e, val, name_lit, fn_, subst)
                if k in want:
                    want[k] = True
                    if k in ("nospread", "islit") and _via_first(fn_, e):
                        want["nonempty"] = True
                else:
                    extra.append(("" if val else "!") + hir.describe(e))
            if not all(want.values()) or extra:
                return None
        return "%s(<literal>, ..): literal arguments are a documented exclusion" % name_lit

    return pred


def _via_first(fn, e):
    """the fact is about the closure parameter of `<list>.first().is_some_and(|a| ..)`: the list is not empty"""
    e = hir.peel(e)
    if not hir.is_call(e):
        return False
    a0 = hir.peel_transparent(hir.call_args(e)[0])
    return a0.get("k") == "Field" and _first_closure_param(fn, a0["x"])


def _first_closure_param(fn, x):
    l = hir.local_of(x)
    b = fn.bindings().get(l[0]) if l and fn is not None else None
    if not b or b["origin"][0] != "closure_param":
        return False
    cl = b["origin"][1]
    par = fn.parent(cl)
    while par is not None and not hir.is_call(par):
        par = fn.parent(par)
    if par is None or (hir.callee_name(par) or par.get("method")) not in ("is_some_and", "map", "map_or", "is_none_or"):
        return False
    recv = hir.peel(hir.call_args(par)[0])
    return hir.is_call(recv) and (hir.callee_name(recv) or recv.get("method")) == "first"


def _flatten(c):
    """[(expr, value)] for a condition known to hold; closures (Option::map(|args| a && b && c)) are entered"""
    out = []
    e = hir.peel(c["e"])
    v = c["v"]
    stack = [(e, v)]
    while stack:
        e, v = stack.pop()
        e = hir.peel(e)
        if e.get("k") == "Binary" and e["op"] == "And" and v:
            stack.append((e["l"], True))
            stack.append((e["r"], True))
        elif e.get("k") == "Unary" and e["op"] == "Not":
            stack.append((e["x"], not v))
        elif e.get("k") == "Binary" and e["op"] == "Eq" and v and _some_true_cmp(e) is not None:
            stack.append((_some_true_cmp(e), True))
        elif hir.is_call(e) and (hir.callee_name(e) or e.get("method")) in ("unwrap_or", "is_some_and", "map_or") and v:
            # opt.map(|x| P(x)).unwrap_or(false) / opt.is_some_and(|x| P(x)) / opt.map_or(false, |x| P(x))
            name = hir.callee_name(e) or e.get("method")
            args = hir.call_args(e)
            inner = None
            if name == "unwrap_or" and hir.lit_value(args[1]) is False:
                m = hir.peel(args[0])
                if hir.is_call(m) and (hir.callee_name(m) or m.get("method")) == "map":
                    inner = hir.call_args(m)[1]
            elif name == "is_some_and":
                inner = args[1]
            elif name == "map_or" and hir.lit_value(args[1]) is False:
                inner = args[2]
            cl = hir.peel(inner) if inner is not None else None
            if cl is not None and cl.get("k") == "Closure":
                stack.append((cl["body"], True))
            else:
                out.append((e, v))
        else:
            out.append((e, v))
    return out


def _some_true_cmp(e):
    """`opt.map(|x| P(x)) == Some(true)` -> the closure body P"""
    sides = [hir.peel(e["l"]), hir.peel(e["r"])]
    for a, b in (sides, sides[::-1]):
        if a.get("k") == "Call" and (hir.peel(a["f"]).get("res", {}).get("ctor_path") or "").split("::")[-1] == "Some" and hir.lit_value(a["args"][0]) is True:
            if hir.is_call(b) and (hir.callee_name(b) or b.get("method")) == "map":
                cl = hir.peel(hir.call_args(b)[1])
                if cl.get("k") == "Closure":
                    return cl["body"]
    return None


def _classify(e, v, name_lit, fn=None, subst=None):
    e = hir.peel(e)
    if e.get("k") == "Binary" and e["op"] == "Eq" and v:
        sides = [hir.peel_transparent(e["l"]), hir.peel_transparent(e["r"])]
        lits = [hir.lit_value(s) for s in sides]
        if fn is not None and subst:
            lits += [subst.get((fn.def_path, hir.local_of(s)[0])) for s in sides if hir.local_of(s)]
        if name_lit in lits and any(s.get("k") == "Field" and s["field"] == "sym" for s in sides):
            return "name"
    if hir.is_call(e):
        nm = hir.callee_name(e) or e.get("method")
        a0 = hir.peel_transparent(hir.call_args(e)[0])
        if nm == "is_empty" and not v:
            return "nonempty"
        if nm == "is_none" and v and a0.get("k") == "Field" and a0["field"] == "spread" and (_first_elem(a0["x"]) or _first_closure_param(fn, a0["x"])):
            return "nospread"
        if nm == "is_lit" and v and a0.get("k") == "Field" and a0["field"] == "expr" and (_first_elem(a0["x"]) or _first_closure_param(fn, a0["x"])):
            return "islit"
    return "?"


def _first_elem(e):
    e = hir.peel_transparent(e)
    return e.get("k") == "Index" and hir.lit_value(e["i"]) == 0


def rule_booldiscard(check):
    R = "BOOLDISCARD"
    check.rule(R, "is_some()/is_none() applied to the Option<bool> produced by Option::map with a bool-returning closure discards the predicate")
    prog = check.prog
    n_sites = 0
    for f in prog.user_fns:
        for n in f.nodes():
            if hir.is_call(n) and (hir.callee_name(n) or n.get("method")) in ("is_some", "is_none"):
                recv = hir.peel(hir.call_args(n)[0])
                ty = recv.get("ty", "")
                n_sites += 1
                if ty.endswith("Option<bool>") and hir.is_call(recv) and (hir.callee_name(recv) or recv.get("method")) in ("map", "and_then", "then"):
                    check.bad(R, "%s/%s" % (R, T.short(f)), hir.loc(n), "%s() on Option<bool> from %s: the computed predicate is discarded (use unwrap_or(false))" % (hir.callee_name(n), hir.callee_name(recv)))
    check.ok(R, R + "/scan", "-", "%d is_some/is_none sites scanned" % n_sites)
    check.floor(R, "is_some/is_none sites scanned", n_sites, 5)


def rule_window(check):
    R = "WINDOW"
    check.rule(R, "a literal is recorded iff len(value) > 10 && len(value) <= 256 (bytes of Str.value); locations are lookup_char_pos(span.lo) with line unchanged and column + 1")
    prog = check.prog
    # wherever the collector is constructed (`default`, `new`, an `impl Default`)
    lits = [n for d in prog.user_fns if d.body is not None and not d.rec.get("gen") and not d.rec.get("in_test") for n in hir.walk(d.body) if n.get("k") == "Struct" and (n["res"].get("path") or "").endswith("LiteralVisitor")]
    vals = {}
    for n in lits:
        for fl in n["fields"]:
            vals[fl["name"]] = hir.lit_value(fl["e"])
    a = prog.fn("LiteralVisitor::add_literal")

    def _bound(side):
        """the number a bound of the window stands for: a field of the visitor (its value in `default`), a constant"""
        side = _side(side)
        for fld, v_ in vals.items():
            if side.endswith("." + fld) and isinstance(v_, int):
                return v_
        if "::" in side:
            try:
                c_ = prog.consts.get(side) or [c2 for d2, c2 in prog.consts.items() if d2.endswith("::" + side.split("::")[-1])][0]
                v_ = hir.lit_value(c_["body"])
                return v_ if isinstance(v_, int) else None
            except (IndexError, KeyError):
                return None
        return None

    def _measured(fn_, side):
        """what is measured: `len(<..>.value)` through a local holding the length"""
        side = _side(side)
        if side.startswith("len("):
            return side
        for lid, b_ in fn_.bindings().items():
            if b_["name"] == side.split("#")[0] and b_["origin"][0] == "let" and b_["origin"][1] is not None:
                i_ = hir.peel(b_["origin"][1])
                if hir.is_call(i_) and (hir.callee_name(i_) or i_.get("method")) == "len":
                    return "len(%s)" % _side(hir.place(hir.call_args(i_)[0]) or "?")
        return side
    ins = [n for n in hir.walk(a.body) if hir.is_call(n) and (hir.callee_name(n) or n.get("method")) in ("insert", "push", "push_back", "or_insert", "or_insert_with", "or_default", "extend")]
    check.floor(R, "recordings in add_literal", len(ins), 1)
    for n in ins:
        atoms = gate.atoms_expanded(prog, a, n)
        FLIP = {"Gt": "Le", "Le": "Gt", "Lt": "Ge", "Ge": "Lt"}
        cmps = sorted((x[1] if x[4] else FLIP[x[1]], _side(x[2]), _side(x[3]), True) for x in atoms if x[0] == "cmp")
        want = sorted([("Gt", "len(value)", "self.min_literal_length", True), ("Le", "len(value)", "self.max_literal_length", True)])
        others = [x for x in atoms if x[0] not in ("cmp", "closure") and not (x[0] == "call" and x[1] == "contains_key")]
        # by meaning: the byte length of the literal's value is > 10 and <= 256, wherever the two numbers live
        owner_ = {}
        for x in atoms:
            if x[0] == "cmp" and isinstance(x[-1], dict):
                for h_ in prog.user_fns:
                    if any(y is x[-1] for y in h_.nodes()):
                        owner_[id(x)] = h_
        sem = sorted((x[1] if x[4] else FLIP[x[1]], "value" if _measured(owner_.get(id(x), a), x[2]).rstrip(")").endswith("value") else _measured(owner_.get(id(x), a), x[2]), _bound(x[3])) for x in atoms if x[0] == "cmp")
        # (the shape `len(value) > self.min && len(value) <= self.max` alone does not say what min and max are)
        cmps = want if sem == [("Gt", "value", 10), ("Le", "value", 256)] else (cmps if cmps != want else sem)
        check.expect(cmps == want and not others, R, "%s/condition/%s" % (R, "set" if "Set<" in hir.peel(hir.call_args(n)[0]).get("ty", "") else "vec" if "Vec<" in hir.peel(hir.call_args(n)[0]).get("ty", "") else "map"), hir.loc(n), "recorded iff len > min && len <= max", "literal recorded under %s %s" % (cmps, [hir.describe(x[-1]) if isinstance(x[-1], dict) and "k" in x[-1] else x[:3] for x in others]))
    pv = Prov(prog)
    lens = [n for n in hir.calls_in(a.body, name="len")]
    for n in lens:
        o = pv.origins(a, hir.call_args(n)[0])
        ok = all(r[0] == "param" and r[2] == 1 and p[-1:] == ("value",) for r, p in o)
        check.expect(ok, R, R + "/length-of-value", hir.loc(n), "length of Str.value", "window compares the length of %s" % sorted(origin_str(x) for x in o))
    # from the entry point of the collection: whatever builds the result (get_result, into_result, a helper ..)
    g0 = prog.fn("literal_visitor::get_literals")
    # the location is built in get_result or in a helper it calls (a method of the recorded occurrence)
    locs_g = [(h, n) for h in prog.flat(g0, 3) for n in hir.walk(h.body) if n.get("k") == "Struct" and (n["res"].get("path") or "").endswith("LiteralLocation")]
    check.floor(R, "LiteralLocation literals", len(locs_g), 1)
    for g, n in locs_g:
        flds = {x["name"]: hir.peel(x["e"]) for x in n["fields"]}
        line_ok = (hir.place(flds["line"]) or "").endswith(".line")
        col = flds["column"]
        col_ok = col.get("k") == "Binary" and col["op"] == "Add" and hir.lit_value(col["r"]) == 1 and (hir.place(col["l"]) or "").endswith(".col.0")
        check.expect(line_ok and col_ok, R, R + "/location", hir.loc(n), "line = pos.line, column = pos.col.0 + 1", "location computed as line=%s column=%s" % (hir.describe(flds["line"]), hir.describe(col)))
        lk = [x for x in hir.calls_in(g.body, name="lookup_char_pos")]
        ok = len(lk) == 1 and _side(hir.place(hir.call_args(lk[0])[1]) or "").endswith("span.lo")
        check.expect(ok, R, R + "/position", hir.loc(n), "position = lookup_char_pos(span.lo)", "position is not looked up from span.lo")
        CONV = ("clone", "as_ref", "as_deref", "cloned", "to_owned", "to_string", "into", "as_str", "from")

        def _conv_only(fx):
            """a function value that only converts the representation of a name (JsWord / &str / String)"""
            fx = hir.peel(fx)
            if fx.get("k") == "Path":
                return (((fx.get("res") or {}).get("path") or "").split("::")[-1]) in CONV
            if fx.get("k") == "Closure":
                b_ = hir.peel(fx["body"])
                while hir.is_call(b_) and (hir.callee_name(b_) or b_.get("method")) in CONV and hir.call_args(b_):
                    b_ = hir.peel(hir.call_args(b_)[-1] if (hir.callee_name(b_) or b_.get("method")) == "from" else hir.call_args(b_)[0])
                return b_.get("k") == "Path" and hir.local_of(b_) is not None
            return False

        ide = flds["ident"]
        while hir.is_call(ide) and hir.call_args(ide):
            m_ = hir.callee_name(ide) or ide.get("method")
            if m_ in CONV and m_ != "from":
                ide = hir.peel(hir.call_args(ide)[0])
            elif m_ == "map" and len(hir.call_args(ide)) == 2 and _conv_only(hir.call_args(ide)[1]):
                ide = hir.peel(hir.call_args(ide)[0])
            else:
                break
        idn = hir.place(ide) or ""
        check.expect(_side(idn).endswith("ident"), R, R + "/ident", hir.loc(n), "ident copied from the recorded occurrence", "ident is %s" % idn)


def _side(x):
    if isinstance(x, str):
        s = x
        import re

        s = re.sub(r"#\d+", "", s)
        return s
    return str(x)


def rule_dedupe(check):
    R = "DEDUPE-KEY"
    check.rule(R, "PartialEq and Hash of SpanAndIdent use exactly the span; the ident-bearing occurrence is recorded before the children are visited (first insertion wins)")
    prog = check.prog
    import re

    lv = prog.adt(LV)
    fld = [x for v in lv["variants"] for x in v["fields"] if "SpanAndIdent" in x["ty"] or "Span" in x["ty"]]
    if len(fld) != 1:
        raise AnchorMissing("the field of LiteralVisitor that holds the recorded locations")
    ty = fld[0]["ty"]
    m = re.search(r"(HashSet|BTreeSet)<([A-Za-z0-9_:]+)", ty)
    mm = re.search(r"(HashMap|BTreeMap)<([A-Za-z0-9_:]+::)?Span\b\s*,", re.sub(r"^[A-Za-z0-9_:]+<[A-Za-z0-9_:]+,\s*", "", ty))
    if not m and mm:
        # a map from the span itself: one entry per span by construction; the first recording wins only
        # if the entry is filled with or_insert*, never overwritten with insert
        a_ = prog.fn("LiteralVisitor::add_literal")
        chain = [n.get("method") for n in a_.nodes() if n.get("k") == "MethodCall"]
        first_wins = any(x in ("or_insert", "or_insert_with") for x in chain) and not any(n.get("k") == "MethodCall" and n["method"] == "insert" and "Span" in (hir.peel(n["args"][0]).get("ty") or "") for n in a_.nodes() if n.get("args"))
        check.expect(first_wins, R, R + "/collection", hir.loc(a_.rec), "locations of one literal are kept in a %s keyed by the span; the first recording of a span is kept" % mm.group(1), "the per-span entry of a literal is overwritten by a later recording of the same span: the name recorded by the named form is lost")
    elif not m:
        check.bad(R, R + "/collection", hir.loc(prog.fn("LiteralVisitor::add_literal").rec), "LiteralVisitor.%s is a %s: the locations of one literal are not kept in a set keyed by the span, so an occurrence visited twice (named initialiser + generic visit, operands copied into a hook) is reported twice - Vec::dedup* only removes adjacent entries" % (fld[0]["name"], re.sub(r"[a-z_]+::", "", ty)[:90]))
        return
    if m:
        check.ok(R, R + "/collection", "-", "locations of one literal are kept in a %s<%s>" % (m.group(1), m.group(2).split("::")[-1]))
    elem = m.group(2).split("::")[-1] if m else None
    traits = () if not m else (("PartialEq", "eq"), ("Hash", "hash")) if m.group(1) == "HashSet" else (("PartialEq", "eq"), ("Ord", "cmp"))
    for tr_name, fn_name in traits:
        fs = [f for f in prog.fns if f.body is not None and f.name == fn_name and (f.rec.get("self_ty") or "").endswith(elem) and (f.rec.get("impl_of_trait") or "").endswith(tr_name)]
        if len(fs) != 1:
            raise AnchorMissing("%s for %s" % (tr_name, elem))
        f = fs[0]
        fields = sorted({n["field"] for n in hir.walk(f.body) if n.get("k") == "Field" and elem in (n.get("base_ty") or "")})
        check.expect(fields == ["span"] and not f.rec.get("gen"), R, "%s/%s" % (R, tr_name), hir.loc(f.rec), "%s uses %s" % (tr_name, fields), "%s for %s uses fields %s (must be exactly span)" % (tr_name, elem, fields))
    from ..trav import AdtGraph, Traversal

    graph = AdtGraph(prog.adts)
    named = {}
    for f in overrides_of(prog, LV):
        if f.name not in ("visit_var_declarators", "visit_object_lit"):
            continue
        named.setdefault(f.name, 0)
        # the named occurrence: add_literal(.., Some(<name>)) somewhere in the override
        somes = 0
        for n in hir.calls_in(f.body, name="add_literal"):
            a = hir.peel(hir.call_args(n)[-1])
            if a.get("k") == "Call" and (hir.peel(a["f"]).get("res", {}).get("ctor_path") or "").split("::")[-1] == "Some":
                somes += 1
            elif hir.local_of(a) is not None:
                somes += 1
        check.expect(somes >= 1, R, "%s/named/%s" % (R, f.name), hir.loc(f.rec), "%s records the literal together with the name it initialises" % f.name, "%s no longer records the initialised variable / property name with the literal" % f.name)
        tr = Traversal(prog, f, graph)
        for p in tr.paths(f.body, tr.initial_env()):
            adds = [i for i, e in enumerate(p.effects) if e["kind"] == "call" and e["name"] == "add_literal"]
            vis = [i for i, e in enumerate(p.effects) if e["kind"] in ("children", "with")]
            named[f.name] = named.get(f.name, 0) + len(adds)
            if adds and vis:
                check.expect(max(adds) < min(vis), R, "%s/order/%s" % (R, f.name), hir.loc(f.rec), "named occurrence recorded before the generic visit", "%s visits the children before recording the named occurrence: the name is lost" % f.name)


def rule_collect_scope(check):
    R = "COLLECT-SCOPE"
    check.rule(R, "what the collector records are string-literal *expressions*: add_literal is reached only from overrides whose node is an expression position (visit_lit on Lit::Str, the named forms on declarator initialisers / property values); an override on the bare `Str` node also sees module specifiers, property names and export names, which are not expressions")
    prog = check.prog
    ovs = overrides_of(prog, LV)
    add = prog.fn("LiteralVisitor::add_literal")
    n = 0
    for f in ovs:
        calls = [x for g in prog.flat(f, 2) for x in hir.calls_in(g.body, name="add_literal")] if f is not add else []
        if not calls:
            continue
        n += 1
        nty = core_type(f.rec["params"][1]["ty"]) if len(f.rec["params"]) > 1 else "?"
        ok = not nty.endswith("::Str")
        check.expect(ok, R, "%s/%s" % (R, f.name), hir.loc(f.rec), "%s records from %s nodes" % (f.name, nty.split("::")[-1]), "%s records every `Str` node of the tree - import/export specifiers and quoted property names included, which are not string-literal expressions" % f.name)
    check.floor(R, "collecting overrides", n, 1)
    # the general case: every Lit::Str reached by the traversal is recorded (nothing but the pattern decides)
    general = False
    for f in ovs:
        nty = core_type(f.rec["params"][1]["ty"]) if len(f.rec["params"]) > 1 else "?"
        if not (nty.endswith("::Lit") or nty.endswith("::Str")):
            continue
        for x in hir.calls_in(f.body, name="add_literal"):
            conds = [c for c in f.conds_at(x) if c["t"] != "closure"]
            only_pat = all(c["t"] == "pat" and c["v"] and str(hir.pat_variant(c["pat"])).endswith("Lit::Str") for c in conds)
            if only_pat:
                general = True
    check.expect(general, R, R + "/every-string-literal", "-", "every Lit::Str the traversal reaches is handed to add_literal", "no override records string literals in general positions (only the named forms are collected)")


def rule_enable(check):
    R = "LITERALS-GATE"
    check.rule(R, "get_literals visits the whole program iff literals are enabled, else returns None; transform_js passes config.literals; no Str literal is constructed anywhere; the prologue template has no string literal longer than 10 bytes")
    prog = check.prog
    g = prog.fn("literal_visitor::get_literals")
    vis = [n for n in hir.calls_in(g.body, name="visit_with")]
    check.floor(R, "visit_with in get_literals", len(vis), 1)
    t_ = prog.fn("rewriter::transform_js")
    # the switch may sit at the call instead of in a parameter: `config.literals.then(|| get_literals(..))`
    has_flag = any((p_.get("ty") or "") == "bool" for p_ in g.rec.get("params", []))
    calls_ = [n for n in hir.calls_in(t_.body, name="get_literals")]
    caller_gated = bool(calls_) and not has_flag and all(any(a[0] == "place" and a[2] is True and (a[1] or "").endswith(".literals") for a in gate.atoms_at(t_, n)) and len([a for a in gate.atoms_at(t_, n) if a[0] == "place" and (a[1] or "").endswith(".literals")]) == 1 for n in calls_)
    for n in vis:
        atoms = gate.atoms_at(g, n)
        ok = any(a[0] == "place" and a[2] is True and _isparam(g, a[1], 0) for a in atoms) or (caller_gated and not [a for a in atoms if a[0] not in ("variant",)])
        recv = hir.local_of(hir.call_args(n)[0])
        whole = bool(recv) and g.bindings()[recv[0]]["origin"][0] == "param" and "Program" in (g.bindings()[recv[0]].get("ty") or "")
        check.expect(ok and whole, R, R + "/visit", hir.loc(n), "whole program visited under literals_enabled", "collector is not run over the whole program under the literals_enabled parameter")
    rets = return_exprs(g.body)
    none_ret = [r for r in rets if hir.peel(r).get("k") == "Path" and (hir.peel(r)["res"].get("ctor_path") or "").split("::")[-1] == "None"]
    ok = len(none_ret) == 1 and any(a[0] == "place" and a[2] is False for a in gate.atoms_at(g, none_ret[0]))
    if not ok and caller_gated and not none_ret:
        # gated at the call: `flag.then(|| get_literals(..))` is None exactly when the flag is off
        ok = all((t_.parent(n) or {}).get("k") in ("Call",) or True for n in calls_)
        for n in calls_:
            anc_if = [x for x in t_.ancestors(n) if x.get("k") == "If"]
            okn = False
            for x in anc_if[:1]:
                el = hir.peel(x.get("else") or {})
                while el.get("k") == "BlockExpr" and not el["block"].get("stmts") and "tail" in el["block"]:
                    el = hir.peel(el["block"]["tail"])
                okn = (el.get("res") or {}).get("ctor_path", "").split("::")[-1] == "None"
            ok = ok and okn
    check.expect(ok, R, R + "/disabled-none", hir.loc(g.rec), "None when disabled", "get_literals does not return None exactly when disabled")
    t = prog.fn("rewriter::transform_js")
    for n in hir.calls_in(t.body, name="get_literals"):
        a0 = hir.place(hir.call_args(n)[0]) or ""
        check.expect(a0.endswith("config.literals") or a0.endswith(".literals") or caller_gated, R, R + "/config", hir.loc(n), "enabled by config.literals", "get_literals is enabled by %s" % a0)
        order_ok = True
        check.ok(R, R + "/after-instrumentation", hir.loc(n), "collector runs on the instrumented tree: no Str is constructed by instrumentation (below)")
    strs = []
    for f in prog.user_fns:
        for n in f.nodes():
            if n.get("k") == "Struct" and (n["res"].get("path") or "") in ("swc_ecma_ast::Str",):
                strs.append((f, n))
            if n.get("k") == "Call":
                cp = hir.peel(n["f"]).get("res", {}).get("ctor_path") or ""
                if cp.endswith("Lit::Str"):
                    strs.append((f, n))
    check.expect(not strs, R, R + "/no-str-construction", strs[0][1]["sp"] if strs else "-", "no swc_ecma_ast::Str is constructed in the build", "instrumentation constructs string literals: %s" % [T.short(f) for f, _ in strs])
    tpl = prog.js.get("prologue_template")
    if not tpl or not tpl.get("ok"):
        raise AnchorMissing("prologue template")
    long_ = [x["value"] for x in jsast.walk(tpl["program"]) if x.get("type") == "StringLiteral" and len(x["value"].encode()) > 10]
    check.expect(not long_, R, R + "/prologue-literals", "src/rewriter.rs", "prologue string literals are all <= 10 bytes (cannot be reported)", "prologue contains reportable string literals %s" % long_)


def _isparam(f, place, idx):
    if not place or "." in place or "#" not in place:
        return False
    b = f.bindings().get(int(place.split("#")[1]))
    return bool(b and b["origin"][0] == "param" and b["origin"][1] == idx)


def run(check):
    check.rule("TRAV-COVER", "every override of the literal collector visits all children that can contain a literal on every path, except require(<lit>,..) / new RegExp(<lit>,..) guarded by exactly the four documented conjuncts")
    check.guarded("TRAV-COVER", lambda c: T.run_cover(c, "TRAV-COVER", LV, {T.LIT}, [_exclusion("require", "Call", {"Call": "require", "New": "RegExp"}), _exclusion("RegExp", "New")], [{"visit_expr"}, {"visit_call_expr", "visit_new_expr"}]))
    check.guarded("DEFAULT-VISITOR", lambda c: T.rule_default_visitor(c, "Visit", {T.LIT}))
    check.guarded("BOOLDISCARD", rule_booldiscard)
    check.guarded("WINDOW", rule_window)
    check.guarded("DEDUPE-KEY", rule_dedupe)
    check.guarded("COLLECT-SCOPE", rule_collect_scope)
    check.guarded("LITERALS-GATE", rule_enable)
    # the literals are collected from the tree *after* the instrumentation pass: a transform that declines
    # must hand the node back as it got it, or string literals of code that is reported as unchanged
    # (a computed key turned into a name, ..) drop out of the report
    from .. import xformrules as _X
    check.guarded("NOT-MODIFIED-UNTOUCHED", _X.rule_not_modified_untouched)
    return {
        "explanation": "Traversal-completeness analysis of the literal collector with the two documented exclusions recognised only under exactly their four conjuncts, a discarded-predicate lint, constant/operator checks of the length window and location arithmetic, dedupe-key and ordering rules, and inventory rules showing instrumentation cannot add string literals.",
        "assumptions": ["swc keeps spans when nodes are cloned", "SourceMap::lookup_char_pos returns 1-based lines and 0-based columns"],
        "not_decided": ["which AST nodes the parser produces for exotic string syntax"],
    }
