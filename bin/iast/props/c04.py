"""C04 - every enabled operation inside function bodies and blocks is instrumented.
Decided: traversal completeness of the instrumenting visitors (all paths of all overrides), the
dispatch of the five transforms, the block driver, the arrow-body normalisation and the receiver
table.  Not decided: that each transform, once reached, emits a hook for every operand shape."""
from .. import hir
from ..engine import AnchorMissing
from ..trav import AdtGraph, Traversal, overrides_of, core_type
from .. import travrules as T

OPV = "OperationTransformVisitor"
BTV = "BlockTransformVisitor"

TRANSFORMS = {
    # callee name -> (Expr variant, allowed gate kinds)
    "to_dd_binary_expr": ("Bin", {"variant", "other-arm", "plus-enabled", "op-is-add", "closure"}),
    "to_dd_assign_expr": ("Assign", {"variant", "other-arm", "plus-enabled", "op-is-add-assign", "closure"}),
    "to_dd_tpl_expr": ("Tpl", {"variant", "other-arm", "tpl-enabled", "tpl-instrumentable", "closure"}),
    "to_dd_call_expr": ("Call", {"variant", "other-arm", "callee-is-expr", "closure"}),
    "to_dd_cond_expr": ("OptChain", {"variant", "other-arm", "closure"}),
}


def classify_gate(fn, c, variant):
    """Classify one condition that guards a transform call inside visit_mut_expr."""
    t = c["t"]
    if t in ("closure", "loop"):
        return "closure"
    if t == "pat":
        v = hir.pat_variant(c["pat"])
        names = [v] if isinstance(v, str) else list(v or [])
        if c["v"]:
            if any(isinstance(x, str) and x.endswith("Expr::" + variant) for x in names):
                return "variant"
            return "unknown:pattern %s" % (v,)
        if any(isinstance(x, str) and x.endswith("Expr::" + variant) for x in names) or v == "_":
            return "unknown:an earlier arm already consumed Expr::%s" % variant
        return "other-arm"
    if t == "arm_not":
        v = hir.pat_variant(c["pat"])
        names = [v] if isinstance(v, str) else list(v or [])
        if any(isinstance(x, str) and (x.endswith("Expr::" + variant) or x == "_") for x in names):
            return "unknown:an earlier guarded arm may consume Expr::%s" % variant
        return "other-arm"
    if t == "bool":
        e = hir.peel(c["e"])
        # local boolean initialised from a csi_methods query
        l = hir.local_of(e)
        if l is not None:
            b = fn.bindings().get(l[0])
            if b and b["origin"][0] == "let" and b["origin"][1] is not None and not b["mut"]:
                e = hir.peel(b["origin"][1])
        if hir.is_call(e):
            nm = hir.callee_name(e)
            if nm == "plus_operator_is_enabled" and c["v"]:
                return "plus-enabled"
            if nm == "tpl_operator_is_enabled" and c["v"]:
                return "tpl-enabled"
            if nm == "is_expr" and c["v"] and T._place_ends(hir.call_args(e)[0], "callee"):
                return "callee-is-expr"
        if e.get("k") == "Binary" and e["op"] in ("Eq", "Ne"):
            sides = [hir.peel(e["l"]), hir.peel(e["r"])]
            ctor = [(s.get("res", {}).get("ctor_path") or "") for s in sides if s.get("k") == "Path"]
            fld = [s for s in sides if s.get("k") == "Field" and s["field"] == "op"]
            equal = (e["op"] == "Eq") == c["v"]
            if fld and ctor and equal:
                if ctor[0].endswith("BinaryOp::Add"):
                    return "op-is-add"
                if ctor[0].endswith("AssignOp::AddAssign"):
                    return "op-is-add-assign"
        tf = T.tpl_facts(c)
        if tf is not None and tf[0] == "all" and all(x in (("is_empty", False), ("all_non_lit", True)) for x in tf[1]):
            return "tpl-instrumentable"
        return "unknown:%s" % hir.cond_str(c)
    return "unknown:%s" % t


def rule_dispatch(check):
    prog = check.prog
    R = "TRAV-DISPATCH"
    check.rule(R, "in OperationTransformVisitor::visit_mut_expr each transform entry point is called on the arm of its node kind, gated by nothing but the documented conditions (operator enabled, op is +/+=, template instrumentable, callee is an expression)")
    ovs = [f for f in overrides_of(prog, OPV) if f.name == "visit_mut_expr"]
    if len(ovs) != 1:
        raise AnchorMissing("OperationTransformVisitor::visit_mut_expr")
    f = ovs[0]
    found = 0
    for name, (variant, allowed) in TRANSFORMS.items():
        sites = [n for n in hir.calls_in(f.body, name=name)]
        # also through helper methods of the visitor (one level)
        if not sites:
            for n, g in prog.local_callees(f):
                if g.body is not None and any(True for _ in hir.calls_in(g.body, name=name)):
                    sites.append(n)
        if not sites:
            check.bad(R, "%s/%s/missing" % (R, name), hir.loc(f.rec), "visit_mut_expr never calls %s: Expr::%s is not instrumented" % (name, variant))
            continue
        for n in sites:
            found += 1
            kinds = [classify_gate(f, c, variant) for c in f.conds_at(n)]
            unknown = [k for k in kinds if k.startswith("unknown:") or k not in allowed]
            has_variant = "variant" in kinds
            key = "%s/%s" % (R, name)
            if not has_variant:
                check.bad(R, key + "/arm", hir.loc(n), "%s is not called on a path where the expression is known to be Expr::%s" % (name, variant))
            elif unknown:
                check.bad(R, key + "/extra-gate", hir.loc(n), "%s is additionally gated by %s: enabled operations are skipped" % (name, "; ".join(u.replace("unknown:", "") for u in unknown)))
            else:
                check.ok(R, key, hir.loc(n), "called on Expr::%s under {%s}" % (variant, ", ".join(sorted(set(kinds) - {"closure", "other-arm"}))))
            # the result must replace the expression when it is modified
            applied = False
            par_fn = f
            for m in hir.walk(f.body):
                if hir.is_call(m) and hir.callee_name(m) == "map_with_mut":
                    cl = [a for a in hir.call_args(m)[1:] if hir.peel(a).get("k") == "Closure"]
                    if not cl:
                        continue
                    body = hir.peel(cl[0])["body"]
                    uses = [x for x in hir.walk(body) if hir.is_call(x) and hir.callee_name(x) in ("unwrap_or", "unwrap", "unwrap_or_else", "expect")]
                    for u in uses:
                        recv = hir.peel_transparent(hir.call_args(u)[0])
                        if recv.get("k") == "Field" and recv["field"] == "expr":
                            base = hir.local_of(recv["x"])
                            if base is None:
                                continue
                            b = f.bindings().get(base[0])
                            init = b and b["origin"][0] == "let" and b["origin"][1]
                            if init and any(x is n for x in hir.walk(init)):
                                applied = True
            check.expect(applied, R, key + "/applied", hir.loc(n), "result.expr replaces the expression through map_with_mut", "the result of %s is never written back into the tree" % name)
    check.floor(R, "transform call sites", found, 5)


def rule_block_driver(check):
    prog = check.prog
    R = "BLOCK-DRIVER"
    check.rule(R, "BlockTransformVisitor reaches every BlockStmt and, on every non-cancelled path, runs an OperationTransformVisitor over the block's children and then continues into nested blocks")
    graph = AdtGraph(prog.adts)
    ovs = [f for f in overrides_of(prog, BTV) if f.name == "visit_mut_block_stmt"]
    if len(ovs) != 1:
        raise AnchorMissing("BlockTransformVisitor::visit_mut_block_stmt")
    f = ovs[0]
    tr = Traversal(prog, f, graph)
    paths = tr.paths(f.body, tr.initial_env())
    n_ok = 0
    for p in paths:
        if p.unknown:
            check.bad(R, R + "/unanalysable", hir.loc(f.rec), "; ".join(p.unknown))
            continue
        entry_cancel = any((hir.cond_call(c) or [None])[0] == "visit_is_cancelled" and hir.cond_call(c)[3] for c in p.conds)
        cancels = any(e["kind"] == "call" and e["name"] == "cancel_visit" for e in p.effects)
        opv = [i for i, e in enumerate(p.effects) if e["kind"] == "children" and e["ap"] == () and e["vty"].endswith(OPV)]
        own = [i for i, e in enumerate(p.effects) if e["kind"] in ("children",) and e["ap"] == () and e["vty"].endswith(BTV)]
        cs = T.path_conds_str(p)
        if entry_cancel:
            check.ok(R, R + "/cancelled-entry", hir.loc(f.rec), "already cancelled: nothing to do (%s)" % cs)
            continue
        if not opv:
            check.bad(R, R + "/no-operation-visit", hir.loc(f.rec), "path (%s) never runs the operation visitor over the block" % cs)
            continue
        if cancels:
            check.ok(R, R + "/cancelled", hir.loc(f.rec), "operation visitor ran, rewrite refused (%s)" % cs)
            continue
        if not own or own[-1] < opv[0]:
            check.bad(R, R + "/no-nested-visit", hir.loc(f.rec), "path (%s) does not continue into nested blocks after instrumenting" % cs)
            continue
        n_ok += 1
        check.ok(R, R + "/path", hir.loc(f.rec), "operation visitor then nested blocks (%s)" % cs)
    check.floor(R, "instrumenting paths", n_ok, 1)
    # the operation visitor is built from this visitor's configuration
    lits = [n for n in hir.walk(f.body) if n.get("k") == "Struct" and (n["res"].get("path") or "").endswith(OPV)]
    check.floor(R, "OperationTransformVisitor constructions", len(lits), 1)
    for lit in lits:
        fields = {x["name"]: x["e"] for x in lit["fields"]}
        csi = hir.place(fields.get("csi_methods", {})) if "csi_methods" in fields else None
        check.expect(csi is not None and csi.endswith(".config.csi_methods"), R, R + "/csi-methods", hir.loc(lit), "operation visitor uses the configured csi_methods (%s)" % csi, "operation visitor is not built from self.config.csi_methods (%s)" % csi)
        st = hir.place(fields.get("transform_status", {})) if "transform_status" in fields else None
        check.expect(st is not None and st.endswith(".transform_status"), R, R + "/status", hir.loc(lit), "shares the visitor's transform status", "operation visitor does not share the transform status (%s)" % st)
    # the operation visitor stops at nested blocks and only there
    stop = [g for g in overrides_of(prog, OPV) if g.name == "visit_mut_block_stmt"]
    check.expect(len(stop) == 1, R, R + "/opv-stops-at-blocks", hir.loc(stop[0].rec) if stop else "-", "operation visitor leaves nested blocks to the driver (each block gets its own temporaries)", "OperationTransformVisitor no longer stops at nested blocks")


def rule_arrow_block(check):
    prog = check.prog
    R = "ARROW-BLOCK"
    check.rule(R, "an arrow function with an expression body is always rewritten into one with a block body `{ return <expr>; }` so that the block driver instruments it")
    f = prog.fn("ArrowTransform::to_dd_arrow_expr")
    arrow_enum = prog.adt("BlockStmtOrExpr")
    names = sorted(v["name"] for v in arrow_enum["variants"])
    check.expect(names == ["BlockStmt", "Expr"], R, R + "/variants", "-", "BlockStmtOrExpr has exactly {BlockStmt, Expr}", "BlockStmtOrExpr variants changed: %s" % names)
    # construction of the block body under is_expr()
    ctor = [n for n in hir.walk(f.body) if n.get("k") == "Call" and (hir.peel(n["f"]).get("res", {}).get("ctor_path") or "").endswith("BlockStmtOrExpr::BlockStmt")]
    check.floor(R, "block body constructions", len(ctor), 1)
    for n in ctor:
        conds = f.conds_at(n)
        gated = any((hir.cond_call(c) or [None])[0] == "is_expr" and hir.cond_call(c)[3] and T._place_ends(hir.cond_call(c)[2], "body") for c in conds)
        check.expect(gated, R, R + "/gate", hir.loc(n), "block body built when arrow.body.is_expr()", "block body construction is not guarded by arrow.body.is_expr()")
        rets = [m for m in hir.walk(n) if m.get("k") == "Struct" and (m["res"].get("path") or "").endswith("ReturnStmt")]
        ok = False
        for r in rets:
            for fld in r["fields"]:
                if fld["name"] == "arg":
                    ok = any(x.get("k") == "Field" and x["field"] == "body" for x in hir.walk(fld["e"])) or any(hir.local_of(x) for x in hir.walk(fld["e"]))
        # the return statement may be built in a separate `let`
        if not ok:
            for r in [m for m in hir.walk(f.body) if m.get("k") == "Struct" and (m["res"].get("path") or "").endswith("ReturnStmt")]:
                for fld in r["fields"]:
                    if fld["name"] == "arg" and any(x.get("k") == "Field" and x["field"] == "body" for x in hir.walk(fld["e"])):
                        ok = True
        check.expect(ok, R, R + "/return-arg", hir.loc(n), "the block returns the former expression body", "the new block does not return the former arrow body")
    # every non-modified return happens when the body is not an expression
    rets_nm = [n for n in hir.calls_in(f.body, name="not_modified")]
    for n in rets_nm:
        conds = f.conds_at(n)
        neg = any((hir.cond_call(c) or [None])[0] == "is_expr" and hir.cond_call(c)[3] is False for c in conds)
        check.expect(neg, R, R + "/not-modified-only-for-blocks", hir.loc(n), "not_modified only when the body already is a block", "to_dd_arrow_expr can leave an expression-bodied arrow untouched")
    # applied in visit_mut_expr
    v = [g for g in overrides_of(prog, OPV) if g.name == "visit_mut_expr"][0]
    sites = list(hir.calls_in(v.body, name="to_dd_arrow_expr"))
    check.floor(R, "to_dd_arrow_expr call sites", len(sites), 1)
    for n in sites:
        kinds = [classify_gate(v, c, "Arrow") for c in v.conds_at(n)]
        bad = [k for k in kinds if k.startswith("unknown:")]
        check.expect("variant" in kinds and not bad, R, R + "/dispatch", hir.loc(n), "called for every Expr::Arrow", "arrow normalisation is gated: %s" % "; ".join(bad))


def rule_receiver_table(check):
    prog = check.prog
    R = "RECEIVER-TABLE"
    check.rule(R, "the receiver kinds that lead to a hook are exactly {Lit (literal-caller methods only), Ident, Call, Paren, Array, Member (not .prototype unless .call/.apply)} and the literal-caller method set is {concat, replace, replaceAll, padStart, padEnd, repeat}")
    f = prog.fn("CallExprTransform::to_dd_call_expr")
    replace_fns = {"replace_call_expr_if_csi_method", "replace_prototype_call_or_apply", "replace_call_expr_if_csi_method_with_member"}
    got = {}
    for m in hir.walk(f.body):
        if m.get("k") != "Match":
            continue
        for a in m["arms"]:
            p = a["pat"]
            if p.get("k") != "Tuple" or len(p["pats"]) != 2:
                continue
            v = hir.pat_variant(p["pats"][0])
            v2 = hir.pat_variant(p["pats"][1])
            if not (isinstance(v, str) and "Expr::" in v):
                continue
            calls = [c for c in hir.walk(a["body"]) if hir.is_call(c) and hir.callee_name(c) in replace_fns]
            if calls:
                got.setdefault(v.split("::")[-1], []).append((a, calls, v2))
    expected = {"Lit", "Ident", "Call", "Paren", "Array", "Member"}
    for v in sorted(expected | set(got)):
        key = "%s/receiver/%s" % (R, v)
        if v in expected and v in got:
            a, calls, v2 = got[v][0]
            prop_ok = isinstance(v2, str) and v2.endswith("MemberProp::Ident")
            check.expect(prop_ok, R, key, hir.loc(calls[0]), "receiver Expr::%s with an identifier property leads to a hook" % v, "receiver Expr::%s arm does not match MemberProp::Ident (%s)" % (v, v2))
        elif v in expected:
            check.bad(R, key, hir.loc(f.rec), "receiver kind Expr::%s no longer leads to a hook" % v)
        else:
            check.bad(R, key, hir.loc(got[v][0][1][0]), "undocumented receiver kind Expr::%s leads to a hook" % v)
    # gates inside the Lit and Member arms
    if "Lit" in got:
        a, calls, _ = got["Lit"][0]
        for c in calls:
            conds = f.conds_at(c)
            arm_conds = [x for x in conds if x["t"] == "bool"]
            names = [(hir.cond_call(x) or [None])[0] for x in arm_conds]
            vals = [(hir.cond_call(x) or [None, None, None, None])[3] for x in arm_conds]
            ok = names == ["method_allows_literal_callers"] and vals == [True]
            check.expect(ok, R, R + "/lit-gate", hir.loc(c), "literal receivers only for methods that allow literal callers", "literal receiver gate is %s" % [hir.cond_str(x) for x in arm_conds])
    if "Member" in got:
        a, calls, _ = got["Member"][0]
        for c in calls:
            nm = hir.callee_name(c)
            arm_conds = [x for x in f.conds_at(c) if x["t"] == "bool"]
            desc = sorted(("%s=%s" % ((hir.cond_call(x) or ["?"])[0], (hir.cond_call(x) or [0, 0, 0, "?"])[3])) for x in arm_conds)
            if nm == "replace_prototype_call_or_apply":
                ok = desc == ["is_call_or_apply=True"]
            else:
                ok = desc == ["is_call_or_apply=False", "member_prop_is_prototype=False"]
            check.expect(ok, R, R + "/member-gate/" + nm, hir.loc(c), "member receiver gate {%s}" % ", ".join(desc), "member receiver gate is {%s}" % ", ".join(desc))
    # bare calls
    bare = [c for c in hir.walk(f.body) if hir.is_call(c) and hir.callee_name(c) == "replace_call_expr_if_csi_method_without_callee"]
    check.floor(R, "bare-call dispatch", len(bare), 1)
    # literal-caller set
    g = prog.fn("CsiMethods::new")
    sets = []
    for n in hir.walk(g.body):
        if n.get("k") == "Struct" and (n["res"].get("path") or "").endswith("CsiMethods"):
            for fld in n["fields"]:
                if fld["name"] == "method_with_literal_callers":
                    vals = sorted(x["lit"]["v"] for x in hir.walk(fld["e"]) if x.get("k") == "Lit" and x["lit"]["t"] == "str")
                    sets.append((n, vals))
    check.floor(R, "method_with_literal_callers initialisers", len(sets), 1)
    want = sorted(["concat", "replace", "replaceAll", "padStart", "padEnd", "repeat"])
    for n, vals in sets:
        check.expect(vals == want, R, R + "/literal-callers", hir.loc(n), "literal-caller methods = %s" % vals, "literal-caller methods are %s, documented %s" % (vals, want))
    h = prog.fn("CsiMethods::method_allows_literal_callers")
    contains = [c for c in hir.walk(h.body) if hir.is_call(c) and hir.callee_name(c) == "contains" and T._place_ends(hir.call_args(c)[0], "method_with_literal_callers")]
    check.expect(len(contains) == 1 and hir.peel(h.body) is contains[0], R, R + "/allows-literal", hir.loc(h.rec), "method_allows_literal_callers = membership in the set", "method_allows_literal_callers is not a plain membership test")


def run(check):
    check.rule("TRAV-COVER", "on every structural path of every visit_mut_* override of the instrumenting visitors, every child that can contain an expression is visited (visit_mut_with / visit_mut_children_with), unless the path matches a documented exclusion of the property statement")
    check.rule("TRAV-ROOT", "x.visit_mut_children_with(v) on a sub-node x whose type has an override in v bypasses that override for the root of x")

    def block_ok(tr, paths):
        return tr.visitor_ty_name().endswith(OPV)

    check.guarded("TRAV-COVER", lambda c: T.run_cover(c, "TRAV-COVER", OPV, {T.EXPR}, [T.excl_delete, T.excl_tpl_literal, T.excl_arrow], {"visit_mut_expr", "visit_mut_block_stmt"}, block_override_ok=block_ok))
    check.guarded("TRAV-COVER", lambda c: T.run_cover(c, "TRAV-COVER", BTV, {T.BLOCK}, [T.excl_cancelled], {"visit_mut_block_stmt"}))
    check.guarded("TRAV-COVER", lambda c: T.run_cover(c, "TRAV-COVER", "OptChainVisitor", {T.EXPR}, [excl_optchain_lowered], {"visit_mut_expr"}))
    check.guarded("DEFAULT-VISITOR", lambda c: T.rule_default_visitor(c, "VisitMut", {T.EXPR, T.BLOCK}))
    check.guarded("TRAV-DISPATCH", rule_dispatch)
    check.guarded("BLOCK-DRIVER", rule_block_driver)
    check.guarded("ARROW-BLOCK", rule_arrow_block)
    check.guarded("RECEIVER-TABLE", rule_receiver_table)
    return {
        "explanation": "Static traversal analysis over the typed HIR of the rewriter: all structural paths of every visitor override are enumerated and each must visit every expression-bearing child of its node (slots computed from the compiled swc_ecma_ast ADT graph) unless the path's conditions match a documented exclusion; plus dispatch/gating of the five transforms, block driver, arrow-body normalisation and receiver table.",
        "assumptions": [
            "the generated default methods of swc_ecma_visit::VisitMut visit every child of a node",
            "swc's parser classifies source constructs into the AST variants named in the rules",
        ],
        "not_decided": [
            "that each transform, once reached, emits a hook for every operand shape (C03/C05 rules cover parts)",
            "code generated by swc's parser for exotic syntax",
        ],
    }


def excl_optchain_lowered(tr, path, missing):
    # OptChainVisitor is a lowering helper run on one chain: what it does not enter is visited
    # afterwards by the operation visitor (expr.visit_mut_children_with after the transform).
    v = tr.variant_known(path, ())
    if isinstance(v, str) and v.endswith("Expr::OptChain"):
        return "lowering helper: the operation visitor traverses the result afterwards (checked by TRAV-COVER of the OptChain arm)"
    return None
