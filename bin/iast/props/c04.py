"""C04 - every enabled operation inside function bodies and blocks is instrumented.
Decided: traversal completeness of the instrumenting visitors (all paths of all overrides), the
dispatch of the five transforms, the block driver, the arrow-body normalisation and the receiver
table.  Not decided: that each transform, once reached, emits a hook for every operand shape."""
import re
from .. import hir
from ..engine import AnchorMissing
from ..trav import AdtGraph, Traversal, overrides_of, core_type
from .. import travrules as T
from .. import xformrules as X

OPV = "OperationTransformVisitor"
BTV = "BlockTransformVisitor"

TRANSFORMS = {
    # callee name -> (Expr variant, allowed gate kinds)
    "to_dd_binary_expr": ("Bin", {"variant", "other-arm", "plus-enabled", "op-is-add", "closure"}),
    "to_dd_assign_expr": ("Assign", {"variant", "other-arm", "plus-enabled", "op-is-add-assign", "closure"}),
    "to_dd_tpl_expr": ("Tpl", {"variant", "other-arm", "tpl-enabled", "tpl-instrumentable", "closure"}),
    "to_dd_call_expr": ("Call", {"variant", "other-arm", "callee-is-expr", "closure"}),
    "to_dd_cond_expr": ("OptChain", {"variant", "other-arm", "closure"}),
}


from .. import boolform as BF  # noqa: E402
from ..prov import Prov  # noqa: E402

EXPR = "swc_ecma_ast::Expr::"
GATES = {
    # transform entry point -> documented gate (all of it, and nothing else)
    "to_dd_binary_expr": ("Bin", ["is:" + EXPR + "Bin", "enabled.plus", "op.add"]),
    "to_dd_assign_expr": ("Assign", ["is:" + EXPR + "Assign", "enabled.plus", "op.addassign"]),
    "to_dd_tpl_expr": ("Tpl", ["is:" + EXPR + "Tpl", "enabled.tpl", "!tpl.empty", "tpl.allnonlit"]),
    "to_dd_call_expr": ("Call", ["is:" + EXPR + "Call", "callee.expr"]),
    "to_dd_cond_expr": ("OptChain", ["is:" + EXPR + "OptChain"]),
}


def dispatch_atomize(fn, e):
    e = hir.peel(e)
    if hir.is_call(e):
        nm = hir.callee_name(e) or e.get("method")
        # the configuration answer itself, read directly: `<csi methods>.plus_operator.is_some()`
        if nm in ("is_some", "is_none") and hir.call_args(e):
            pl_ = hir.place(hir.call_args(e)[0]) or ""
            for fld_, at_ in ((".plus_operator", "enabled.plus"), (".tpl_operator", "enabled.tpl")):
                if pl_.endswith(fld_):
                    return BF.atom(at_) if nm == "is_some" else BF.neg(BF.atom(at_))
        if nm == "plus_operator_is_enabled":
            return BF.atom("enabled.plus")
        if nm == "tpl_operator_is_enabled":
            return BF.atom("enabled.tpl")
        if nm == "is_expr" and T._place_ends(hir.call_args(e)[0], "callee"):
            return BF.atom("callee.expr")
        k = T._tpl_conj_kind(e)
        if k is not None:
            a = BF.atom("tpl.empty" if k[0] == "is_empty" else "tpl.allnonlit")
            return BF.neg(a) if k[1] else a
    if e.get("k") == "Binary" and e["op"] in ("Eq", "Ne"):
        sides = [hir.peel(e["l"]), hir.peel(e["r"])]
        ctor = [(s_.get("res", {}).get("ctor_path") or "") for s_ in sides if s_.get("k") == "Path"]
        fld = [s_ for s_ in sides if s_.get("k") == "Field" and s_["field"] == "op"]
        if fld and ctor:
            a = None
            if ctor[0].endswith("BinaryOp::Add"):
                a = BF.atom("op.add")
            elif ctor[0].endswith("AssignOp::AddAssign"):
                a = BF.atom("op.addassign")
            if a is not None:
                return a if e["op"] == "Eq" else BF.neg(a)
    return None


def _gate_formula(names):
    return [BF.neg(BF.atom(n[1:])) if n.startswith("!") else BF.atom(n) for n in names]


_PROG = [None]


def classify_gate(fn, c, variant):
    """Classify one condition that guards a transform call inside visit_mut_expr."""
    t = c["t"]
    if t in ("closure", "loop"):
        return "closure"
    if t == "pat":
        v = hir.pat_variant(c["pat"])
        names = [v] if isinstance(v, str) else list(v or [])
        if c["v"]:
            if any(isinstance(x, str) and x.endswith("Expr::" + variant) for x in names):
                return "variant"
            return "unknown:pattern %s" % (v,)
        if any(isinstance(x, str) and x.endswith("Expr::" + variant) for x in names) or v == "_":
            return "unknown:an earlier arm already consumed Expr::%s" % variant
        return "other-arm"
    if t == "arm_not":
        v = hir.pat_variant(c["pat"])
        names = [v] if isinstance(v, str) else list(v or [])
        if any(isinstance(x, str) and (x.endswith("Expr::" + variant) or x == "_") for x in names):
            return "unknown:an earlier guarded arm may consume Expr::%s" % variant
        return "other-arm"
    if t == "bool":
        e = hir.peel(c["e"])
        # local boolean initialised from a csi_methods query
        l = hir.local_of(e)
        if l is not None:
            b = fn.bindings().get(l[0])
            if b and b["origin"][0] == "let" and b["origin"][1] is not None and not b["mut"]:
                e = hir.peel(b["origin"][1])
        if hir.is_call(e):
            nm = hir.callee_name(e)
            if nm == "plus_operator_is_enabled" and c["v"]:
                return "plus-enabled"
            if nm == "tpl_operator_is_enabled" and c["v"]:
                return "tpl-enabled"
            if nm == "is_expr" and c["v"] and T._place_ends(hir.call_args(e)[0], "callee"):
                return "callee-is-expr"
        if e.get("k") == "Binary" and e["op"] in ("Eq", "Ne"):
            sides = [hir.peel(e["l"]), hir.peel(e["r"])]
            ctor = [(s.get("res", {}).get("ctor_path") or "") for s in sides if s.get("k") == "Path"]
            fld = [s for s in sides if s.get("k") == "Field" and s["field"] == "op"]
            equal = (e["op"] == "Eq") == c["v"]
            if fld and ctor and equal:
                if ctor[0].endswith("BinaryOp::Add"):
                    return "op-is-add"
                if ctor[0].endswith("AssignOp::AddAssign"):
                    return "op-is-add-assign"
        tf = T.tpl_facts(c, _PROG[0])
        if tf is not None and tf[0] == "all" and all(x in (("is_empty", False), ("all_non_lit", True)) for x in tf[1]):
            return "tpl-instrumentable"
        return "unknown:%s" % hir.cond_str(c)
    return "unknown:%s" % t


def rule_dispatch(check):
    prog = check.prog
    _PROG[0] = prog
    R = "TRAV-DISPATCH"
    check.rule(R, "in OperationTransformVisitor::visit_mut_expr each transform entry point is called on the arm of its node kind, gated by nothing but the documented conditions (operator enabled, op is +/+=, template instrumentable, callee is an expression)")
    ovs = [f for f in overrides_of(prog, OPV) if f.name == "visit_mut_expr"]
    if len(ovs) != 1:
        raise AnchorMissing("OperationTransformVisitor::visit_mut_expr")
    f = ovs[0]
    found = 0
    for name, (variant, allowed) in TRANSFORMS.items():
        sites = [n for n in hir.calls_in(f.body, name=name)]
        inner = {}
        # also through helper methods of the visitor (one level)
        if not sites:
            for n, g in prog.local_callees(f):
                if g.body is not None and any(True for _ in hir.calls_in(g.body, name=name)):
                    sites.append(n)
                    inner[n["id"]] = (g, list(hir.calls_in(g.body, name=name))[0])
        if not sites:
            check.bad(R, "%s/%s/missing" % (R, name), hir.loc(f.rec), "visit_mut_expr never calls %s: Expr::%s is not instrumented" % (name, variant))
            continue
        for n in sites:
            found += 1
            g_in, n_in = inner.get(n["id"], (None, None))
            conds = [c for c in f.conds_at(n)]
            premises = BF.from_conds(f, conds, dispatch_atomize, prog)
            if g_in is not None:
                premises += BF.from_conds(g_in, g_in.conds_at(n_in), dispatch_atomize, prog)
            gate_f = _gate_formula(GATES[name][1])
            key = "%s/%s" % (R, name)
            if name == "to_dd_call_expr" and not BF.entails(premises, BF.atom("callee.expr")) and _callee_kind_checked_inside(prog):
                # the caller's `callee.is_expr()` test is redundant when the transform itself takes the callee
                # apart and answers not-modified for `super(..)` / `import(..)` before doing anything else
                gate_f = [g for g in gate_f if not BF.entails([BF.atom("callee.expr")], g) or BF.entails([], g)] or gate_f
                gate_f = [g for g in gate_f if BF.show(g) != "callee.expr"]
            sound = all(BF.entails(premises, g) for g in gate_f)
            complete = all(BF.entails(gate_f, p_) for p_ in premises)
            if not BF.entails(premises, gate_f[0]):
                check.bad(R, key + "/arm", hir.loc(n), "%s is not called on a path where the expression is known to be Expr::%s" % (name, variant))
            elif not sound:
                missing_g = [BF.show(g) for g in gate_f if not BF.entails(premises, g)]
                check.bad(R, key + "/gate", hir.loc(n), "%s is called although %s is not established on the path (conditions: %s)" % (name, " && ".join(missing_g), "; ".join(BF.show(p_) for p_ in premises)))
            elif not complete:
                extra = [BF.show(p_) for p_ in premises if not BF.entails(gate_f, p_)]
                check.bad(R, key + "/extra-gate", hir.loc(n), "%s is additionally gated by %s: enabled operations are skipped" % (name, "; ".join(extra)))
            else:
                check.ok(R, key, hir.loc(n), "called exactly when %s" % " && ".join(GATES[name][1]))
            # the result must replace the expression when it is modified: result.expr flows into the
            # visited node, through map_with_mut(|e| ..) or by assignment to the node
            applied = False
            par_fn, target = inner.get(n["id"], (f, n))
            pvd = Prov(prog, opaque=set(GATES))
            cands = []
            for m in hir.walk(par_fn.body):
                if hir.is_call(m) and hir.callee_name(m) == "map_with_mut":
                    cl = [a_ for a_ in hir.call_args(m)[1:] if hir.peel(a_).get("k") == "Closure"]
                    if cl:
                        from ..prov import return_exprs as _rets

                        cands += _rets(hir.peel(cl[0])["body"])
                if m.get("k") == "Assign" and hir.peel(m["l"]).get("k") == "Path" and hir.local_of(m["l"]):
                    bnd = par_fn.bindings().get(hir.local_of(m["l"])[0])
                    if bnd and bnd["origin"][0] in ("param", "match"):
                        cands.append(m["r"])
            for v_ in cands:
                for r_, p__ in pvd.origins(par_fn, v_):
                    if r_[0] == "call" and r_[1].split("::")[-1] == name and len(r_) > 3 and r_[3] == target["id"] and any(str(x).split(".")[-1] == "expr" for x in p__):
                        applied = True
            if not applied:
                # handed to a crate function that does the replacing: `f(..).replace_if_modified(expr)` with
                # `*target = <result>.expr` (under `if let Some(..)`) inside
                pc = par_fn.parent(target)
                while pc is not None and pc.get("k") in ("DropTemps", "Use", "AddrOf"):
                    pc = par_fn.parent(pc)
                h_ = prog.resolve_local(pc) if pc is not None and hir.is_call(pc) else None
                if h_ is not None and h_.body is not None:
                    ai = [i_ for i_, a_ in enumerate(hir.call_args(pc)) if hir.peel(a_) is target or any(x is target for x in hir.walk(a_))]
                    pvh = Prov(prog)
                    for m in hir.walk(h_.body):
                        if m.get("k") != "Assign":
                            continue
                        lp = (hir.place(m["l"]) or "").lstrip("*")
                        lroot = lp.split(".")[0]
                        lb = h_.bindings().get(int(lroot.split("#")[1])) if "#" in lroot and lroot.split("#")[1].isdigit() else None
                        if not (lb and lb["origin"][0] == "param" and "." not in lp):
                            continue
                        for r_, p__ in pvh.origins(h_, m["r"]):
                            if r_[0] == "param" and ai and r_[2] == ai[0] and any(str(x).split(".")[-1] == "expr" for x in p__):
                                applied = True
            check.expect(applied, R, key + "/applied", hir.loc(n), "result.expr replaces the expression through map_with_mut", "the result of %s is never written back into the tree" % name)
    check.floor(R, "transform call sites", found, 5)


def rule_block_driver(check):
    prog = check.prog
    R = "BLOCK-DRIVER"
    check.rule(R, "BlockTransformVisitor reaches every BlockStmt and, on every non-cancelled path, runs an OperationTransformVisitor over the block's children and then continues into nested blocks")
    graph = AdtGraph(prog.adts)
    ovs = [f for f in overrides_of(prog, BTV) if f.name == "visit_mut_block_stmt"]
    if len(ovs) != 1:
        raise AnchorMissing("BlockTransformVisitor::visit_mut_block_stmt")
    f = ovs[0]
    tr = Traversal(prog, f, graph)
    paths = tr.paths(f.body, tr.initial_env())
    n_ok = 0
    for p in paths:
        if p.unknown:
            check.bad(R, R + "/unanalysable", hir.loc(f.rec), "; ".join(p.unknown))
            continue
        entry_cancel = any(T.cond_cancelled(prog, c) for c in p.conds)
        cancels = any(T.effect_cancels(prog, e) for e in p.effects)
        opv = [i for i, e in enumerate(p.effects) if e["kind"] == "children" and e["ap"] == () and e["vty"].endswith(OPV)]
        own = [i for i, e in enumerate(p.effects) if e["kind"] in ("children",) and e["ap"] == () and e["vty"].endswith(BTV)]
        cs = T.path_conds_str(p)
        if entry_cancel:
            check.ok(R, R + "/cancelled-entry", hir.loc(f.rec), "already cancelled: nothing to do (%s)" % cs)
            continue
        if not opv:
            check.bad(R, R + "/no-operation-visit", hir.loc(f.rec), "path (%s) never runs the operation visitor over the block" % cs)
            continue
        if cancels:
            check.ok(R, R + "/cancelled", hir.loc(f.rec), "operation visitor ran, rewrite refused (%s)" % cs)
            continue
        if not own or own[-1] < opv[0]:
            check.bad(R, R + "/no-nested-visit", hir.loc(f.rec), "path (%s) does not continue into nested blocks after instrumenting" % cs)
            continue
        n_ok += 1
        check.ok(R, R + "/path", hir.loc(f.rec), "operation visitor then nested blocks (%s)" % cs)
    check.floor(R, "instrumenting paths", n_ok, 1)
    # the operation visitor is built from this visitor's configuration
    lits = [n for n in hir.walk(f.body) if n.get("k") == "Struct" and (n["res"].get("path") or "").endswith(OPV)]
    check.floor(R, "OperationTransformVisitor constructions", len(lits), 1)
    for lit in lits:
        fields = {x["name"]: x["e"] for x in lit["fields"]}
        csi = hir.place(fields.get("csi_methods", {})) if "csi_methods" in fields else None
        check.expect(csi is not None and csi.endswith(".config.csi_methods"), R, R + "/csi-methods", hir.loc(lit), "operation visitor uses the configured csi_methods (%s)" % csi, "operation visitor is not built from self.config.csi_methods (%s)" % csi)
        st = hir.place(fields.get("transform_status", {})) if "transform_status" in fields else None
        check.expect(st is not None and st.endswith(".transform_status"), R, R + "/status", hir.loc(lit), "shares the visitor's transform status", "operation visitor does not share the transform status (%s)" % st)
    # the operation visitor stops at nested blocks and only there
    stop = [g for g in overrides_of(prog, OPV) if g.name == "visit_mut_block_stmt"]
    check.expect(len(stop) == 1, R, R + "/opv-stops-at-blocks", hir.loc(stop[0].rec) if stop else "-", "operation visitor leaves nested blocks to the driver (each block gets its own temporaries)", "OperationTransformVisitor no longer stops at nested blocks")


def rule_pipeline(check):
    """PIPELINE (C04): every parsed program is handed to the block driver"""
    R = "PIPELINE"
    check.rule(R, "on the way from rewrite_js to the block driver nothing decides whether a program is instrumented: the site that runs BlockTransformVisitor over the program, and every call leading to it from rewrite_js, is unconditional apart from error propagation (`?`, and_then on the parse result). A pre-check - textual or structural - that skips the visit leaves enabled operations uninstrumented in whatever it misjudges")
    prog = check.prog
    rj = prog.fn("rewriter::rewrite_js")
    sites = []
    for g in prog.flat(rj, 3):
        for x in g.nodes():
            if x.get("k") == "MethodCall" and x["method"] in ("visit_mut_with", "visit_mut_children_with") and x["args"] and "BlockTransformVisitor" in (hir.peel(x["args"][0]).get("ty") or "") and "Program" in (hir.peel(x["recv"]).get("ty") or ""):
                sites.append((g, x))
    check.floor(R, "sites that run the block driver over the program", len(sites), 1)
    for g, x in sites:
        cur_f, cur_n = g, x
        extra = []
        for _ in range(5):
            for c in cur_f.conds_at(cur_n):
                if c["t"] in ("closure", "try"):
                    continue
                extra.append(hir.cond_str(c))
            if cur_f is rj:
                break
            parent = cur_f
            while parent.rec.get("parent_fn") and prog.by_def.get(parent.rec["parent_fn"]) is not None:
                parent = prog.by_def[parent.rec["parent_fn"]]
            up = [(cf, c) for cf, c in prog.sites_calling(parent) if hir.is_call(c)]
            if len(up) != 1:
                break
            cur_f, cur_n = up[0]
        check.expect(not extra, R, R + "/unconditional", hir.loc(x), "the block driver runs over every parsed program", "whether a program is instrumented at all depends on [%s]: enabled operations in a file this test misjudges stay uninstrumented" % "; ".join(extra))


def rule_arrow_block(check):
    prog = check.prog
    R = "ARROW-BLOCK"
    check.rule(R, "an arrow function with an expression body is always rewritten into one with a block body `{ return <expr>; }` so that the block driver instruments it")
    f = prog.fn("ArrowTransform::to_dd_arrow_expr")
    arrow_enum = prog.adt("BlockStmtOrExpr")
    names = sorted(v["name"] for v in arrow_enum["variants"])
    check.expect(names == ["BlockStmt", "Expr"], R, R + "/variants", "-", "BlockStmtOrExpr has exactly {BlockStmt, Expr}", "BlockStmtOrExpr variants changed: %s" % names)
    # construction of the block body under is_expr()
    ctor = [n for n in hir.walk(f.body) if n.get("k") == "Call" and (hir.peel(n["f"]).get("res", {}).get("ctor_path") or "").endswith("BlockStmtOrExpr::BlockStmt")]
    check.floor(R, "block body constructions", len(ctor), 1)
    def body_kind(conds):
        """'expr' / 'block' / None: what the conditions say about arrow.body (is_expr() tests or patterns
        on the two-variant BlockStmtOrExpr)"""
        for c in conds:
            cc = hir.cond_call(c)
            if cc and cc[0] in ("is_expr", "is_block_stmt") and T._place_ends(cc[2], "body"):
                return ("expr" if cc[3] else "block") if cc[0] == "is_expr" else ("block" if cc[3] else "expr")
            if c["t"] == "pat" and c.get("scrut") is not None and (hir.place(c["scrut"]) or "").endswith(".body"):
                v = str(hir.pat_variant(c["pat"]))
                if v.endswith("BlockStmtOrExpr::Expr"):
                    return "expr" if c["v"] else "block"
                if v.endswith("BlockStmtOrExpr::BlockStmt"):
                    return "block" if c["v"] else "expr"
        return None

    pva = Prov(prog)
    for n in ctor:
        conds = f.conds_at(n)
        gated = body_kind(conds) == "expr"
        check.expect(gated, R, R + "/gate", hir.loc(n), "block body built when arrow.body.is_expr()", "block body construction is not guarded by arrow.body.is_expr()")
        rets = [m for m in hir.walk(n) if m.get("k") == "Struct" and (m["res"].get("path") or "").endswith("ReturnStmt")]
        ok = False
        for r in rets:
            for fld in r["fields"]:
                if fld["name"] == "arg":
                    ok = any(x.get("k") == "Field" and x["field"] == "body" for x in hir.walk(fld["e"])) or any(hir.local_of(x) for x in hir.walk(fld["e"]))
        # the return statement may be built in a separate `let`
        if not ok:
            for r in [m for m in hir.walk(f.body) if m.get("k") == "Struct" and (m["res"].get("path") or "").endswith("ReturnStmt")]:
                for fld in r["fields"]:
                    if fld["name"] == "arg" and any(x.get("k") == "Field" and x["field"] == "body" for x in hir.walk(fld["e"])):
                        ok = True
        if not ok:
            # by provenance: the returned expression is (part of) the body of the arrow parameter
            for r in [m for m in hir.walk(f.body) if m.get("k") == "Struct" and (m["res"].get("path") or "").endswith("ReturnStmt")]:
                for fld in r["fields"]:
                    if fld["name"] == "arg":
                        os_ = pva.origins(f, fld["e"])
                        if os_ and all(r_[0] == "param" and p_ and str(p_[0]).split(".")[-1] == "body" for r_, p_ in os_):
                            ok = True
        if not ok:
            # the return statement is built by a helper: what the helper returns, seen from this function
            for g_ in prog.flat(f, 2):
                if g_ is f:
                    continue
                for r in [m for m in hir.walk(g_.body) if m.get("k") == "Struct" and (m["res"].get("path") or "").endswith("ReturnStmt")]:
                    for fld in r["fields"]:
                        if fld["name"] == "arg":
                            os_ = pva.origins_upto(f, g_, fld["e"])
                            if os_ and all(r_[0] == "param" and r_[1] == f.def_path and p_ and str(p_[0]).split(".")[-1] == "body" for r_, p_ in os_):
                                ok = True
        check.expect(ok, R, R + "/return-arg", hir.loc(n), "the block returns the former expression body", "the new block does not return the former arrow body")
    # every non-modified return happens when the body is not an expression
    rets_nm = [n for n in hir.calls_in(f.body, name="not_modified")]
    for n in rets_nm:
        conds = f.conds_at(n)
        neg = body_kind(conds) == "block"
        check.expect(neg, R, R + "/not-modified-only-for-blocks", hir.loc(n), "not_modified only when the body already is a block", "to_dd_arrow_expr can leave an expression-bodied arrow untouched")
    # applied in visit_mut_expr
    v = [g for g in overrides_of(prog, OPV) if g.name == "visit_mut_expr"][0]
    sites = [(v, n, []) for n in hir.calls_in(v.body, name="to_dd_arrow_expr")]
    if not sites:
        # through a method of the visitor (one level): the conditions of both levels apply
        for n0, g in prog.local_callees(v):
            if g.body is not None:
                for n in hir.calls_in(g.body, name="to_dd_arrow_expr"):
                    sites.append((g, n, v.conds_at(n0)))
    check.floor(R, "to_dd_arrow_expr call sites", len(sites), 1)
    for g, n, outer in sites:
        kinds = [classify_gate(v, c, "Arrow") for c in outer] + [classify_gate(g, c, "Arrow") for c in g.conds_at(n)]
        bad = [k for k in kinds if k.startswith("unknown:")]
        check.expect("variant" in kinds and not bad, R, R + "/dispatch", hir.loc(n), "called for every Expr::Arrow", "arrow normalisation is gated: %s" % "; ".join(bad))


PRED_GATES = {"method_allows_literal_callers", "is_call_or_apply", "member_prop_is_prototype"}
REPLACE_FNS = {"replace_call_expr_if_csi_method", "replace_prototype_call_or_apply", "replace_call_expr_if_csi_method_with_member"}


def _pat_accepts(p, variant):
    """Does pattern p accept an Expr of the given variant?  (True / False)"""
    k = p.get("k")
    if k in ("Wild",):
        return True
    if k == "Binding":
        return _pat_accepts(p["sub"], variant) if "sub" in p else True
    if k in ("Box", "Deref", "Ref", "Guard"):
        return _pat_accepts(p["inner"], variant)
    if k == "Or":
        return any(_pat_accepts(q, variant) for q in p["pats"])
    if k in ("TupleStruct", "Struct", "Path"):
        v = hir.pat_variant(p)
        return isinstance(v, str) and v.split("::")[-1] == variant and "Expr" in v
    return False


def _gates_of(fn, e, val):
    out = []
    for c in hir.split_cond(e, val):
        if c["t"] != "bool":
            out.append(("?" + hir.cond_str(c), True))
            continue
        x = hir.peel(c["e"])
        if hir.is_call(x) and (hir.callee_name(x) or x.get("method")) in PRED_GATES:
            out.append((hir.callee_name(x) or x.get("method"), c["v"]))
        else:
            out.append(("?" + hir.describe(x), c["v"]))
    return out


def _is_receiver_scrut(fn, pv, e):
    """(is the match about the receiver object?, index of the receiver in a tuple scrutinee or None)"""
    x = hir.peel(e)
    cands = [(None, x)]
    if x.get("k") == "Tup":
        cands = [(i, el) for i, el in enumerate(x["elems"])]
    for i, el in cands:
        os_ = pv.origins(fn, el)
        if os_ and all(p and p[-1].split(".")[-1] == "obj" for r, p in os_) and "swc_ecma_ast::Expr" in (hir.peel(el).get("ty") or ""):
            return True, i
    return False, None


def _outcomes(prog, fn, pv, n, variant, gates):
    """set of (replace fn called | None, frozenset(gates)) reachable when the receiver has `variant`"""
    n = hir.peel(n)
    k = n.get("k")
    if k == "BlockExpr":
        b = n["block"]
        res = set()
        # statements may contain the interesting match in a `let x = match ..`
        tails = []
        for st in b["stmts"]:
            e = st.get("init") if st["k"] == "Let" else st.get("e")
            if e is not None:
                tails.append(e)
        if "tail" in b:
            tails.append(b["tail"])
        acc = list(gates)
        for e in tails:
            res |= {o for o in _outcomes(prog, fn, pv, e, variant, acc) if o[0] is not None}
            pe = hir.peel(e)
            if pe.get("k") == "If" and "else" not in pe and hir.diverges(pe["then"]):
                # a guard clause: what follows runs under the negated condition
                acc = acc + _gates_of(fn, pe["cond"], False)
        return res or {(None, frozenset(acc))}
    if k == "Ret" and n.get("x") is not None:
        return _outcomes(prog, fn, pv, n["x"], variant, gates)
    if hir.is_call(n):
        name = hir.callee_name(n) or n.get("method")
        if name in REPLACE_FNS:
            return {(name, frozenset(gates))}
        h = prog.resolve_local(n)
        if h is not None and h is not fn and h.body is not None and len(gates) < 12 and any((hir.callee_name(x) or x.get("method")) in REPLACE_FNS for hh in prog.flat(h, 2) for x in hir.walk(hh.body) if hir.is_call(x)):
            # a crate helper on the way to the hook builders: evaluated in place
            return _outcomes(prog, h, pv, h.body, variant, gates)
        res = set()
        for a in hir.call_args(n):
            res |= {o for o in _outcomes(prog, fn, pv, a, variant, gates) if o[0] is not None}
        return res or {(None, frozenset(gates))}
    if k == "If":
        res = set()
        res |= _outcomes(prog, fn, pv, n["then"], variant, gates + _gates_of(fn, n["cond"], True))
        if "else" in n:
            res |= _outcomes(prog, fn, pv, n["else"], variant, gates + _gates_of(fn, n["cond"], False))
        else:
            res.add((None, frozenset(gates + _gates_of(fn, n["cond"], False))))
        return res
    if k == "Match":
        is_recv, idx = _is_receiver_scrut(fn, pv, n["scrut"])
        res = set()
        acc = list(gates)
        for a in n["arms"]:
            pat = a["pat"]
            if is_recv:
                rp = pat
                if idx is not None:
                    if pat.get("k") != "Tuple" or idx >= len(pat["pats"]):
                        rp = None if pat.get("k") not in ("Wild", "Binding") else pat
                    else:
                        rp = pat["pats"][idx]
                        # the other tuple elements must accept an identifier property
                        others = [q for j, q in enumerate(pat["pats"]) if j != idx]
                        if any(q.get("k") in ("TupleStruct", "Struct", "Path") and not str(hir.pat_variant(q)).endswith("MemberProp::Ident") for q in others):
                            continue
                if rp is None or not _pat_accepts(rp, variant):
                    continue
            g = list(acc)
            if "guard" in a:
                g_true = g + _gates_of(fn, a["guard"], True)
                res |= _outcomes(prog, fn, pv, a["body"], variant, g_true)
                acc = acc + _gates_of(fn, a["guard"], False)
                continue
            res |= _outcomes(prog, fn, pv, a["body"], variant, g)
            if is_recv:
                break  # an unguarded accepting arm ends the match for this variant
        return res or {(None, frozenset(acc))}
    if k == "Closure":
        return _outcomes(prog, fn, pv, n["body"], variant, gates)
    return {(None, frozenset(gates))}


def rule_receiver_table(check):
    prog = check.prog
    R = "RECEIVER-TABLE"
    check.rule(R, "evaluated symbolically per receiver kind over the match structure of to_dd_call_expr: Ident, Call, Paren and Array receivers always lead to a hook; Lit only for literal-caller methods; Member leads to the prototype path iff the property is call/apply, else to a plain hook unless the object is a `.prototype` member; no other receiver kind does; the literal-caller method set is {concat, replace, replaceAll, padStart, padEnd, repeat}")
    from ..prov import Prov

    f = prog.fn("CallExprTransform::to_dd_call_expr")
    pv = Prov(prog)
    plain = "replace_call_expr_if_csi_method"
    expected = {
        "Lit": {(plain, frozenset({("method_allows_literal_callers", True)}))},
        "Ident": {(plain, frozenset())},
        "Call": {(plain, frozenset())},
        "Paren": {(plain, frozenset())},
        "Array": {(plain, frozenset())},
        "Member": {("replace_prototype_call_or_apply", frozenset({("is_call_or_apply", True)})), (plain, frozenset({("is_call_or_apply", False), ("member_prop_is_prototype", False)}))},
    }
    others = [v["name"] for v in prog.adt("swc_ecma_ast::Expr")["variants"] if v["name"] not in expected and not v["name"].startswith(("Ts", "JSX"))]
    n_hook = 0
    for variant in list(expected) + others:
        outs = {(c if c != "replace_call_expr_if_csi_method_with_member" else plain, g) for c, g in _outcomes(prog, f, pv, f.body, variant, []) if c is not None}
        want = expected.get(variant, set())
        key = "%s/receiver/%s" % (R, variant)
        show = lambda s: sorted((c, sorted(g)) for c, g in s)
        if outs:
            n_hook += 1
        if outs == want:
            check.ok(R, key, hir.loc(f.rec), "Expr::%s -> %s" % (variant, show(outs) or "no hook"))
        else:
            check.bad(R, key, hir.loc(f.rec), "receiver kind Expr::%s leads to %s, documented %s" % (variant, show(outs) or "no hook", show(want) or "no hook"))
    check.floor(R, "receiver kinds leading to a hook", n_hook, 6)
    # identifier property required
    def upto_replace(f0):
        """to_dd_call_expr and the crate helpers it is split into, not entering the hook builders"""
        out_, seen_, work_ = [], set(), [f0]
        while work_:
            g_ = work_.pop()
            if g_.def_path in seen_ or g_.body is None:
                continue
            seen_.add(g_.def_path)
            out_.append(g_)
            for x in hir.walk(g_.body):
                if hir.is_call(x) and (hir.callee_name(x) or x.get("method")) not in REPLACE_FNS and hir.callee_name(x) != "replace_call_expr_if_csi_method_without_callee":
                    h_ = prog.resolve_local(x)
                    if h_ is not None and not h_.rec.get("gen") and len(out_) < 6:
                        work_.append(h_)
        return out_

    fam = upto_replace(f)

    def under_ident(f_, c, depth=0):
        """the site runs under a `MemberProp::Ident` pattern: in its own function, or at every site its
        function is called from (the helpers to_dd_call_expr is split into)"""
        for cd in f_.conds_at(c):
            if cd["t"] == "pat" and cd["v"]:
                for q in hir.walk_pat(cd["pat"]):
                    if str(hir.pat_variant(q)).endswith("MemberProp::Ident"):
                        return True
        if f_ is f or depth > 3:
            return False
        sites_ = [(g_, x) for g_ in fam for x in hir.walk(g_.body) if hir.is_call(x) and prog.resolve_local(x) is f_]
        return bool(sites_) and all(under_ident(g_, x, depth + 1) for g_, x in sites_)

    for f_, c in [(g_, x) for g_ in fam for x in hir.walk(g_.body) if hir.is_call(x) and hir.callee_name(x) in REPLACE_FNS]:
        ok = under_ident(f_, c)
        check.expect(ok, R, R + "/ident-property/" + hir.callee_name(c), hir.loc(c), "only identifier (non-computed) properties", "a hook is built for a property that is not matched as MemberProp::Ident (computed names are a documented exclusion)")
    # bare calls
    bare = [c for g_ in upto_replace(f) for c in hir.walk(g_.body) if hir.is_call(c) and hir.callee_name(c) == "replace_call_expr_if_csi_method_without_callee"]
    check.floor(R, "bare-call dispatch", len(bare), 1)
    # literal-caller set
    g = prog.fn("CsiMethods::new")
    sets = []
    for n in hir.walk(g.body):
        if n.get("k") == "Struct" and (n["res"].get("path") or "").endswith("CsiMethods"):
            for fld in n["fields"]:
                if fld["name"] == "method_with_literal_callers":
                    src_e = fld["e"]
                    d_ = hir.def_path_of(hir.peel_transparent(src_e))
                    if d_:
                        # a named constant: its initialiser
                        for cp_, crec in prog.consts.items():
                            if cp_ == d_ or cp_.endswith("::" + d_.split("::")[-1]) and d_.split("::")[-1] == cp_.split("::")[-1]:
                                src_e = crec["body"]
                    vals = sorted(x["lit"]["v"] for x in hir.walk(src_e) if x.get("k") == "Lit" and x["lit"]["t"] == "str")
                    sets.append((n, vals))
    check.floor(R, "method_with_literal_callers initialisers", len(sets), 1)
    want = sorted(["concat", "replace", "replaceAll", "padStart", "padEnd", "repeat"])
    for n, vals in sets:
        check.expect(vals == want, R, R + "/literal-callers", hir.loc(n), "literal-caller methods = %s" % vals, "literal-caller methods are %s, documented %s" % (vals, want))
    h = prog.fn("CsiMethods::method_allows_literal_callers")
    contains = [c for c in hir.walk(h.body) if hir.is_call(c) and hir.callee_name(c) == "contains" and T._place_ends(hir.call_args(c)[0], "method_with_literal_callers")]
    check.expect(len(contains) == 1 and hir.peel(h.body) is contains[0], R, R + "/allows-literal", hir.loc(h.rec), "method_allows_literal_callers = membership in the set", "method_allows_literal_callers is not a plain membership test")


def _callee_kind_checked_inside(prog):
    """does to_dd_call_expr itself branch on the kind of callee first: a match on `<call>.callee` whose
    `Callee::Expr` arm does the work and whose other arm(s) answer None / not_modified?"""
    t = prog.fn_opt("CallExprTransform::to_dd_call_expr")
    if t is None:
        return False
    for m in hir.walk(t.body):
        if m.get("k") != "Match" or not (hir.place(hir.peel_transparent(m["scrut"])) or "").endswith(".callee"):
            continue
        kinds = [str(hir.pat_variant(a["pat"])).split("::")[-1] for a in m["arms"]]
        if "Expr" not in kinds:
            continue
        others = [a for a, k_ in zip(m["arms"], kinds) if k_ != "Expr"]
        quiet = others and all(not any(hir.is_call(x) and (hir.callee_name(x) or x.get("method")) not in ("not_modified", None) for x in hir.walk(a["body"])) for a in others)
        # nothing with an effect happens before the match
        first_effect = [x for x in t.nodes() if hir.is_call(x) and x["id"] < m["id"] and (hir.callee_name(x) or x.get("method")) in ("push", "get_ident_used_in_assignation", "get_temporal_ident_used_in_assignation", "next_ident")]
        if quiet and not first_effect:
            return True
    return False


def rule_optchain_shape(check):
    R = "OPTCHAIN-SHAPE"
    check.rule(R, "the optional-chain lowering starts for exactly `recv?.m(..)`: a non-optional call link whose callee is an optional member link with an identifier property naming a configured method - and under no further condition")
    prog = check.prog
    ov = [f for f in overrides_of(prog, "OptChainVisitor") if f.name == "visit_mut_expr"]
    if len(ov) != 1:
        raise AnchorMissing("OptChainVisitor::visit_mut_expr")
    f = ov[0]
    sets = [x for x in f.nodes() if x.get("k") == "Assign" and (hir.place(x["l"]) or "").endswith(".found") and hir.lit_value(x["r"]) is True]
    check.floor(R, "lowering start sites", len(sets), 1)
    def kinds_of(fn_, conds, depth=0):
        kinds = []
        for c in conds:
            t = c["t"]
            if t == "pat" and c["v"]:
                v = hir.pat_variant(c["pat"])
                vn = v.split("::")[-1] if isinstance(v, str) else str(v)
                par = v.split("::")[-2] if isinstance(v, str) and "::" in v else ""
                kinds.append("matches %s::%s" % (par, vn))
            elif t == "pat":
                kinds.append("unknown:!matches %s" % (hir.pat_variant(c["pat"]),))
            elif t == "bool":
                e = hir.peel(c["e"])
                p = hir.place(e)
                h_ = prog.resolve_local(e) if hir.is_call(e) and e.get("callee") else None
                if p and p.endswith(".found") and c["v"] is False:
                    kinds.append("!found")
                elif p and p.endswith(".optional") and c["v"] is False:
                    kinds.append("!optional")
                elif hir.is_call(e) and hir.callee_name(e) == "is_some" and c["v"]:
                    inner = hir.peel(hir.call_args(e)[0])
                    kinds.append("configured" if hir.is_call(inner) and hir.callee_name(inner) == "get" else "unknown:" + hir.describe(e))
                elif h_ is not None and h_.body is not None and (h_.rec.get("ret") or "") == "bool" and c["v"] and depth < 2:
                    # a named predicate: the conditions of its one path that can answer true
                    yes = []
                    for pc, pv_ in hir.decision_paths(h_.body):
                        if pv_ is None or hir.lit_value(hir.peel(pv_)) is False:
                            continue
                        recs = []
                        for ce, cv in pc:
                            if ce.get("k") == "PatCond":
                                recs.append({"t": "pat", "pat": ce["pat"], "scrut": ce["scrut"], "v": cv})
                            elif ce.get("k") == "ArmNot":
                                recs.append({"t": "arm_not", "pat": ce["pat"], "scrut": ce["scrut"], "guard": ce.get("guard"), "v": cv})
                            else:
                                recs += hir.split_cond(ce, cv)
                        if hir.lit_value(hir.peel(pv_)) is not True:
                            recs += hir.split_cond(pv_, True)
                        yes.append(recs)
                    if len(yes) == 1:
                        kinds += kinds_of(h_, yes[0], depth + 1)
                    else:
                        kinds.append("unknown:" + hir.cond_str(c))
                else:
                    kinds.append("unknown:" + hir.cond_str(c))
            elif t in ("closure",):
                continue
            else:
                kinds.append("unknown:" + t)
        return kinds

    for x in sets:
        kinds = kinds_of(f, f.conds_at(x))
        want = ["matches Expr::OptChain", "!found", "!optional", "matches OptChainBase::Call", "matches Expr::OptChain", "matches OptChainBase::Member", "matches MemberProp::Ident", "configured"]
        extra = [k for k in kinds if k.startswith("unknown:")]
        check.expect(sorted(kinds) == sorted(want) and not extra, R, R + "/start-conditions", hir.loc(x), "lowering starts under exactly {%s}" % ", ".join(want), "the optional-chain lowering starts under {%s}: `recv?.m(..)` calls of configured methods are skipped or other shapes are lowered" % ", ".join(kinds))


def rule_literal_skip(check):
    R = "LITERAL-SKIP"
    check.rule(R, "a `+` is left alone only when *all* of its operands are literals: the binary transform builds the hook iff any reported argument is not a literal; the template transform always builds it (the caller has already excluded literal substitutions)")
    prog = check.prog
    from .. import boolform as BF

    entry = prog.fn("BinaryAddTransform::to_dd_binary_expr")
    fl = prog.flat(entry, 3)
    D = BF.atom("some-argument-is-not-a-literal")
    dec_sites = []

    def atomize(fn_, e):
        """`<args>.iter().any(|a| !a.expr.is_lit())` (or `!..all(|a| a.expr.is_lit())`) over the reported arguments"""
        e = hir.peel(e)
        if e.get("k") == "MethodCall" and e["method"] in ("any", "all") and e.get("args"):
            cl = hir.peel(e["args"][0])
            body = hir.peel(cl["body"]) if cl.get("k") == "Closure" else {}
            negd = False
            while body.get("k") == "Unary" and body.get("op") == "Not":
                negd = not negd
                body = hir.peel(body["x"])
            src = hir.peel(e["recv"])
            full = src.get("k") == "MethodCall" and src["method"] in ("iter", "into_iter")
            if full and hir.is_call(body) and (hir.callee_name(body) or body.get("method")) == "is_lit":
                # (the function the expression really lives in: predicates are opened through several levels)
                owner = [f_ for f_ in fl if any(x is e for x in f_.nodes())]
                dec_sites.append((owner[0] if owner else fn_, e, src))
                if e["method"] == "any" and negd:
                    return D
                if e["method"] == "all" and not negd:
                    return BF.neg(D)
        return None

    hooks = [(g_, n) for g_ in fl for n in hir.calls_in(g_.body, name="get_dd_paren_expr")]
    check.floor(R, "hook constructions in the binary transform", len(hooks), 1)
    for g_, n in hooks:
        # conditions at the hook, and at the calls that lead to its function from the entry point
        prem = BF.from_conds(g_, [c for c in g_.conds_at(n) if c["t"] != "closure"], atomize, prog)
        cur, guard_ = g_, 0
        while cur is not entry and guard_ < 4:
            guard_ += 1
            up = [(cf, cn) for cf in fl for cn in hir.calls_in(cf.body) if prog.resolve_local(cn) is cur]
            if len(up) != 1:
                break
            prem += BF.from_conds(up[0][0], [c for c in up[0][0].conds_at(up[0][1]) if c["t"] != "closure"], atomize, prog)
            cur = up[0][0]
        prem = [p_ for p_ in prem if not (p_[0] == "atom" and p_[1].startswith("is:"))]
        ok = BF.entails(prem, D) and all(BF.entails([D], p_) for p_ in prem)
        check.expect(ok, R, R + "/gate", hir.loc(n), "hook built iff some reported argument is not a literal", "the `+` hook is built under %s" % [BF.show(p_) for p_ in prem])
    from ..prov import return_exprs

    # the decision looks at the vector the operand handler reported into
    ok = bool(dec_sites)
    for fn_, e_, src_ in dec_sites:
        root = hir.peel(src_["recv"]) if src_.get("k") == "MethodCall" else src_
        l_ = hir.local_of(root)
        nm_ = fn_.bindings()[l_[0]]["name"] if l_ else ""
        if l_ and fn_.bindings()[l_[0]]["origin"][0] == "param":
            # a predicate over its parameter: what the callers hand in
            pi_ = fn_.bindings()[l_[0]]["origin"][1]
            for cf in fl:
                for cn in hir.calls_in(cf.body):
                    if prog.resolve_local(cn) is fn_ and len(hir.call_args(cn)) > pi_:
                        l2 = hir.local_of(hir.peel_transparent(hir.call_args(cn)[pi_]))
                        nm_ = cf.bindings()[l2[0]]["name"] if l2 else "?"
                        ok = ok and nm_ == "arguments"
        else:
            ok = ok and nm_ == "arguments"
    if not ok and dec_sites:
        # by place instead of by name: what the decision iterates is the very collection that is handed to
        # the hook builder as the reported arguments (a field of a struct that groups the accumulators, seen
        # through `self` of a predicate method)
        def caller_place(fn_, e_, depth=0):
            e_ = hir.peel_transparent(e_)
            pl = hir.place(e_, transparent=True) or ""
            root = pl.split(".")[0]
            lid = int(root.split("#")[1]) if "#" in root and root.split("#")[1].isdigit() else None
            b_ = fn_.bindings().get(lid) if lid is not None else None
            if b_ and b_["origin"][0] == "param" and depth < 3:
                outs = set()
                for cf in fl:
                    for cn in hir.calls_in(cf.body):
                        if prog.resolve_local(cn) is fn_ and len(hir.call_args(cn)) > b_["origin"][1]:
                            base = caller_place(cf, hir.call_args(cn)[b_["origin"][1]], depth + 1)
                            outs.add((base + pl[len(root):]) if base else None)
                return outs.pop() if len(outs) == 1 else None
            return re.sub(r"#\d+", "", pl) if pl else None

        hb = [(cf, cn) for cf in fl for cn in hir.calls_in(cf.body, name="get_dd_paren_expr")]
        reported = {caller_place(cf, hir.call_args(cn)[1]) for cf, cn in hb if len(hir.call_args(cn)) > 1}
        srcs = set()
        for fn_, e_, src_ in dec_sites:
            root = hir.peel(src_["recv"]) if src_.get("k") == "MethodCall" else src_
            while hir.peel(root).get("k") == "MethodCall":
                root = hir.peel(root)["recv"]
            srcs.add(caller_place(fn_, root))
        ok = bool(srcs) and None not in srcs and srcs == reported and len(reported) == 1
    g = dec_sites[0][0] if dec_sites else entry
    check.expect(bool(ok), R, R + "/decision-input", hir.loc(g.rec), "decision = must_replace_binary_expression(arguments)", "the decision to instrument `+` is not taken from the reported arguments")
    h = prog.fn("binary_add_transform::must_replace_binary_expression")
    rets = [hir.peel(r) for r in return_exprs(h.body)]
    ok = False
    if len(rets) == 1 and hir.is_call(rets[0]) and (hir.callee_name(rets[0]) or rets[0].get("method")) == "any":
        cl = hir.peel(hir.call_args(rets[0])[1])
        body = hir.peel(cl["body"]) if cl.get("k") == "Closure" else {}
        neg = body.get("k") == "Unary" and body.get("op") == "Not"
        inner = hir.peel(body["x"]) if neg else {}
        src = hir.peel(hir.call_args(rets[0])[0])
        full = src.get("k") == "MethodCall" and src["method"] == "iter"
        ok = neg and hir.is_call(inner) and (hir.callee_name(inner) or inner.get("method")) == "is_lit" and full
    check.expect(ok, R, R + "/any-non-literal", hir.loc(h.rec), "instrument iff any argument is not a literal", "must_replace_binary_expression is not `arguments.iter().any(|a| !a.expr.is_lit())`: `x + 'lit'` (or similar) is skipped")
    t = prog.fn("TemplateTransform::to_dd_tpl_expr")
    for n in hir.calls_in(t.body, name="get_dd_paren_expr"):
        conds = [c for c in t.conds_at(n) if c["t"] == "bool"]
        check.expect(not conds, R, R + "/template-always", hir.loc(n), "the template hook is built unconditionally once reached", "the template hook is built only under %s" % [hir.cond_str(c) for c in conds])


def _atom_name(fn, e, truth):
    """canonical, line-free name of one condition of the apply-argument test"""
    import re

    if hir.peel(e).get("k") == "LetCond":
        e = {"k": "PatCond", "pat": hir.peel(e)["pat"], "scrut": hir.peel(e)["init"]}
    if e.get("k") == "PatCond":
        # patterns of the argument test: a slice pattern with n elements and a rest says len >= n;
        # Some/None on `.as_array()` says whether the list is an array literal
        pat = e["pat"]
        sc = hir.peel(e["scrut"])
        while pat.get("k") in ("Ref", "Deref", "Box"):
            pat = pat["inner"]
        if pat.get("k") == "Slice":
            nfix = len(pat.get("pats", []))
            has_rest = bool(pat.get("rest"))
            if not has_rest:
                nfix_txt = "args.len()==%d" % nfix
            else:
                nfix_txt = "args.len()>=%d" % nfix
            return ("" if truth else "!") + nfix_txt
        v = str(hir.pat_variant(pat)).split("::")[-1]
        if hir.is_call(sc) and (hir.callee_name(sc) or sc.get("method")) == "as_array" and v in ("Some", "None"):
            return ("" if (v == "Some") == truth else "!") + "expr.is_array()"
        if v == "_":
            return "_"
        if v == "Array" and "Expr::Array" in str(hir.pat_variant(pat)):
            # `match &*x.expr { Expr::Array(a) => .. }` is the `x.expr.is_array()` test
            return ("" if truth else "!") + "expr.is_array()"
        return ("" if truth else "!") + "matches " + v
    if e.get("k") == "ArmNot":
        inner_ = _atom_name(fn, {"k": "PatCond", "pat": e["pat"], "scrut": e["scrut"]}, True)
        if inner_ == "_":
            # a guarded wildcard arm not taken: its guard is false
            return _atom_name(fn, e["guard"], False)
        return "!(" + inner_ + " && " + _atom_name(fn, e["guard"], True) + ")"
    e = hir.peel(e)
    neg = not truth
    while e.get("k") == "Unary" and e.get("op") == "Not":
        e = hir.peel(e["x"])
        neg = not neg
    txt = None
    if e.get("k") == "Binary" and e["op"] in ("Eq", "Ne") and "apply" in (hir.lit_value(e["l"]), hir.lit_value(e["r"]), _const_of(fn, e["l"]), _const_of(fn, e["r"])):
        is_apply = (e["op"] == "Eq") != neg
        return "apply" if is_apply else "!apply"
    if e.get("k") == "Binary" and e["op"] in ("Ge", "Gt", "Lt", "Le") and hir.is_call(hir.peel(e["l"])) and (hir.callee_name(hir.peel(e["l"])) or hir.peel(e["l"]).get("method")) == "len":
        op_ = e["op"]
        if neg and op_ in ("Lt", "Gt"):
            # !(len < n) is len >= n: one spelling for the key
            op_, neg = {"Lt": "Ge", "Gt": "Le"}[op_], False
        txt = "args.len()%s%s" % ({"Ge": ">=", "Gt": ">", "Lt": "<", "Le": "<="}[op_], hir.lit_value(e["r"]))
    elif hir.is_call(e):
        nm = hir.callee_name(e) or e.get("method")
        base = re.sub(r"#\d+", "", hir.place(hir.call_args(e)[0]) or "?") if hir.call_args(e) else "?"
        if nm == "is_none":
            nm, neg = "is_some", not neg
        txt = "%s.%s()" % (base.split(".")[-1] if nm != "is_some" else ".".join(base.split(".")[-1:]), nm)
    else:
        txt = re.sub(r"#\d+", "", hir.describe(e))[:40]
    return ("!" if neg else "") + txt


def _const_of(fn, e):
    d = hir.def_path_of(hir.peel_transparent(e))
    return None if d is None else {"APPLY_METHOD_NAME": "apply", "CALL_METHOD_NAME": "call"}.get(d.split("::")[-1])


def rule_apply_args(check):
    """APPLY-ARGS: which `X.prototype.m.apply(..)` calls the argument test may turn away."""
    R = "APPLY-ARGS"
    check.rule(R, "the argument test of the `.call/.apply` path (invalid_args) turns a call away only when its this-argument and every element of its array-literal argument list are literals (the documented literal exclusion); every other shape - `.call`, `.apply(thisArg)`, `.apply(thisArg, <not an array literal>)`, a spread list - is accepted, and the literal test ranges over all elements")
    prog = check.prog
    f = prog.fn_opt("function_prototype_transform::invalid_args")
    pre = []
    if f is None:
        # by role: the crate predicate over the call / its argument list whose `true` makes
        # get_expression_parts_from_call_or_apply give up (`return None`); tests made at the call site before
        # it (`name == "apply" && invalid(..)`) are part of every path
        g = prog.fn("FunctionPrototypeTransform::get_expression_parts_from_call_or_apply")
        for x in hir.walk(g.body):
            if x.get("k") != "If" or not hir.diverges(x["then"]):
                continue
            nones = [y for y in hir.walk(x["then"]) if y.get("k") == "Ret" and "x" in y and (hir.peel(y["x"]).get("res") or {}).get("ctor_path", "").split("::")[-1] == "None"]
            if not nones:
                continue
            cj = T._conjuncts(x["cond"])
            hs = [(c_, prog.resolve_local(hir.peel(c_))) for c_ in cj if hir.is_call(hir.peel(c_))]
            hs = [(c_, h_) for c_, h_ in hs if h_ is not None and h_.body is not None and (h_.rec.get("ret") or "") == "bool" and any(("ExprOrSpread" in (p_.get("ty") or "")) or ("CallExpr" in (p_.get("ty") or "")) for p_ in h_.rec.get("params", []))]
            if len(hs) == 1:
                f = hs[0][1]
                pre = [(c_, True) for c_ in cj if c_ is not hs[0][0]]
        if f is None:
            raise AnchorMissing("function function_prototype_transform::invalid_args", absent=True)
    paths = [(pre + list(conds_), v_) for conds_, v_ in hir.decision_paths(f.body)]
    check.floor(R, "paths of the argument test", len(paths), 3)
    split = []
    for conds, v in paths:
        v0 = hir.peel(v) if isinstance(v, dict) and v.get("k") != "?" else v
        single = isinstance(v0, dict) and hir.lit_value(v0) is None and v0.get("k") != "?" and len(T._conjuncts(v0)) == 1 and hir.is_call(hir.peel(T._conjuncts(v0)[0])) and (hir.callee_name(hir.peel(T._conjuncts(v0)[0])) or hir.peel(T._conjuncts(v0)[0]).get("method")) in ("is_some", "is_none")
        if single:
            lit_t = {"k": "Lit", "lit": {"t": "bool", "v": True}, "sp": v0.get("sp"), "id": v0.get("id")}
            lit_f = {"k": "Lit", "lit": {"t": "bool", "v": False}, "sp": v0.get("sp"), "id": v0.get("id")}
            split.append((conds + [(v0, True)], lit_t))
            split.append((conds + [(v0, False)], lit_f))
        else:
            split.append((conds, v))
    paths = split
    for conds, v in paths:
        names = [n_ for n_ in (_atom_name(f, c, t) for c, t in conds) if n_ != "_"]
        names = [n_ for i_, n_ in enumerate(names) if n_ not in names[:i_]]
        key = "%s/%s" % (R, ",".join(names) or "always")
        if v is None or v.get("k") == "?":
            check.bad(R, key + "/unanalysable", hir.loc(f.rec), "cannot evaluate the argument test on this path (%s)" % (v or {}).get("why"))
            continue
        lv = hir.lit_value(v)
        if lv is False:
            check.ok(R, key, hir.loc(v), "accepted")
            continue
        if lv is True:
            check.bad(R, key, hir.loc(v), "`X.prototype.m.apply(..)` is left uninstrumented whenever %s: this shape is not a documented exclusion" % " && ".join(names))
            continue
        # a computed answer: must be the all-literal test on the array-literal path
        on_array = any(n.endswith("is_array()") and not n.startswith("!") for n in names)
        conj = T._conjuncts(v)
        this_lit = any(hir.is_call(hir.peel(c)) and (hir.callee_name(hir.peel(c)) or hir.peel(c).get("method")) == "is_lit" for c in conj)
        alls = [hir.peel(c) for c in conj if hir.is_call(hir.peel(c)) and (hir.callee_name(hir.peel(c)) or hir.peel(c).get("method")) == "all"]
        full = False
        pure = False
        chain = []
        if len(alls) == 1:
            x = hir.peel(hir.call_args(alls[0])[0])
            while x.get("k") == "MethodCall":
                chain.append(x["method"])
                x = hir.peel(x["recv"])
            full = chain == ["iter"] and (hir.place(x) or "").endswith(".elems")
            cl = hir.peel(hir.call_args(alls[0])[1])
            def _called(node, depth=0):
                """names called by the element test; crate predicates (bool results, shared borrows only) are opened"""
                out_ = set()
                for y in hir.walk(node):
                    if not hir.is_call(y) and not (y.get("k") == "Path" and y.get("callee")):
                        continue
                    h_ = prog.resolve_local(y)
                    nm_ = hir.callee_name(y) or y.get("method") or (y.get("callee") or {}).get("name")
                    if h_ is not None and h_.body is not None and depth < 3 and nm_ != "is_undefined_or_null" and (h_.rec.get("ret") or "") == "bool" and not any("&mut" in (p_.get("ty") or "") for p_ in h_.rec.get("params", [])):
                        out_ |= _called(h_.body, depth + 1)
                    else:
                        out_.add(nm_)
                return out_

            called = _called(cl.get("body", {}) if cl.get("k") == "Closure" else cl)
            pure = called <= {"is_none", "is_some", "as_ref", "unwrap", "is_lit", "is_undefined_or_null", "is_some_and", "is_none_or", "map_or", "not", "is_ident_ref_to", None}
        ok = on_array and this_lit and len(alls) == 1 and full and pure and len(conj) == 2
        why = []
        if not on_array:
            why.append("not on the array-literal path")
        if not this_lit:
            why.append("the this-argument is not required to be a literal")
        if len(alls) == 1 and not full:
            why.append("the literal test does not range over all elements of the array (%s)" % ".".join(reversed(chain)))
        if len(alls) == 1 and not pure:
            why.append("the element test does more than ask whether the element is a literal")
        if len(conj) != 2:
            why.append("%d conjuncts" % len(conj))
        check.expect(ok, R, key, hir.loc(v), "turned away iff this and all elements are literals", "the argument test turns `.apply(this, [..])` away on something other than `this and every element are literals`: %s" % "; ".join(why))


def rule_predicates(check):
    R = "PREDICATES"
    check.rule(R, "the predicates the receiver table relies on mean what their names say: is_call_or_apply(name) <=> name is `call` or `apply`; member_prop_is_prototype(m) <=> m.prop is the identifier `prototype`; update_status records every status other than NotModified unless the rewrite is cancelled; cancel_visit sets Cancelled")
    prog = check.prog
    from ..prov import return_exprs

    if check.prop != "C04":
        # the receiver predicates belong to C04; C12 shares only the status ones
        return _status_predicates(check, R)
    f = prog.fn("FunctionPrototypeTransform::is_call_or_apply")
    vals = {}
    for c in ("CALL_METHOD_NAME", "APPLY_METHOD_NAME", "PROTOTYPE"):
        try:
            vals[c] = prog.const_str("function_prototype_transform::" + c)
        except AnchorMissing:
            vals[c] = None
    rets = [hir.peel(r) for r in return_exprs(f.body)]
    ok = False
    if len(rets) == 1 and rets[0].get("k") == "Binary" and rets[0]["op"] == "Or":
        names = set()
        for side in (rets[0]["l"], rets[0]["r"]):
            side = hir.peel(side)
            if side.get("k") == "Binary" and side["op"] == "Eq":
                cs = [hir.def_path_of(x) for x in (hir.peel_transparent(side["l"]), hir.peel_transparent(side["r"])) if hir.def_path_of(x)]
                lits = [hir.lit_value(x) for x in (side["l"], side["r"]) if hir.lit_value(x) is not None]
                if cs:
                    names.add(vals.get(cs[0].split("::")[-1]))
                names |= set(lits)
        ok = names == {"call", "apply"}
    mt = [x for x in hir.walk(f.body) if x.get("k") == "Match"]
    if not ok and len(mt) == 1 and all(isinstance(hir.lit_value(r_), bool) for r_ in rets):
        rets = [mt[0]]
    if not ok and len(rets) == 1 and rets[0].get("k") == "Match":
        # matches!(name, CALL | APPLY): an arm of constant patterns yielding true, everything else false
        names, shape = set(), True
        for arm in rets[0]["arms"]:
            val = hir.lit_value(arm["body"])
            pats = arm["pat"]["pats"] if arm["pat"].get("k") == "Or" else [arm["pat"]]
            if val is True and "guard" not in arm:
                for q in pats:
                    d = (q.get("res") or {}).get("path") or q.get("path") or hir.pat_variant(q)
                    v = hir.lit_value(q.get("e") or {}) if q.get("k") in ("Lit", "Expr") else None
                    if isinstance(d, str) and d.split("::")[-1] in vals:
                        names.add(vals[d.split("::")[-1]])
                    elif v is not None:
                        names.add(v)
                    else:
                        shape = False
            elif val is False and all(q.get("k") == "Wild" for q in pats):
                pass
            else:
                shape = False
        ok = shape and names == {"call", "apply"}
    check.expect(ok, R, R + "/is_call_or_apply", hir.loc(f.rec), "is_call_or_apply <=> name in {call, apply}", "is_call_or_apply is not `name == \"call\" || name == \"apply\"`")
    g = prog.fn("FunctionPrototypeTransform::member_prop_is_prototype")
    rets = [hir.peel(r) for r in return_exprs(g.body)]
    ok = False
    if len(rets) == 1:
        conj = T._conjuncts(rets[0])
        kinds = []
        for t in conj:
            t = hir.peel(t)
            if hir.is_call(t) and (hir.callee_name(t) or t.get("method")) == "is_ident" and T._place_ends(hir.call_args(t)[0], "prop"):
                kinds.append("prop-is-ident")
            elif t.get("k") == "Binary" and t["op"] == "Eq":
                cs = [hir.def_path_of(x) for x in (hir.peel_transparent(t["l"]), hir.peel_transparent(t["r"])) if hir.def_path_of(x)]
                sym = any(x.get("k") == "Field" and x["field"] == "sym" for x in (hir.peel_transparent(t["l"]), hir.peel_transparent(t["r"])))
                if sym and cs and vals.get(cs[0].split("::")[-1]) == "prototype":
                    kinds.append("sym==prototype")
                else:
                    kinds.append("?")
            else:
                kinds.append("?")
        ok = sorted(kinds) == ["prop-is-ident", "sym==prototype"]
        if not ok and len(conj) == 1:
            t = hir.peel(conj[0])
            # prop.as_ident().is_some_and(|p| p.sym == PROTOTYPE) / map_or(false, ..)
            if hir.is_call(t) and (hir.callee_name(t) or t.get("method")) in ("is_some_and", "map_or"):
                recv = hir.peel(hir.call_args(t)[0])
                cl = hir.peel(hir.call_args(t)[-1])
                dflt_ok = (hir.callee_name(t) or t.get("method")) == "is_some_and" or hir.lit_value(hir.call_args(t)[1]) is False
                if hir.is_call(recv) and (hir.callee_name(recv) or recv.get("method")) == "as_ident" and T._place_ends(hir.call_args(recv)[0], "prop") and cl.get("k") == "Closure" and dflt_ok:
                    b_ = hir.peel(cl["body"])
                    if b_.get("k") == "Binary" and b_["op"] == "Eq":
                        cs = [hir.def_path_of(x) for x in (hir.peel_transparent(b_["l"]), hir.peel_transparent(b_["r"])) if hir.def_path_of(x)]
                        sym = any(x.get("k") == "Field" and x["field"] == "sym" for x in (hir.peel_transparent(b_["l"]), hir.peel_transparent(b_["r"])))
                        lit = [hir.lit_value(x) for x in (b_["l"], b_["r"]) if hir.lit_value(x) is not None]
                        ok = sym and ((cs and vals.get(cs[0].split("::")[-1]) == "prototype") or lit == ["prototype"])
    check.expect(ok, R, R + "/member_prop_is_prototype", hir.loc(g.rec), "member_prop_is_prototype <=> prop is the identifier `prototype`", "member_prop_is_prototype is not `prop.is_ident() && prop.sym == \"prototype\"`")
    from .. import gate
    _status_predicates(check, R)


def _status_predicates(check, R):
    prog = check.prog
    from ..prov import return_exprs

    from .. import statusrules as S

    us = prog.fn("OperationTransformVisitor::update_status")
    try:
        tab = S.status_table(prog, us)
    except AnchorMissing as ex:
        check.bad(R, R + "/update_status", hir.loc(us.rec), "what update_status records depends on more than the current and the reported status (%s): instrumented files can be reported (and handed back) as not modified" % str(ex).split(": ")[-1])
        tab = None
    want = S.expected_status_table()
    wrong = [] if tab is None else ["(%s, %s) -> %s instead of %s" % (c_, n_, tab[(c_, n_)][0], want[(c_, n_)][0]) for (c_, n_) in sorted(tab) if tab[(c_, n_)][0] != want[(c_, n_)][0]]
    if tab is not None:
        check.expect(not wrong, R, R + "/update_status", hir.loc(us.rec), "file status := result status whenever it is not NotModified (and the rewrite is not cancelled), on all nine (current, new) pairs", "update_status does not record every modified result / keeps no cancelled state: (current, new) %s" % "; ".join(wrong))
    cv = prog.fn("BlockTransformVisitor::cancel_visit")
    sets = [n for n in cv.nodes() if n.get("k") == "Assign" and (hir.place(n["l"]) or "").endswith(".status") and (hir.peel(n["r"]).get("res", {}).get("ctor_path") or "").endswith("Status::Cancelled") and not cv.conds_at(n)]
    check.expect(len(sets) == 1, R, R + "/cancel_visit", hir.loc(cv.rec), "cancel_visit sets Cancelled unconditionally", "cancel_visit does not set the status to Cancelled")
    vc = prog.fn("BlockTransformVisitor::visit_is_cancelled")
    rets = [hir.peel(r) for r in return_exprs(vc.body)]
    ok = len(rets) == 1 and rets[0].get("k") == "Binary" and rets[0]["op"] == "Eq" and "Status::Cancelled" in hir.describe(rets[0]) and ".status" in (hir.place(rets[0]["l"]) or hir.place(rets[0]["r"]) or "")
    check.expect(ok, R, R + "/visit_is_cancelled", hir.loc(vc.rec), "visit_is_cancelled <=> status == Cancelled", "visit_is_cancelled is not `status == Cancelled`")
    tr = prog.fn("TransformResult::<T>::is_modified") if prog.find_fns("TransformResult::<T>::is_modified") else prog.fn("TransformResult::is_modified")
    # evaluated on every constructor of TransformResult: true exactly for the results that report Modified
    from .. import statusrules as _S
    cts = _S.result_ctors(prog)
    ok = bool(cts)
    for _f, _n, val in cts:
        if val.get("carried"):
            continue  # reports the status of the result it was made from: holds if it holds for that one
        v = _S.eval_on_result(prog, tr.body, val)
        ok = ok and isinstance(v, bool) and v == (_S.status_of_result(prog, val) == "Modified")
    check.expect(ok, R, R + "/is_modified", hir.loc(tr.rec), "is_modified <=> the result reports Status::Modified (on every constructor)", "TransformResult::is_modified is not `status == Modified`")


# targets of `+=` that exist in JavaScript source (the others are TypeScript-only wrappers, the error
# node, and `a?.b += c`, which the parser refuses)
JS_ASSIGN_TARGETS = ("Ident", "Member", "SuperProp", "Paren")


def rule_assign_targets(check):
    """ASSIGN-TARGETS: `x += v` is handed to the `+` transform for every kind of target JavaScript has"""
    R = "ASSIGN-TARGETS"
    check.rule(R, "to_dd_assign_expr reaches to_dd_binary_expr for every simple assignment target that exists in JavaScript (identifier, member, super property, parenthesised): no exit between the AssignTarget::Simple arm and that call can be taken for one of them")
    prog = check.prog
    from .. import boolform as BF

    f = prog.fn("to_dd_assign_expr")
    fs_ = prog.flat(f, 2)
    order = {}
    for g in fs_:
        for i, n in enumerate(g.nodes()):
            order[id(n)] = i
    def _plus(n):
        h = prog.resolve_local(n) if hir.is_call(n) else None
        return h is not None and ((h.rec.get("self_ty") or "").split("<")[0].endswith("BinaryAddTransform") or (h.name or "").startswith("to_dd_binary"))

    calls = [(g, n) for g in fs_ for n in g.nodes() if _plus(n)]
    if not calls:
        raise AnchorMissing("to_dd_assign_expr does not call the + transform (BinaryAddTransform)")
    g0, call = calls[0]
    vs = [v["name"] for v in prog.adt("swc_ecma_ast::SimpleAssignTarget")["variants"]]
    pre = "is:swc_ecma_ast::SimpleAssignTarget::"
    pre_t = "is:swc_ecma_ast::AssignTarget::"
    exh = {pre: vs, pre_t: [v["name"] for v in prog.adt("swc_ecma_ast::AssignTarget")["variants"]]}
    n_exits = 0
    for n in g0.nodes():
        is_exit = n.get("k") == "Ret" or (hir.is_call(n) and hir.callee_name(n) == "not_modified") or n.get("k") == "Try"
        if not is_exit or g0 is not f or order[id(n)] > order[id(call)]:
            continue
        conds = [c for c in g0.conds_at(n) if c["t"] != "closure"]
        fs = BF.from_conds(g0, conds, lambda fn_, e_: None, prog)
        if BF.entails(fs, ("not", BF.atom(pre_t + "Simple")), exhaustive=exh):
            continue  # the destructuring arm
        n_exits += 1
        reach = [v for v in JS_ASSIGN_TARGETS if v in vs and not BF.entails(fs, ("not", BF.atom(pre + v)), exhaustive=exh)]
        k = "%s/exit-before-transform" % R
        if reach:
            check.bad(R, k, hir.loc(n), "to_dd_assign_expr leaves before the `+` transform when %s: `%s += v` (%s) is reported as not modified and stays uninstrumented" % ("; ".join(hir.cond_str(c) for c in conds) or "always", {"SuperProp": "super.x", "Ident": "x", "Member": "a.b", "Paren": "(x)"}[reach[0]], "/".join(reach)))
        else:
            check.ok(R, k, hir.loc(n), "exit only for targets that do not exist in JavaScript source")
    cc = [c for c in g0.conds_at(call) if c["t"] != "closure"]
    fs = BF.from_conds(g0, cc, lambda fn_, e_: None, prog)
    unreached = [v for v in JS_ASSIGN_TARGETS if v in vs and BF.entails(fs, ("not", BF.atom(pre + v)), exhaustive=exh)]
    check.expect(not unreached, R, R + "/call-reached", hir.loc(call), "to_dd_binary_expr is reached for %s (%d earlier exits, none for a JavaScript target)" % ("/".join(JS_ASSIGN_TARGETS), n_exits), "the `+` transform is not reached for %s targets of `+=` (under: %s)" % ("/".join(unreached), "; ".join(hir.cond_str(c) for c in cc)))


def run(check):
    check.guarded("PREDICATES", rule_predicates)
    check.guarded("LITERAL-SKIP", rule_literal_skip)
    check.guarded("OPTCHAIN-SHAPE", rule_optchain_shape)
    check.rule("TRAV-COVER", "on every structural path of every visit_mut_* override of the instrumenting visitors, every child that can contain an expression is visited (visit_mut_with / visit_mut_children_with), unless the path matches a documented exclusion of the property statement")
    check.rule("TRAV-ROOT", "x.visit_mut_children_with(v) on a sub-node x whose type has an override in v bypasses that override for the root of x")

    def block_ok(tr, paths):
        return tr.visitor_ty_name().endswith(OPV)

    check.guarded("TRAV-COVER", lambda c: T.run_cover(c, "TRAV-COVER", OPV, {T.EXPR}, [T.excl_delete, T.excl_tpl_literal, T.excl_arrow], {"visit_mut_expr", "visit_mut_block_stmt"}, block_override_ok=block_ok))
    check.guarded("TRAV-COVER", lambda c: T.run_cover(c, "TRAV-COVER", BTV, {T.BLOCK}, [T.excl_cancelled], {"visit_mut_block_stmt"}))
    check.guarded("APPLY-ARGS", rule_apply_args)
    check.guarded("ASSIGN-TARGETS", rule_assign_targets)
    check.guarded("TRAV-COVER", lambda c: T.run_cover(c, "TRAV-COVER", "OptChainVisitor", {T.EXPR}, [excl_optchain_lowered, excl_optchain_operands], {"visit_mut_expr"}))
    check.guarded("OPTCHAIN-SPINE", X.rule_optchain_spine)
    # a statement or an operand taken out of the tree before the visitors get to it is not instrumented
    check.guarded("INPUT-UNTOUCHED", X.rule_input_untouched)
    check.guarded("DEFAULT-VISITOR", lambda c: T.rule_default_visitor(c, "VisitMut", {T.EXPR, T.BLOCK}))
    check.guarded("TRAV-DISPATCH", rule_dispatch)
    check.guarded("BLOCK-DRIVER", rule_block_driver)
    check.guarded("PIPELINE", rule_pipeline)
    check.guarded("ARROW-BLOCK", rule_arrow_block)
    check.guarded("RECEIVER-TABLE", rule_receiver_table)
    # an operator listed in the configuration is reported as enabled whatever else the configuration lists
    # and in whatever order (the dispatch gates of TRAV-DISPATCH rely on these two answers)
    from . import c05 as _c05
    from ..engine import Only
    check.rule("OP-CONFIG", "plus_operator / tpl_operator are filled from a complete scan of the configured entries for an operator entry with the documented source name, and *_is_enabled() report exactly that: an enabled operation is never left uninstrumented because of the order or the company of its configuration entry")
    check.guarded("OP-CONFIG", lambda c: _c05.rule_op_gates(Only(c, "OP-GATE", "OP-CONFIG", ("/config/", "_is_enabled", "/FLOOR/CsiMethods literals"))))
    check.rule("METHOD-LOOKUP", "a configured method is found whatever else the configuration lists: CsiMethods::new keeps the complete configured list and CsiMethods::get answers with the first non-operator entry whose source name is the name asked for, by a scan that looks at every entry (a lookup that assumes an order the table does not have, or stops early, leaves every call of some configured method without its hook)")
    check.guarded("METHOD-LOOKUP", lambda c: _c05.rule_method_gates(Only(c, "METHOD-GATE", "METHOD-LOOKUP", ("/get",))))
    check.guarded("METHOD-LOOKUP", lambda c: _c05.rule_config_plumbing(Only(c, "CONFIG-PLUMBING", "METHOD-LOOKUP", ("/complete-list",))))
    check.guarded("SNAPSHOT-ORDER", __import__('iast.statusrules', fromlist=['x']).rule_snapshot_order)
    return {
        "explanation": "Static traversal analysis over the typed HIR of the rewriter: all structural paths of every visitor override are enumerated and each must visit every expression-bearing child of its node (slots computed from the compiled swc_ecma_ast ADT graph) unless the path's conditions match a documented exclusion; plus dispatch/gating of the five transforms, block driver, arrow-body normalisation and receiver table.",
        "assumptions": [
            "the generated default methods of swc_ecma_visit::VisitMut visit every child of a node",
            "swc's parser classifies source constructs into the AST variants named in the rules",
        ],
        "not_decided": [
            "that each transform, once reached, emits a hook for every operand shape (C03/C05 rules cover parts)",
            "code generated by swc's parser for exotic syntax",
        ],
    }


def excl_optchain_operands(tr, path, missing):
    # The lowering visitor works on the chain itself. Call arguments and computed keys are expressions
    # of their own; the operation visitor visits them after the lowering (OPTCHAIN-SPINE checks that it
    # does, and that the lowering visitor stays out of them).
    if tr.fn.name in ("visit_mut_expr_or_spreads", "visit_mut_expr_or_spread", "visit_mut_computed_prop_name") and not path.effects:
        return "operands of the chain (arguments, computed keys) are left to the operation visitor, which visits the children of the lowered expression"
    return None


def excl_optchain_lowered(tr, path, missing):
    # OptChainVisitor lowers one chain.  The only place where it may stop without entering the
    # children is the optional link itself once a configured method was found (`found && optional`):
    # what lies left of that link is hoisted as one operand and visited afterwards by the operation
    # visitor.  Every other path must visit the children or re-dispatch the node.
    v = tr.variant_known(path, ())
    if not (isinstance(v, str) and v.endswith("Expr::OptChain")):
        return None
    from .. import gate as _gate

    found = optional = False
    for c in path.conds:
        if c.get("t") != "bool" or c.get("v") is not True:
            continue
        e = _gate._resolve_bool_local(tr.fn, c["e"])
        e = hir.peel(e)
        pl = hir.place(e) or ""
        if pl.endswith(".found"):
            found = True
        if pl.endswith(".optional"):
            optional = True
    if found and optional:
        return "the optional link of a chain being lowered: its left part is hoisted as one operand and traversed afterwards by the operation visitor"
    # re-dispatch of the very node to the same visitor after the mode flag was switched on: the node is
    # handled again by the `found` paths (which are checked on their own); terminates because the flag
    # only ever goes from false to true
    not_found = any(c.get("t") == "bool" and c.get("v") is False and (hir.place(hir.peel(_gate._resolve_bool_local(tr.fn, c["e"]))) or "").endswith(".found") for c in path.conds)
    for e in path.effects:
        if e["kind"] == "with" and e["ap"] == () and e["vty"] == tr.visitor_ty_name() and not_found:
            node = e["node"]
            sets = [x for x in tr.fn.nodes() if x.get("k") == "Assign" and (hir.place(x["l"]) or "").endswith(".found") and hir.lit_value(x["r"]) is True and x["id"] < node["id"]]
            same_block = [x for x in sets if tr.fn.conds_at(x) == tr.fn.conds_at(node)]
            if same_block:
                return "the node is dispatched again to the same visitor right after `found` was switched on (handled by the found-paths)"
    return None
