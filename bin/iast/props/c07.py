"""C07 - directive prologues survive.  Decided: the insertion index of every injected statement is
computed as the length of the leading directive prologue (not a bounded constant, not a test for the
exact text 'use strict'), and the three insertion sites agree on the predicate."""
from .. import hir
from .. import travrules as T
from ..engine import AnchorMissing
from ..prov import Prov, origin_str

STMT_VECS = ("std::vec::Vec<swc_ecma_ast::Stmt>", "std::vec::Vec<swc_ecma_ast::ModuleItem>")


def _chain(n):
    """iterator adapter chain of a method-call expression: [(name, node)] from source to sink"""
    out = []
    n = hir.peel(n)
    while hir.is_call(n) and n["k"] == "MethodCall":
        out.append((n["method"], n))
        n = hir.peel(n["recv"])
    out.reverse()
    return n, out


_PRED_CTX = {"prog": None, "fn": None}


def _pred_callees(closure, depth=0):
    """names of the predicates called on the element inside a take_while/position closure; a call of
    a function-typed *parameter* of the enclosing helper is resolved at the helper's call sites"""
    names = set()
    prog, fn = _PRED_CTX["prog"], _PRED_CTX["fn"]
    for x in hir.walk(hir.peel(closure)["body"]):
        if not hir.is_call(x):
            continue
        nm = hir.callee_name(x) or x.get("method")
        if nm is None and x.get("k") == "Call" and prog is not None and fn is not None and depth < 2:
            l = hir.local_of(x["f"])
            b = fn.bindings().get(l[0]) if l else None
            if b and b["origin"][0] == "param":
                pi = b["origin"][1]
                found = False
                for caller, cn in prog.sites_calling(fn):
                    if not hir.is_call(cn) or pi >= len(hir.call_args(cn)):
                        continue
                    a = hir.peel(hir.call_args(cn)[pi])
                    found = True
                    if a.get("k") == "Closure":
                        save = dict(_PRED_CTX)
                        _PRED_CTX["fn"] = caller
                        names |= _pred_callees(a, depth + 1)
                        _PRED_CTX.update(save)
                    elif a.get("k") == "Path" and (a["res"].get("path") or hir.def_path_of(a) or ""):
                        names.add((a["res"].get("path") or hir.def_path_of(a)).split("::")[-1])
                    else:
                        names.add(None)
                if found:
                    continue
        names.add(nm)
    return names


def index_idiom(prog, f, idx, depth=0):
    """('exact' | 'after-last' | None, predicate callees, source expr): how an insertion index is computed
       exact      = number of leading elements satisfying the predicate (take_while(p).count(),
                    position(!p).unwrap_or(len))
       after-last = one past the last element satisfying it (rposition(p).map_or(0, |i| i + 1))"""
    e = hir.peel(idx)
    l = hir.local_of(e)
    if l and depth < 3:
        b = f.bindings().get(l[0])
        if b and b["origin"][0] == "let" and b["origin"][1] is not None and not f.assignments_to(l[0]):
            return index_idiom(prog, f, b["origin"][1], depth + 1)
        return (None, set(), None)
    if hir.is_call(e) and depth < 3:
        g = prog.resolve_local(e)
        if g is not None and g.body is not None:
            from ..prov import return_exprs

            rs = return_exprs(g.body)
            if len(rs) == 1:
                _PRED_CTX["fn"] = g
                return index_idiom(prog, g, rs[0], depth + 1)
    src, chain = _chain(e)
    names = [c[0] for c in chain]
    if names == ["iter", "take_while", "count"]:
        cl = [a for a in chain[1][1]["args"] if hir.peel(a).get("k") == "Closure"]
        return ("exact", _pred_callees(cl[0]) if cl else set(), src)
    if names == ["iter", "rposition", "map_or"]:
        cl = [a for a in chain[1][1]["args"] if hir.peel(a).get("k") == "Closure"]
        mo = chain[2][1]["args"]
        plus1 = False
        if len(mo) == 2 and hir.lit_value(mo[0]) == 0 and hir.peel(mo[1]).get("k") == "Closure":
            b_ = hir.peel(hir.peel(mo[1])["body"])
            plus1 = b_.get("k") == "Binary" and b_["op"] == "Add" and 1 in (hir.lit_value(b_["l"]), hir.lit_value(b_["r"]))
        if plus1:
            return ("after-last", _pred_callees(cl[0]) if cl else set(), src)
    return (None, set(), src)


def enum_offset_split(f, idx, depth=0):
    """`base + k` where k is the running index of a `for (k, item) in <list>.iter().enumerate()` loop around
    the insertion: (base expression, place of the enumerated list), else None.  Inserting the k-th item at
    base + k puts the items behind one another starting at base - the forward spelling of inserting them in
    reverse at the fixed index base."""
    e = hir.peel(idx)
    l = hir.local_of(e)
    if l and depth < 3:
        b = f.bindings().get(l[0])
        if b and b["origin"][0] == "let" and b["origin"][1] is not None and not f.assignments_to(l[0]):
            return enum_offset_split(f, b["origin"][1], depth + 1)
        return None
    if e.get("k") != "Binary" or e.get("op") != "Add":
        return None
    for off, base in ((e["l"], e["r"]), (e["r"], e["l"])):
        lo = hir.local_of(hir.peel(off))
        b = f.bindings().get(lo[0]) if lo else None
        if not b or b["origin"][0] != "match" or f.assignments_to(lo[0]):
            continue
        proj = b["origin"][2] if len(b["origin"]) > 2 else None
        if [tuple(x) for x in (proj or [])] != [("[]",), ("tuple", "0")]:
            continue
        it = b["origin"][1]
        for _ in range(3):
            li = hir.local_of(hir.peel(it))
            bi = f.bindings().get(li[0]) if li else None
            if bi and bi["origin"][0] == "let" and bi["origin"][1] is not None and not f.assignments_to(li[0]):
                it = bi["origin"][1]
            else:
                break
        src, chain = _chain(it)
        names = [c[0] for c in chain if c[0] not in ("into_iter",)]
        if names == ["iter", "enumerate"]:
            return base, hir.place(src)
    return None


def run(check):
    R = "VALUESET"
    check.rule(R, "every Vec<Stmt>/Vec<ModuleItem>::insert(index, ..) of the build takes an index that is the count of leading statements satisfying Stmt::can_precede_directive (the whole directive prologue); an index drawn from a finite set of constants, or computed from Stmt::is_use_strict, cannot follow a longer prologue")
    prog = check.prog
    pv = Prov(prog)
    sites = []
    for f, n, c in prog.call_sites():
        if hir.is_call(n) and c["name"] == "insert" and n["k"] == "MethodCall":
            rt = hir.peel(n["recv"]).get("ty", "")
            if any(rt.endswith(v) or v in rt for v in STMT_VECS):
                sites.append((f, n))
    writes, tracked_inserts = _list_writes(check, prog)
    have = {(f.def_path, n["id"]) for f, n in sites}
    sites += [(f, n) for f, n in tracked_inserts if (f.def_path, n["id"]) not in have]
    if not writes:  # vacuity guard; when LIST-WRITES already names the offending writes it adds nothing
        check.floor(R, "statement-list write sites", len(sites), 1)
    preds_seen = {}
    _PRED_CTX["prog"] = prog
    for f, n in sites:
        _PRED_CTX["fn"] = f
        recv_place = hir.place(n["recv"]) or "?"
        role = "%s/%s" % (f.name, recv_place.split(".")[-1] + ("@" + _variant(f, n) if _variant(f, n) else ""))
        key = "%s/%s" % (R, role)
        idx = n["args"][0]
        if n["method"] == "splice":
            idx = _empty_range(idx)
        sp_ = enum_offset_split(f, idx) if n["method"] == "insert" else None
        if sp_ is not None:
            idx = sp_[0]  # base + running index: where the first item goes is what matters here
        os_ = pv.origins(f, idx)
        bad = []
        good = []
        idiom, pcs, isrc = index_idiom(prog, f, idx)
        _PRED_CTX["fn"] = f
        if idiom == "after-last":
            same_list = isrc is not None and (hir.place(isrc) or "?").split("#")[0].split(".")[-1] == (hir.place(n["recv"]) or "!").split("#")[0].split(".")[-1] or hir.local_of(isrc) is not None
            if pcs == {"can_precede_directive"} and same_list:
                preds_seen[role] = tuple(sorted(pcs))
                check.ok(R, key, hir.loc(n), "index = one past the last statement that can precede a directive: at or after the end of the directive prologue")
            else:
                check.bad(R, key, hir.loc(n), "insertion index computed with rposition over %s with predicate %s" % (hir.describe(isrc) if isrc else "?", sorted(str(x) for x in pcs)))
            continue
        calls_ = sorted(r[1].split("::")[-1] for r, p_ in os_ if r[0] == "call")
        if calls_ == ["len", "position"] and len(os_) == 2:
            # iter().position(|s| !s.can_precede_directive()).unwrap_or(list.len())
            okp = True
            srcs = []
            for r, p_ in os_:
                g = prog.by_def[r[2]]
                node = g.by_id(r[3])
                if r[1].split("::")[-1] == "position":
                    src, chain = _chain(node)
                    names = [c[0] for c in chain]
                    cl = [a for a in chain[-1][1]["args"] if hir.peel(a).get("k") == "Closure"] if chain else []
                    body = hir.peel(hir.peel(cl[0])["body"]) if cl else {}
                    neg = body.get("k") == "Unary" and body.get("op") == "Not"
                    pc = _pred_callees(cl[0]) if cl else set()
                    okp = okp and names == ["iter", "position"] and neg and pc == {"can_precede_directive"}
                    srcs.append(hir.place(src))
                    preds_seen[role] = tuple(sorted(pc))
                else:
                    srcs.append(hir.place(hir.call_args(node)[0]))
            same_src = len(set(srcs)) == 1 and srcs[0] is not None
            if okp and same_src:
                check.ok(R, key, hir.loc(n), "index = position of the first statement that cannot precede a directive (or the length)")
            else:
                check.bad(R, key, hir.loc(n), "insertion index computed by an unrecognised position/len combination over %s" % srcs)
            continue
        for o in os_:
            root, proj = o
            if root[0] == "lit":
                bad.append("constant %r" % (root[1],))
            elif root[0] == "call" and root[1].split("::")[-1] == "count":
                g = prog.by_def[root[2]]
                node = g.by_id(root[3])
                src, chain = _chain(node)
                names = [c[0] for c in chain]
                if names not in (["iter", "take_while", "count"],):
                    bad.append("unrecognised index computation %s" % ".".join(names))
                    continue
                tw = chain[1][1]
                cl = [a for a in tw["args"] if hir.peel(a).get("k") == "Closure"]
                pc = _pred_callees(cl[0]) if cl else set()
                if pc != {"can_precede_directive"}:
                    bad.append("prologue predicate calls %s" % sorted(pc))
                    continue
                # the counted collection is the one inserted into
                so = pv.origins(g, src, 0)
                if root[2] != f.def_path:
                    # index computed in a helper: resolve its parameter at this call site
                    so = set()
                    for call in hir.calls_in(f.body):
                        if prog.resolve_local(call) is g and any(x is call for x in hir.walk(idx)) or (prog.resolve_local(call) is g and hir.local_of(idx)):
                            so |= pv.origins(f, hir.call_args(call)[0])
                ro = pv.origins(f, n["recv"])
                same = bool(so) and {(r, p) for r, p in so} == {(r, p) for r, p in ro}
                if not same:
                    bad.append("counts over %s but inserts into %s" % (sorted(origin_str(o) for o in so), sorted(origin_str(o) for o in ro)))
                    continue
                good.append("count of leading can_precede_directive statements")
                preds_seen[role] = tuple(sorted(pc))
            elif root[0] == "op":
                bad.append("arithmetic %s" % root[1])
            else:
                bad.append(origin_str(o))
        if bad or not good:
            check.bad(R, key, hir.loc(n), "insertion index is %s: injected code can land inside or before the directive prologue" % "; ".join(sorted(set(bad)) or ["unknown"]))
        else:
            check.ok(R, key, hir.loc(n), "index = %s of the receiver" % good[0])
    check.expect(len(set(preds_seen.values())) <= 1, "SIBLING", "SIBLING/prologue-predicate", "-", "all insertion sites use the same prologue predicate %s" % sorted(set(preds_seen.values())), "insertion sites disagree on the prologue predicate: %s" % preds_seen)
    check.rule("SIBLING", "the block `let`, the script prologue and the module prologue use the same directive predicate")
    # prologue statements are inserted in source order: reversed iteration + fixed index
    R2 = "PROLOGUE-ORDER"
    check.rule(R2, "the prefix statements are inserted by iterating them in reverse at a fixed index (net forward order)")
    for f, n in sites:
        if f.name != "visit_mut_program":
            continue
        loops = [a for a in f.ancestors(n) if a.get("k") == "Loop"]
        ok = False
        sp_ = enum_offset_split(f, n["args"][0]) if n["method"] == "insert" else None
        if sp_ is not None and loops:
            # forward: the k-th statement goes to base + k
            ok = (sp_[1] or "").endswith(".file_prefix_code")
        elif loops:
            lp = loops[0]
            par = f.parent(lp)
            while par is not None and par.get("k") != "Match":
                par = f.parent(par)
            if par is not None:
                src, chain = _chain(hir.call_args(hir.peel(par["scrut"]))[0]) if hir.is_call(hir.peel(par["scrut"])) else (None, [])
                names = [c[0] for c in chain]
                ok = names == ["iter", "rev"] and (hir.place(src) or "").endswith(".file_prefix_code")
        check.expect(ok, R2, "%s/%s" % (R2, _variant(f, n)), hir.loc(n), "file_prefix_code in source order (reverse iteration at a fixed index, or the k-th statement at index + k)", "prefix statements are not inserted by reverse iteration at a fixed index nor one behind the other (order of the prologue changes)")
    # a parenthesised string statement `('use strict');` is not a directive: taken out of its parentheses
    # it becomes one and changes the strictness of the function
    from .. import xformrules as _X
    from ..engine import Only as _Only
    check.rule("PAREN-KEPT", "no output position receives the bare content of an input ParenExpr: `('use strict');` at the head of a body must not be printed as the directive `'use strict';`")
    check.guarded("PAREN-KEPT", lambda c: _X.rule_hoist_paren(_Only(c, "GROUP", "PAREN-KEPT", ("/paren-strip",))))
    check.guarded("NO-NEW-DIRECTIVE", rule_no_new_directive)
    # whether a leading string statement is a directive is decided by its *raw* text: `'use \<LF>strict'` and
    # `'use\x20strict'` have the value `use strict` and are not directives. A string whose raw text is dropped
    # or rebuilt is printed from its value and can become one (or stop being one)
    from . import c08 as _c08
    check.rule("DIRECTIVE-RAW", "the rewriter never constructs a string literal node and never assigns the raw text of one: a leading string statement is printed exactly as written, so what is (not) a directive in the input is (not) one in the output")
    check.guarded("DIRECTIVE-RAW", lambda c: _c08.rule_raw_text(_Only(c, "RAW-TEXT", "DIRECTIVE-RAW", ("/assigns-Str.", "/constructs-Str", "/scan", "/FLOOR/"))))
    return {
        "explanation": "Value-set analysis of the index argument of every statement-list insertion (provenance of the index through helpers), with the recognised correct idiom `iter().take_while(can_precede_directive).count()` over the same list.",
        "assumptions": ["Stmt::can_precede_directive (swc_ecma_ast) is true exactly for expression statements that are string literals"],
        "not_decided": ["strictness of the running code (a consequence)", "directives written with parentheses are not directives in ECMAScript either"],
    }


def rule_no_new_directive(check):
    """NO-NEW-DIRECTIVE: an expression statement whose expression is a string literal, at the head of a body,
    is a directive.  The rewriter never turns an expression of another kind (a template without
    substitutions, a parenthesised string, a constant sum) into a string literal"""
    R = "NO-NEW-DIRECTIVE"
    check.rule(R, "the rewriter builds no string-literal node (swc_ecma_ast::Str struct, Lit::Str(..) of a value that is not the matched literal itself, Str::from / .into() conversions): replacing an expression by a string literal turns the statement \`use strict\`; at the head of a body into the directive 'use strict';")
    prog = check.prog
    from .. import xformrules as _X

    n_fn = 0
    hits = []
    for f in prog.user_fns:
        if f.rec.get("gen"):
            continue
        n_fn += 1
        for n in f.nodes():
            k = n.get("k")
            if k == "Struct" and (n["res"].get("path") or "").endswith("swc_ecma_ast::Str") and not _X._functional_update(f, n):
                hits.append((f, n, "Str { .. }"))
            elif k == "Call":
                f0 = hir.peel(n["f"])
                cp = f0.get("res", {}).get("ctor_path") if f0.get("k") == "Path" else None
                if cp and cp.endswith("swc_ecma_ast::Lit::Str") and not _X._rewrap(f, n):
                    hits.append((f, n, "Lit::Str(..)"))
            if hir.is_call(n) and not n.get("exp") and (hir.callee_name(n) or n.get("method")) in ("from", "into", "new", "from_tpl_raw") and (n.get("ty") or "").endswith("swc_ecma_ast::Str"):
                hits.append((f, n, "a conversion into Str"))
    for f, n, what in hits:
        check.bad(R, "%s/%s" % (R, T.short(f)), hir.loc(n), "%s builds a string literal node (%s): an expression that is replaced by it and stands alone at the head of a function body or file becomes a directive" % (T.short(f), what))
    check.floor(R, "crate functions inspected", n_fn, 100)
    if not hits:
        check.ok(R, R + "/inventory", "-", "no string-literal node is built in %d crate functions" % n_fn)


READS = {"iter", "len", "is_empty", "first", "last", "get", "clone", "as_slice", "contains", "to_vec", "split_first", "split_last"}
TRAVERSALS = {"visit_mut_with", "visit_mut_children_with", "visit_with", "visit_children_with"}


def _is_list_ty(t):
    t = (t or "").replace("&mut ", "").replace("&", "").strip()
    return any(t == v or t.endswith(v) for v in STMT_VECS)


def _list_writes(check, prog):
    """LIST-WRITES: the only way crate code changes a statement list of the tree is Vec::insert (whose
    index VALUESET decides).  Every other mutable use of a Vec<Stmt>/Vec<ModuleItem> - through a
    crate helper too, generic or not - is reported: a list that is rebuilt, sorted, partitioned,
    drained or assigned can move statements across the end of the directive prologue."""
    R = "LIST-WRITES"
    check.rule(R, "statement lists of the tree are changed only by Vec::insert; they are never assigned, taken, rebuilt, extended, sorted, retained or handed mutably to code outside the crate (visitor traversal excepted)")
    bad = []
    inserts = []
    seen = set()
    work = []  # (fn, None = by type | local id of a parameter bound to a statement list)
    for f in prog.user_fns:
        if f.rec.get("in_test"):
            continue
        work.append((f, None))
    n_uses = 0
    while work:
        f, lid = work.pop()
        if (f.def_path, lid) in seen:
            continue
        seen.add((f.def_path, lid))
        for n in f.nodes():
            if not hir.is_expr(n):
                continue
            if lid is None:
                if not (n.get("k") in ("Field", "Path", "Index") and _is_list_ty(n.get("ty"))):
                    continue
            else:
                lo = hir.local_of(n) if n.get("k") == "Path" else None
                if not (lo and lo[0] == lid):
                    continue
            # climb through borrows / derefs
            cur = n
            mut_borrow = False
            par = f.parent(cur)
            while par is not None and (par.get("k") in ("AddrOf", "DropTemps", "Use") or (par.get("k") == "Unary" and par.get("op") == "Deref")):
                if par.get("k") == "AddrOf" and par.get("mut"):
                    mut_borrow = True
                cur = par
                par = f.parent(cur)
            if par is None:
                continue
            k = par.get("k")
            where = hir.loc(par)
            what = hir.place(n) or hir.describe(n)
            if k == "MethodCall" and par["recv"] is cur:
                m = par["method"]
                n_uses += 1
                if m == "insert":
                    inserts.append((f, par))
                if m == "splice" and _empty_range(par["args"][0]) is not None:
                    # splice(i..i, items) removes nothing: an insertion of several statements at i
                    inserts.append((f, par))
                    continue
                if m in READS or m in TRAVERSALS or m == "insert":
                    continue
                bad.append((f, par, "%s/%s" % (f.name, m), "statement list %s is changed by .%s(..), not by an insertion at the prologue index" % (_strip(what), m)))
            elif k in ("Call", "MethodCall") and any(a is cur for a in par["args"]):
                by_mut = mut_borrow or (lid is not None and cur is n)
                if not by_mut:
                    continue
                n_uses += 1
                g = prog.resolve_local(par)
                cname = hir.callee_name(par) or par.get("method") or "?"
                if g is not None and g.body is not None:
                    idx = [i for i, a in enumerate(hir.call_args(par)) if a is cur]
                    if idx and idx[0] < len(g.rec["params"]):
                        bs = hir.pat_bindings(g.rec["params"][idx[0]]["pat"])
                        if bs:
                            work.append((g, bs[0]["local"]))
                            continue
                    bad.append((f, par, "%s/%s" % (f.name, cname), "statement list %s is handed mutably to %s in a way the rule cannot follow" % (_strip(what), cname)))
                elif cname in TRAVERSALS or (par.get("callee", {}).get("trait") or "").startswith("swc_ecma_visit::"):
                    continue
                else:
                    bad.append((f, par, "%s/%s" % (f.name, cname), "statement list %s is handed mutably to %s: the list is rebuilt or replaced, not inserted into" % (_strip(what), cname)))
            elif k in ("Assign", "AssignOp") and par["l"] is cur:
                n_uses += 1
                bad.append((f, par, "%s/assign" % f.name, "statement list %s is replaced by assignment" % _strip(what)))
    for f, node, key, msg in bad:
        check.bad(R, "%s/%s" % (R, key), hir.loc(node), msg + ": statements can move across the end of the directive prologue")
    if not bad:
        check.ok(R, R + "/inventory", "-", "%d uses of statement lists: reads, visitor traversals and Vec::insert only" % n_uses)
    return bad, inserts


def _empty_range(e):
    """the index expression i of a range literal `i..i`, else None"""
    e = hir.peel(e)
    if e.get("k") == "Struct" and (e["res"].get("path") or "").endswith("ops::Range"):
        fl = {x["name"]: hir.peel(x["e"]) for x in e["fields"]}
        a, b = fl.get("start"), fl.get("end")
        if a is not None and b is not None and hir.local_of(a) and hir.local_of(a) == hir.local_of(b):
            return a
    return None


def _strip(s):
    import re

    return re.sub(r"#\d+", "", s)


def _variant(f, n):
    for c in f.conds_at(n):
        if c["t"] == "pat" and c["v"]:
            v = hir.pat_variant(c["pat"])
            if isinstance(v, str) and "Program::" in v:
                return v.split("::")[-1]
    return ""
