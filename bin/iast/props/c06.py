"""C06 - hygiene of injected temporaries.  Decided: every created name is registered and declared on
the non-refused path; counter-reset discipline; which AST slots evaluated in another activation the
operation traversal reaches without crossing a block; which identifiers the collision check can see;
the refusal gate.  Not decided: the liveness argument for generated programs."""
import re
from .. import hir, gate
from ..engine import AnchorMissing
from ..prov import Prov, origin_str, return_exprs
from ..trav import AdtGraph, Traversal, overrides_of, core_type
from .. import travrules as T
from .. import statusrules as S

OPV = "OperationTransformVisitor"
BTV = "BlockTransformVisitor"

# AST slots that are evaluated in a different function activation than the block that encloses them
OTHER_ACTIVATION = [
    ("swc_ecma_ast::Function", "params", "parameter defaults run on every call (FunctionDeclarationInstantiation)"),
    ("swc_ecma_ast::Constructor", "params", "constructor parameter defaults run on every construction"),
    ("swc_ecma_ast::ClassProp", "value", "instance field initialisers run on every construction"),
    ("swc_ecma_ast::PrivateProp", "value", "private field initialisers run on every construction"),
    ("swc_ecma_ast::AutoAccessor", "value", "accessor field initialisers run on every construction"),
    ("swc_ecma_ast::SetterProp", "param", "setter parameter pattern defaults run on every call"),
    ("swc_ecma_ast::ArrowExpr", "params", "arrow parameter defaults run on every call"),
]


def rule_declare_path(check):
    R = "DECLARE-PATH"
    check.rule(R, "temporaries are created only in get_temporal_ident_used_in_assignation, which registers every identifier it returns; the registered list of the block's provider is what insert_variable_declaration declares with `let`; created names and the refused prefix come from the same helper")
    prog = check.prog
    g = prog.fn("IdentProvider::get_temporal_ident_used_in_assignation")
    # the registering helper together with the private helpers it is split into (functions nothing else calls)
    fl_g = prog.flat(g, 2)
    own = {g.def_path}
    for h_ in fl_g:
        cs_ = [cf for cf, cn in prog.sites_calling(h_) if hir.is_call(cn) and not cf.rec.get("gen") and not cf.rec.get("in_test")]
        if h_ is not g and cs_ and all(cf.def_path in {x.def_path for x in fl_g} for cf in cs_):
            own.add(h_.def_path)
    for name in ("next_ident", "create_assign_expression"):
        sites = [(f, n) for f, n, c in prog.call_sites() if hir.is_call(n) and c["name"] == name and not f.rec.get("gen")]
        if not sites and name != "next_ident":
            continue  # no such helper in this tree: the provenance clauses below speak for what replaced it
        callers = sorted({f.name for f, _ in sites})
        stray = sorted({f.name for f, _ in sites if f.def_path not in own})
        check.expect(bool(sites) and not stray, R, "%s/who-calls/%s" % (R, name), sites[0][1]["sp"] if sites else "-", "%s only called from %s" % (name, callers), "%s is called from %s (temporaries created outside the registering helper)" % (name, stray or callers))
    pv = Prov(prog)
    # every created temporary is registered on the path that creates it (what is returned is FRESH-TEMP's concern, C01-C03)
    from .. import xformrules as _X
    chain_ = _X.temp_ident_chain(prog)
    regs = list(hir.calls_in(g.body, name="register_ident"))
    check.floor(R, "temporaries created in the temp helper", len([1 for rec_ in chain_ if rec_["idents"]]), 1)
    for i, rec_ in enumerate(chain_):
        keys_ = {(r_[0], r_[1], r_[2], r_[3]) for _h, _n, r_ in rec_["idents"]}
        if not keys_:
            continue  # nothing is created on this path (what it hands out instead is FRESH-TEMP's concern)
        ok = False
        for rg in regs:
            same_conds = [x for x in g.conds_at(rg) if x["t"] not in ("closure",)] == rec_["conds"]
            ro = rec_["pv"].origins(g, hir.call_args(rg)[1])
            same_ident = bool(ro) and {(rt[0], rt[1], rt[2], rt[3]) for rt, _pj in ro if len(rt) > 3} == keys_ and all(len(rt) > 3 for rt, _pj in ro)
            if same_conds and same_ident and keys_:
                ok = True
        check.expect(ok, R, R + "/registered" + ("-%d" % i if i else ""), hir.loc(rec_["ret"]), "the identifier created here is registered on the same path", "get_temporal_ident_used_in_assignation creates an identifier that is not registered (undeclared temporary)")
    # default provider stores registered idents
    ri = prog.fn("DefaultIdentProvider as visitor::ident_provider::IdentProvider>::register_ident") if False else _impl_method(prog, "DefaultIdentProvider", "register_ident")
    pushes = [n for n in hir.calls_in(ri.body, name="push") if (hir.place(hir.call_args(n)[0]) or "").endswith(".idents")]
    ok = len(pushes) == 1
    if ok:
        atoms = [a for a in gate.atoms_at(ri, pushes[0])]
        ok = all(a[0] == "call" and a[1] == "contains" and a[4] is False for a in atoms)
    check.expect(ok, R, R + "/provider-stores", hir.loc(ri.rec), "register_ident pushes unless already contained", "DefaultIdentProvider::register_ident does not store every new identifier")
    # block driver declares the provider's idents
    vb = [f for f in overrides_of(prog, BTV) if f.name == "visit_mut_block_stmt"]
    if len(vb) != 1:
        raise AnchorMissing("BlockTransformVisitor::visit_mut_block_stmt")
    f = vb[0]
    lits = [n for n in hir.walk(f.body) if n.get("k") == "Struct" and (n["res"].get("path") or "").endswith(OPV)]
    decl = list(hir.calls_in(f.body, name="insert_variable_declaration"))
    check.floor(R, "insert_variable_declaration call sites", len(decl), 1)
    for n in decl:
        arg = hir.place(hir.call_args(n)[0]) or ""
        prov_local = arg.split(".")[0]
        same = False
        for lit in lits:
            for fl in lit["fields"]:
                if fl["name"] == "ident_provider":
                    same = (hir.place(fl["e"]) or "") == prov_local
        blk = hir.local_of(hir.call_args(n)[1])
        own = bool(blk) and f.bindings()[blk[0]]["origin"][0] == "param"
        check.expect(arg.endswith(".idents") and same and own, R, R + "/declares-registered", hir.loc(n), "declares the idents registered in the provider handed to the operation visitor, in the visited block", "insert_variable_declaration(%s) does not declare the registered temporaries of this block's provider" % arg)
    iv = prog.fn("block_transform_visitor::insert_variable_declaration")
    kinds = [hir.peel(fl["e"]) for n in hir.walk(iv.body) if n.get("k") == "Struct" and (n["res"].get("path") or "").endswith("VarDecl") for fl in n["fields"] if fl["name"] == "kind"]
    ok = len(kinds) == 1 and (kinds[0].get("res", {}).get("ctor_path") or "").endswith("VarDeclKind::Let")
    check.expect(ok, R, R + "/let", hir.loc(iv.rec), "declared with `let`", "temporaries are not declared with `let`")
    ids = [fl["e"] for n in hir.walk(iv.body) if n.get("k") == "Struct" and (n["res"].get("path") or "").endswith("BindingIdent") for fl in n["fields"] if fl["name"] == "id"]
    ok = len(ids) == 1 and all(r[0] == "param" and r[2] == 0 for r, p in pv.origins(iv, ids[0]))
    check.expect(ok, R, R + "/each-ident", hir.loc(iv.rec), "one declarator per registered identifier", "declarators are not built from the registered identifiers")
    # the declarator is built once per element of a complete iteration over the identifiers:
    # idents.iter().for_each(|i| push(..)), idents.iter().map(|i| ..).collect(), or `for i in idents`
    src_ok = False
    lit_ids = {id(x) for x in hir.walk(iv.body)}
    for n in iv.nodes():
        if n.get("k") == "MethodCall" and n["method"] in ("for_each", "map"):
            cl = [a for a in n["args"] if hir.peel(a).get("k") == "Closure"]
            if cl and any(x.get("k") == "Struct" and (x["res"].get("path") or "").endswith("BindingIdent") for x in hir.walk(cl[0])):
                chain = [c[0] for c in _chain_names(n["recv"])]
                root = n["recv"]
                while hir.peel(root).get("k") == "MethodCall":
                    root = hir.peel(root)["recv"]
                whole = all(c in ("iter", "into_iter", "cloned", "copied") for c in chain) and bool(hir.local_of(root)) and iv.bindings()[hir.local_of(root)[0]]["origin"][:2] == ("param", 0)
                src_ok = src_ok or whole
        if n.get("k") == "Match" and n.get("source", "").startswith("ForLoopDesugar"):
            it = hir.peel(n["scrut"])
            if hir.is_call(it) and hir.call_args(it):
                a0 = hir.peel(hir.call_args(it)[0])
                chain = [c[0] for c in _chain_names(a0)]
                root = a0
                while hir.peel(root).get("k") == "MethodCall":
                    root = hir.peel(root)["recv"]
                if all(c in ("iter", "into_iter") for c in chain) and hir.local_of(root) and iv.bindings()[hir.local_of(root)[0]]["origin"][:2] == ("param", 0) and any(x.get("k") == "Struct" and (x["res"].get("path") or "").endswith("BindingIdent") for x in hir.walk(n)):
                    src_ok = True
    check.expect(src_ok, R, R + "/all-idents", hir.loc(iv.rec), "iterates all registered identifiers", "not every registered identifier is declared")
    # same helper for names and for the refused prefix
    nm = prog.fn("visitor_util::get_dd_local_variable_name")
    uses = [n for n in hir.calls_in(nm.body, name="get_dd_local_variable_prefix")]
    check.expect(len(uses) == 1, "SIBLING", "SIBLING/name-prefix", hir.loc(nm.rec), "created names start with get_dd_local_variable_prefix(prefix)", "created names no longer derive from get_dd_local_variable_prefix")
    check.rule("SIBLING", "the created name and the refused prefix come from the same helper and the same configured prefix")
    dup, dup_calls = _dup_test(prog, f)
    uses2 = [n for n in hir.calls_in(dup.body, name="get_dd_local_variable_prefix")]
    sw = [n for n in hir.calls_in(dup.body, name="starts_with")]
    ok = len(uses2) == 1 and len(sw) == 1 and (hir.place(hir.call_args(sw[0])[0]) or "").endswith(".sym")

    def prefix_source(fn_, e_, depth=0):
        """the `<..>.local_var_prefix` place an expression derives from through
        get_dd_local_variable_prefix(..) - directly, through a parameter (the call sites) or through a field
        of a visitor that is set where the visitor is built; None if it does not"""
        e_ = hir.peel_transparent(e_)
        if depth > 5:
            return None
        if hir.is_call(e_) and hir.callee_name(e_) == "get_dd_local_variable_prefix":
            pl = hir.place(hir.peel_transparent(hir.call_args(e_)[0])) or ""
            if pl.endswith(".local_var_prefix") or pl.split("#")[0] == "local_var_prefix":
                return pl.split(".", 1)[1] if "." in pl else pl.split("#")[0]
            inner = prefix_source_arg(fn_, hir.call_args(e_)[0], depth + 1)
            return inner
        l_ = hir.local_of(e_)
        if l_:
            b_ = fn_.bindings().get(l_[0])
            if b_ and b_["origin"][0] == "let" and b_["origin"][1] is not None:
                return prefix_source(fn_, b_["origin"][1], depth + 1)
            if b_ and b_["origin"][0] == "param":
                outs = {prefix_source(g_, hir.call_args(c_)[b_["origin"][1]], depth + 1) for g_, c_ in prog.sites_calling(fn_) if hir.is_call(c_) and len(hir.call_args(c_)) > b_["origin"][1]}
                return outs.pop() if len(outs) == 1 else None
            return None
        if e_.get("k") == "Field":
            # a field: what the struct literals of its type put there
            bt = (e_.get("base_ty") or "").replace("&mut ", "").replace("&", "").split("<")[0]
            outs = set()
            for g_ in prog.user_fns:
                for lit in [x for x in hir.walk(g_.body) if x.get("k") == "Struct" and (x["res"].get("path") or "").split("<")[0] == bt]:
                    for fl in lit["fields"]:
                        if fl["name"] == e_["field"]:
                            outs.add(prefix_source(g_, fl["e"], depth + 1))
            return outs.pop() if len(outs) == 1 else None
        return None

    def prefix_source_arg(fn_, a_, depth):
        l_ = hir.local_of(hir.peel_transparent(a_))
        b_ = fn_.bindings().get(l_[0]) if l_ else None
        if b_ and b_["origin"][0] == "param":
            outs = set()
            for g_, c_ in prog.sites_calling(fn_):
                if hir.is_call(c_) and len(hir.call_args(c_)) > b_["origin"][1]:
                    pl = hir.place(hir.peel_transparent(hir.call_args(c_)[b_["origin"][1]])) or ""
                    outs.add(pl.split(".", 1)[1] if pl.endswith(".local_var_prefix") and "." in pl else None)
            return outs.pop() if len(outs) == 1 else None
        return None

    src_dup = prefix_source(dup, hir.call_args(sw[0])[1]) if len(sw) == 1 and len(hir.call_args(sw[0])) > 1 else None
    if not ok and len(sw) == 1 and (hir.place(hir.call_args(sw[0])[0]) or "").endswith(".sym"):
        ok = src_dup is not None
    check.expect(ok, "SIBLING", "SIBLING/refused-prefix", hir.loc(dup.rec), "collision test = sym.starts_with(get_dd_local_variable_prefix(prefix))", "collision test does not compare sym with the shared prefix helper")
    # the call that names the temporaries (found through the provenance of what the temp helper returns)
    names = [cn_ for rec_ in chain_ for _hn, cn_, _r in rec_["namers"] if cn_ is not None]
    names = list({id(x): x for x in names}.values())
    ok = len(names) == 1 and any(hir.callee_name(x) == "get_local_var_prefix" for x in hir.walk(names[0]) if hir.is_call(x))
    check.expect(ok, "SIBLING", "SIBLING/created-name", hir.loc(names[0]) if names else "-", "name = get_dd_local_variable_name(index, provider prefix)", "temporary name is not built by get_dd_local_variable_name from the provider's prefix")
    for n in decl:
        pass
    vbs = f
    d = dup_calls
    newp = list(hir.calls_in(vbs.body, name="new"))
    p2 = [hir.place(hir.call_args(x)[0]) for x in newp if "DefaultIdentProvider" in (x["callee"]["path"])]
    if (dup.rec.get("self_ty") or "").split("<")[0].endswith("DefaultIdentProvider"):
        # a method of the provider: the prefix it tests is the provider's own
        inner = [hir.place(hir.call_args(x)[0]) or "" for x in hir.calls_in(dup.body, name="get_dd_local_variable_prefix")]
        p1 = p2 if inner and all(i_.endswith(".local_var_prefix") and i_.split(".")[0].startswith("self#") for i_ in inner) else ["?"]
    else:
        p1 = [hir.place(hir.call_args(x)[1]) for x in d if len(hir.call_args(x)) > 1]
    same_ = bool(p1) and bool(p2) and set(p1) == set(p2)
    if not same_ and src_dup is not None and p2:
        # compared by what the two prefixes derive from (the configured `local_var_prefix`), wherever the
        # derived text is kept in between
        same_ = all((x or "").endswith(src_dup.split(".")[-1]) and (x or "").split(".", 1)[-1].endswith(src_dup.split(".", 1)[-1] if "." in src_dup else src_dup) for x in p2)
    check.expect(same_, "SIBLING", "SIBLING/same-prefix", hir.loc(vbs.rec), "provider and collision check use the same configured prefix %s" % p1, "provider prefix %s differs from collision-check prefix %s" % (p2, p1))


def _dup_test(prog, vbs):
    """(function, call nodes): the collision test = the crate predicate whose truth leads to cancel_visit
    in the block driver (found by role, whatever it is called and wherever it lives)"""
    # the places where the block driver refuses the rewrite: a call of a crate function that writes
    # Status::Cancelled to the file status (cancel_visit), or that write itself
    points = [n for n in vbs.nodes() if hir.is_cancel_write(n)]
    for n in hir.calls_in(vbs.body):
        g_ = prog.resolve_local(n)
        if g_ is not None and g_.body is not None and any(hir.is_cancel_write(x) for x in g_.nodes()):
            points.append(n)
    for n in points:
        for a in gate.atoms_at(vbs, n):
            if a[0] == "call" and a[4] is True and isinstance(a[5], dict):
                g = prog.resolve_local(a[5])
                if g is not None and (g.rec.get("ret") or "") == "bool":
                    calls = [x for x in hir.walk(vbs.body) if hir.is_call(x) and prog.resolve_local(x) is g]
                    return g, calls
    raise AnchorMissing("the collision test that leads to cancel_visit in visit_mut_block_stmt")


def _chain_names(n):
    out = []
    n = hir.peel(n)
    while n.get("k") == "MethodCall":
        out.append((n["method"], n))
        n = hir.peel(n["recv"])
    return out


def _impl_method(prog, self_suffix, name):
    for f in prog.fns:
        if f.body is not None and f.name == name and (f.rec.get("self_ty") or "").split("<")[0].endswith(self_suffix):
            return f
    raise AnchorMissing("%s::%s" % (self_suffix, name))


def rule_target_kept(check):
    """TARGET-KEPT: JavaScript evaluates the target of an assignment (its object and key) before the right-hand
    side.  The temporaries of an instrumented `x.y += v` are assigned inside the right-hand side, so none of
    them may appear in the target of the emitted assignment: it would be read before it is assigned"""
    R = "TARGET-KEPT"
    check.rule(R, "every AssignExpr the crate builds has as its target either the whole target of an input assignment (a copy of `<input>.left`) or a bare injected identifier (`tmp = value`): a target assembled from parts can contain a temporary, which JavaScript reads - evaluating the target reference - before the right-hand side assigns it")
    prog = check.prog
    n = 0
    for f in prog.user_fns:
        if f.rec.get("gen"):
            continue
        for x in f.nodes():
            if x.get("k") != "Struct" or not (x["res"].get("path") or "").endswith("swc_ecma_ast::AssignExpr"):
                continue
            left = [fl["e"] for fl in x["fields"] if fl["name"] == "left"]
            if not left:
                if x.get("base") is not None or x.get("rest") is not None:
                    n += 1
                    check.ok(R, "%s/%s" % (R, f.name), hir.loc(x), "functional update: the target is the input's")
                continue
            n += 1
            e = hir.peel_transparent(left[0])
            # `let left = assign.left.clone(); AssignExpr { left, .. }`: look through single-assignment locals
            for _ in range(4):
                l_ = hir.local_of(e)
                b_ = f.bindings().get(l_[0]) if l_ else None
                if not b_ or b_["origin"][0] != "let" or b_["origin"][1] is None or b_["origin"][2] or f.assignments_to(l_[0]):
                    break
                e = hir.peel_transparent(b_["origin"][1])
            kind = None
            # a copy of the left of an input assignment
            if e.get("k") == "Field" and e["field"] == "left" and "AssignExpr" in (e.get("base_ty") or ""):
                kind = "the target of the input assignment"
            else:
                # AssignTarget::Simple(SimpleAssignTarget::Ident(BindingIdent { id, .. })) / conversions of an identifier
                cur, depth = e, 0
                while depth < 6:
                    depth += 1
                    cur = hir.peel_transparent(cur)
                    if cur.get("k") == "Call" and len(cur.get("args", [])) == 1 and (hir.peel(cur["f"]).get("res", {}).get("ctor_path") or "").split("::")[-1] in ("Simple", "Ident", "Pat"):
                        cur = cur["args"][0]
                        continue
                    if hir.is_call(cur) and (hir.callee_name(cur) or cur.get("method")) in ("from", "into") and len(hir.call_args(cur)) == 1:
                        cur = hir.call_args(cur)[0]
                        continue
                    break
                ty = cur.get("ty") or ""
                if (cur.get("k") == "Struct" and (cur["res"].get("path") or "").endswith("BindingIdent")) or ty.endswith("swc_ecma_ast::BindingIdent") or ty.endswith("swc_ecma_ast::Ident"):
                    kind = "a bare identifier"
            if kind:
                check.ok(R, "%s/%s" % (R, f.name), hir.loc(x), "target is %s" % kind)
            else:
                check.bad(R, "%s/%s" % (R, f.name), hir.loc(x), "%s builds an assignment whose target is %s, not the input's target or a bare injected identifier: a temporary placed in it is read (the target reference is evaluated first) before the right-hand side assigns it" % (f.name, hir.describe(left[0])[:120]))
    check.floor(R, "AssignExpr constructions", n, 2)


def _stmt_contains(st, node):
    """is `node` part of the statement (or tail expression) st?"""
    if st.get("k") in ("Semi", "Expr", "Let"):
        return any(x is node for part in (st.get("e"), st.get("init")) if part is not None for x in hir.walk(part))
    return any(x is node for x in hir.walk(st))


class _CtxSim:
    """Abstract run of a small straight-line function over the visitor's context slot.  The slot is
    whatever the VisitorWithContext accessors of the operation visitor read and write: a getter
    (`&self -> Ctx`), a setter (`&mut self, Ctx`), a mutable accessor (`&mut self -> &mut Ctx`); they are
    told apart by signature, not by name.  Values: "ENTRY" (the slot when the function was entered),
    ("saved", field) (a Ctx field of the guard), ("param", name), ("ctor", def_path) (a Ctx built by a
    crate function), ("fld", value, name) (a field of one of those), None (unknown)."""

    def __init__(self, prog, f):
        self.prog, self.f = prog, f
        self.slot = "ENTRY"
        self.env = {}
        self.kinds = {}
        for g in prog.user_fns:
            if not (g.rec.get("impl_of_trait") or "").endswith("VisitorWithContext") or g.body is None:
                continue
            ret = (g.rec.get("ret") or "").replace(" ", "")
            ps = g.rec.get("params") or []
            if ret.startswith("&mut") and ret.endswith("Ctx"):
                self.kinds[g.name] = "mutacc"
            elif ret.endswith("::Ctx") or ret == "Ctx":
                self.kinds[g.name] = "get"
            elif len(ps) == 2 and (ps[1].get("ty") or "").endswith("Ctx") and ret in ("()", ""):
                self.kinds[g.name] = "set"
        for p_ in f.rec.get("params") or []:
            pat = p_.get("pat") or {}
            if pat.get("k") == "Binding" and (p_.get("ty") or "").endswith("Ctx"):
                self.env[pat["local"]] = ("param", pat["name"])

    def _slot_ref(self, e):
        e = hir.peel(e)
        while e.get("k") in ("AddrOf", "Deref") or (e.get("k") == "Unary" and e.get("op") == "Deref"):
            e = hir.peel(e["x"])
        return hir.is_call(e) and self.kinds.get(hir.callee_name(e)) == "mutacc"

    def ev(self, e):
        if e is None:
            return None
        e0 = e
        e = hir.peel(e)
        k = e.get("k")
        l = hir.local_of(e)
        if l is not None:
            return self.env.get(l[0])
        if k == "Field":
            ty = e.get("ty") or ""
            b = hir.peel(e["x"])
            lb = hir.local_of(b)
            if ty.endswith("::Ctx") and lb is not None and lb[1] == "self":
                return ("saved", e["field"])
            v = self.ev(e["x"])
            return ("fld", v, e["field"]) if v is not None else None
        if k in ("Deref",) or (k == "Unary" and e.get("op") == "Deref"):
            if self._slot_ref(e):
                return self.slot
            return self.ev(e["x"])
        if hir.is_call(e):
            nm = hir.callee_name(e)
            kd = self.kinds.get(nm)
            args = hir.call_args(e)
            if kd == "get":
                return self.slot
            if kd == "mutacc":
                return self.slot
            if kd == "set":
                self.slot = self.ev(args[-1])
                return None
            path = (e.get("callee") or {}).get("path") or ""
            if path.endswith("mem::replace") and len(args) == 2:
                v = self.ev(args[1])
                if self._slot_ref(args[0]):
                    old, self.slot = self.slot, v
                    return old
                return None
            if path.endswith("mem::swap") or path.endswith("mem::take"):
                if any(self._slot_ref(a) for a in args):
                    self.slot = None
                return None
            if nm in ("clone", "to_owned") and args:
                return self.ev(args[0])
            g = self.prog.resolve_local(e)
            for a in args:
                self.ev(a)
            if g is not None and (g.rec.get("ret") or "").endswith("Ctx"):
                return ("ctor", g.def_path)
            return None
        if k == "Assign":
            v = self.ev(e["r"] if "r" in e else e.get("rhs"))
            lhs = e.get("l") if "l" in e else e.get("lhs")
            if lhs is not None and self._slot_ref(lhs):
                self.slot = v
            return None
        return None

    def run_until(self, stop, body=None):
        """executes the statements that end before node `stop` (descending into plain nested blocks)"""
        body = hir.peel(self.f.body if body is None else body)
        blk = body.get("block") if body.get("k") == "BlockExpr" else None
        if blk is None:
            return self
        for st in (blk.get("stmts") or []) + ([blk["tail"]] if blk.get("tail") is not None else []):
            if stop is not None and _stmt_contains(st, stop):
                inner = hir.peel(st.get("e") or st.get("init") or st) if st.get("k") in ("Semi", "Expr", "Let") else hir.peel(st)
                if inner.get("k") == "BlockExpr" and inner is not stop:
                    return self.run_until(stop, inner)
                return self
            if st.get("k") == "Let":
                v = self.ev(st.get("init")) if st.get("init") is not None else None
                pat = st.get("pat") or {}
                if pat.get("k") == "Binding":
                    self.env[pat["local"]] = v
            else:
                self.ev(st.get("e") or st.get("x") or st)
        return self



def rule_reset(check):
    R = "RESET-DISCIPLINE"
    check.rule(R, "the temporary counter is reset only when control returns to the root context of a block: reset_counter <- reset_ctx [ctx.root] <- WithCtx::drop [root & auto_reset, after restoring the original ctx]; child contexts are never root; every transform that can create temporaries runs under a with_child_ctx() guard")
    prog = check.prog
    sites = [(f, n) for f, n, c in prog.call_sites() if hir.is_call(n) and c["name"] == "reset_counter" and not f.rec.get("gen")]
    check.floor(R, "reset_counter call sites", len(sites), 1)
    for f, n in sites:
        atoms = gate.atoms_at(f, n)
        own_gate = any(a[0] == "place" and a[1].endswith(".ctx.root") and a[2] is True for a in atoms)
        # without a test of its own the function relies on its callers: reset_ctx is only ever called under the
        # (restored context).root test, which the /reset_ctx clause below decides for every call site
        ungated_ok = f.name == "reset_ctx" and not [a for a in atoms if a[0] not in ("variant",)]
        ok = f.name == "reset_ctx" and (own_gate or ungated_ok)
        check.expect(ok, R, R + "/reset_counter", hir.loc(n), "reset_counter only in reset_ctx (root test %s)" % ("of its own" if own_gate else "left to the callers, see /reset_ctx"), "reset_counter is called in %s without the ctx.root guard" % f.name)
    sites = [(f, n) for f, n, c in prog.call_sites() if hir.is_call(n) and c["name"] == "reset_ctx" and not f.rec.get("gen")]
    check.floor(R, "reset_ctx call sites", len(sites), 1)
    for f, n in sites:
        ok = f.name == "drop" and "WithCtx" in f.def_path
        # abstract run of the function up to the call: which context is in the visitor's slot by then
        # (the one the guard saved), and which contexts the tested flags belong to
        sim = _CtxSim(prog, f)
        top = n
        for c in f.conds_at(n):
            top = c.get("node") or top
        # the statement holding the test: the outermost `if` the call sits under
        # the statement holding the test: the `if` (or other statement) of the innermost plain block on the way
        holder = None
        body_ = hir.peel(f.body)
        for _ in range(4):
            nxt = None
            for st in ((body_.get("block") or {}).get("stmts") or []) + ([body_["block"]["tail"]] if (body_.get("block") or {}).get("tail") else []):
                if _stmt_contains(st, n):
                    holder = st
                    inner_ = hir.peel(st.get("e") or st.get("init") or st) if st.get("k") in ("Semi", "Expr", "Let") else hir.peel(st)
                    if inner_.get("k") == "BlockExpr":
                        nxt = inner_
            if nxt is None:
                break
            body_ = nxt
        sim.run_until(holder if holder is not None else n)
        order = isinstance(sim.slot, tuple) and sim.slot[0] == "saved"

        def conjuncts(e):
            e = hir.peel(e)
            if e.get("k") == "Binary" and e["op"] in ("And", "BitAnd"):
                return conjuncts(e["l"]) + conjuncts(e["r"])
            return [e]

        def from_guard_field(e):
            """a boolean the guard carries (`self.reset_on_drop`): the conjuncts it was computed from where
            the guard was built, read in that function - the context installed there is the one being left at
            drop, the one found there on entry is the one the guard restores"""
            e0 = hir.peel(e)
            if not (e0.get("k") == "Field" and (e0.get("ty") or "") == "bool"):
                return None
            lb = hir.local_of(hir.peel(e0["x"]))
            if not lb or lb[1] != "self":
                return None
            out = None
            for g2 in prog.user_fns:
                for lit in [x for x in hir.walk(g2.body) if x.get("k") == "Struct" and (x["res"].get("path") or "").endswith("WithCtx")]:
                    fl = {x["name"]: x["e"] for x in lit["fields"]}
                    if e0["field"] not in fl:
                        continue
                    s2 = _CtxSim(prog, g2).run_until(lit)
                    saved_is_entry = any(s2.ev(v_) == "ENTRY" for k_, v_ in fl.items() if k_ != e0["field"])
                    kinds_ = []
                    for cj in conjuncts(fl[e0["field"]]):
                        v2 = s2.ev(cj)
                        if isinstance(v2, tuple) and v2[0] == "fld" and v2[2] == "root" and v2[1] == "ENTRY" and saved_is_entry:
                            kinds_.append("root-now")
                        elif isinstance(v2, tuple) and v2[0] == "fld" and v2[2] == "auto_reset" and v2[1] is not None and v2[1] == s2.slot:
                            kinds_.append("auto-child")
                        else:
                            kinds_.append(None)
                    out = kinds_ if out is None else out
            return out

        def classify(e):
            """root-now | auto-child | None for one conjunct of the reset condition"""
            v = _CtxSim.ev(sim_pure(), e)
            if not (isinstance(v, tuple) and v[0] == "fld"):
                return None
            if v[2] == "root" and order and v[1] == sim.slot:
                return "root-now"
            if v[2] == "auto_reset" and v[1] == "ENTRY":
                return "auto-child"
            return None

        def sim_pure():
            # conditions are evaluated on a copy: reads only
            c_ = _CtxSim.__new__(_CtxSim)
            c_.__dict__.update(sim.__dict__)
            c_.env = dict(sim.env)
            return c_

        kinds = []
        for c in f.conds_at(n):
            if c["t"] != "bool" or c["v"] is not True:
                kinds.append(None)
                continue
            for x in conjuncts(c["e"]):
                gf = from_guard_field(x) if order else None
                kinds += gf if gf else [classify(x)]
        conj = sorted(k or "?" for k in kinds) == ["auto-child", "root-now"]
        if not conj and sorted(k or "?" for k in kinds) == ["root-now"]:
            # a context type without an auto-reset flag: every child context resets, the root test alone decides
            try:
                ctx_fields = {x["name"] for v_ in prog.adt("visitor_with_context::Ctx")["variants"] for x in v_["fields"]}
            except AnchorMissing:
                ctx_fields = {"auto_reset"}
            conj = "auto_reset" not in ctx_fields
        check.expect(ok and conj and order, R, R + "/reset_ctx", hir.loc(n), "reset_ctx only from WithCtx::drop under (restored ctx).root & (child ctx).auto_reset", "reset_ctx is called from %s; guard is %s (wanted: root of the restored context and auto_reset of the context being left); ctx restored first=%s" % (f.name, sorted(k or "?" for k in kinds), order))
    ch = prog.fn("Ctx::child")
    check.expect(_never_root(prog, ch), R, R + "/child-not-root", hir.loc(ch.rec), "Ctx::child has root: false", "a child context can be root")
    # guards: methods that install a context which can never be root (with_child_ctx and siblings)
    guards = set()
    for f in prog.user_fns:
        if f.body is None or "WithCtx" not in (f.rec.get("ret") or ""):
            continue
        rs = return_exprs(f.body)
        if not rs:
            continue
        good = True
        for r in rs:
            r = hir.peel(r)
            if hir.is_call(r) and hir.callee_name(r) == "with_ctx" and len(hir.call_args(r)) > 1:
                os_ = Prov(prog).origins(f, hir.call_args(r)[1])
                if not (os_ and all(o[0] == "ctor" and o[2] in prog.by_def and _never_root(prog, prog.by_def[o[2]]) for o, p_ in os_)):
                    good = False
            elif r.get("k") == "Struct" and (r["res"].get("path") or "").endswith("WithCtx"):
                # builds the guard itself: by then the slot must hold a never-root context and the guard
                # must keep the one that was there on entry
                sim = _CtxSim(prog, f).run_until(r)
                okc = isinstance(sim.slot, tuple) and sim.slot[0] == "ctor" and sim.slot[1] in prog.by_def and _never_root(prog, prog.by_def[sim.slot[1]])
                keeps = any(sim.ev(fl["e"]) == "ENTRY" for fl in r["fields"])
                if not (okc and keeps):
                    good = False
            else:
                good = False
                break
        if good:
            guards.add(f.name)
    roots = [(f, n) for f, n, c in prog.call_sites() if hir.is_call(n) and c["name"] == "root" and "Ctx" in c["path"] and not f.rec.get("gen")]
    names = sorted({f.name for f, _ in roots})
    check.expect(names == ["visit_mut_block_stmt"], R, R + "/root-ctx-creation", "-", "Ctx::root() only when a block driver starts a block", "Ctx::root() is created in %s" % names)
    # RAII in visit_mut_expr
    reach = _reaches(prog, "next_ident")
    n_sites = 0
    opv_methods = [f for f in prog.user_fns if (f.rec.get("self_ty") or "").split("<")[0].endswith(OPV) and not (f.rec.get("impl_of_trait") or "").endswith("VisitorWithContext")]
    own = {f.def_path for f in opv_methods}
    for v, n in [(v, n) for v in opv_methods for n in hir.walk(v.body)]:
        if not hir.is_call(n):
            continue
        g = prog.resolve_local(n)
        if g is None or g.def_path not in reach or g.def_path in own:
            continue
        if n.get("callee", {}).get("name") in T_VISIT:
            continue
        n_sites += 1
        roots_ = set()
        for a in hir.call_args(n):
            p = hir.place(a)
            if p:
                roots_.add(p.split(".")[0])
        guard_ok = False
        for r in roots_:
            if "#" not in r:
                continue
            b = v.bindings().get(int(r.split("#")[1]))
            init = b["origin"][1] if b and b["origin"][0] == "let" else None
            # a reborrow of a named guard: `let mut guard = self.with_child_ctx(); let opv = &mut *guard;`
            inits = [init] if init is not None else []
            for _ in range(3):
                more = []
                for i_ in inits:
                    for x in hir.walk(i_):
                        lx = hir.local_of(x) if x.get("k") == "Path" else None
                        bx = v.bindings().get(lx[0]) if lx else None
                        if bx and bx["origin"][0] == "let" and bx["origin"][1] is not None and all(bx["origin"][1] is not y for y in inits + more):
                            more.append(bx["origin"][1])
                if not more:
                    break
                inits += more
            if any(hir.is_call(x) and hir.callee_name(x) in guards for i_ in inits for x in hir.walk(i_)):
                guard_ok = True
            elif init is not None:
                # with_ctx(c) where c can only be a child context
                for x in hir.walk(init):
                    if hir.is_call(x) and hir.callee_name(x) == "with_ctx" and len(hir.call_args(x)) > 1:
                        os_ = Prov(prog).origins(v, hir.call_args(x)[1])
                        if os_ and all(r[0] == "ctor" and r[2] in prog.by_def and _never_root(prog, prog.by_def[r[2]]) for r, p in os_):
                            guard_ok = True
        check.expect(guard_ok, R, "%s/raii/%s" % (R, g.name), hir.loc(n), "%s runs under a with_child_ctx() guard" % g.name, "%s can create temporaries but is not called through a with_child_ctx() guard: the counter is reset while temporaries of the enclosing expression are live" % g.name)
    check.floor(R, "temp-creating transform calls in visit_mut_expr", n_sites, 5)
    wc = prog.fn("VisitorWithContext::with_child_ctx")
    ok = any(hir.is_call(x) and hir.callee_name(x) == "child" for x in hir.walk(wc.body))
    check.expect(ok, R, R + "/with_child_ctx", hir.loc(wc.rec), "with_child_ctx installs Ctx::child(..)", "with_child_ctx does not install a child context")


def _init_of(f, e):
    """initialiser of an immutable local, else the expression itself"""
    e = hir.peel(e)
    l = hir.local_of(e)
    if l:
        b = f.bindings().get(l[0])
        if b and b["origin"][0] == "let" and b["origin"][1] is not None and not f.assignments_to(l[0]):
            return b["origin"][1]
    return e


def _never_root(prog, f, depth=0):
    """True if every Ctx the function f returns has root == false (struct literal with `root: false`,
    or functional update of a context produced by such a function)."""
    if f is None or f.body is None or depth > 3:
        return False
    rs = return_exprs(f.body)
    if not rs:
        return False
    for r in rs:
        r = hir.peel(r)
        if r.get("k") == "Struct" and (r["res"].get("path") or "").endswith("Ctx"):
            fl = {x["name"]: x["e"] for x in r["fields"]}
            if "root" in fl:
                if hir.lit_value(fl["root"]) is not False:
                    return False
                continue
            b = hir.peel(r["base"]) if "base" in r else None
            if b is not None and hir.is_call(b) and _never_root(prog, prog.resolve_local(b), depth + 1):
                continue
            return False
        if hir.is_call(r) and _never_root(prog, prog.resolve_local(r), depth + 1):
            continue
        return False
    return True


T_VISIT = {"visit_mut_with", "visit_mut_children_with", "visit_with", "visit_children_with"}


def _reaches(prog, target_name):
    """def paths of crate functions from which a function named target_name is reachable."""
    edges = {}
    for f in prog.fns:
        if f.body is None:
            continue
        outs = set()
        for n in f.nodes():
            c = n.get("callee")
            if c:
                g = prog.resolve_local(n)
                if g is not None:
                    outs.add(g.def_path)
                if c["name"] == target_name:
                    outs.add("@" + target_name)
                if c["name"] in T_VISIT and hir.is_call(n) and len(hir.call_args(n)) > 1:
                    # traversal through swc re-enters the overrides of the visitor passed
                    vty = core_type(hir.peel(hir.call_args(n)[1]).get("ty") or "").split("<")[0].split("::")[-1]
                    for o in overrides_of(prog, vty):
                        outs.add(o.def_path)
        edges[f.def_path] = outs
    reach = set()
    changed = True
    while changed:
        changed = False
        for d, outs in edges.items():
            if d in reach:
                continue
            if ("@" + target_name) in outs or outs & reach:
                reach.add(d)
                changed = True
    return reach


def rule_typegraph(check):
    R = "TYPEGRAPH"
    check.rule(R, "an AST slot that is evaluated in a different function activation than the enclosing block (parameter defaults, instance field initialisers) must not be reached by the block's operation traversal: some override must stop before it")
    prog = check.prog
    graph = AdtGraph(prog.adts)
    ovs = {core_type(f.rec["params"][1]["ty"]): f for f in overrides_of(prog, OPV) if len(f.rec["params"]) > 1}
    for adt, field, why in OTHER_ACTIVATION:
        rec = prog.adts.get(adt)
        if rec is None:
            raise AnchorMissing("type %s" % adt)
        fld = [x for v in rec["variants"] for x in v["fields"] if x["name"] == field]
        if not fld:
            raise AnchorMissing("field %s.%s" % (adt, field))
        key = "%s/%s.%s" % (R, adt.split("::")[-1], field)
        if not graph.field_reaches(fld[0], {T.EXPR}):
            check.ok(R, key, "-", "slot cannot contain an expression")
            continue
        stopped = False
        how = ""
        # (a) an override for the node type itself that never visits the slot
        f = ovs.get(adt)
        if f is not None:
            tr = Traversal(prog, f, graph)
            covered_some = False
            for p in tr.paths(f.body, tr.initial_env()):
                ok, _ = tr.covered(p, (("field", field),), core_type(fld[0]["ty"]), {T.EXPR}, tr.visitor_ty_name())
                covered_some = covered_some or ok
            stopped = not covered_some
            how = "override %s" % f.name
        # (b) the Expr override handles the variant wrapping this node and does not descend
        if not stopped and adt == "swc_ecma_ast::ArrowExpr":
            v = ovs.get(T.EXPR)
            if v is not None:
                tr = Traversal(prog, v, graph)
                arrow_paths = [p for p in tr.paths(v.body, tr.initial_env()) if isinstance(tr.variant_known(p, ()), str) and tr.variant_known(p, ()).endswith("Expr::Arrow")]
                stopped = bool(arrow_paths) and not any(e["kind"] in ("with", "children") and e["vty"].endswith(OPV) for p in arrow_paths for e in p.effects)
                how = "Expr::Arrow arm of visit_mut_expr"
        if stopped:
            check.ok(R, key, "-", "not reached by the enclosing block's traversal (%s): %s" % (how, why))
        else:
            check.bad(R, key, "src/visitor/operation_transform_visitor.rs", "%s.%s is instrumented with temporaries of the enclosing block although %s" % (adt.split("::")[-1], field, why))


def rule_declare_first(check):
    R = "DECLARE-FIRST"
    check.rule(R, "the injected `let` is the first statement after the directive prologue of its block - its index is exactly the number of leading directives - so it precedes every statement that can assign or read a temporary (a `let` placed later leaves its temporaries in the temporal dead zone)")
    prog = check.prog
    from . import c07

    iv = prog.fn("block_transform_visitor::insert_variable_declaration")
    sites = [n for g in prog.flat(iv, 2) for n in g.nodes() if n.get("k") == "MethodCall" and n["method"] in ("insert", "splice") and "Vec<" in (hir.peel(n["recv"]).get("ty") or "")]
    owners = {id(n): g for g in prog.flat(iv, 2) for n in g.nodes()}
    check.floor(R, "insertions of the declaration", len(sites), 1)
    for n in sites:
        g = owners[id(n)]
        idx = n["args"][0]
        if n["method"] == "splice":
            idx = c07._empty_range(idx)
        c07._PRED_CTX["prog"] = prog
        c07._PRED_CTX["fn"] = g
        idiom, pcs, src = c07.index_idiom(prog, g, idx) if idx is not None else (None, set(), None)
        if idiom is None and idx is not None:
            # position(!p).unwrap_or(len) and friends are judged by C07's VALUESET; here only the
            # idiom that is known to overshoot matters
            check.ok(R, R + "/" + g.name, hir.loc(n), "index is not computed from the last matching statement")
            continue
        check.expect(idiom == "exact", R, R + "/" + g.name, hir.loc(n), "declaration index = number of leading directives", "the declaration is inserted after the *last* string-literal statement of the block, not after the leading directives: statements between them use the temporaries before the `let` (ReferenceError)")


def rule_refusal(check):
    R = "REFUSAL-GATE"
    check.rule(R, "the `let` is inserted only when no user identifier with the reserved prefix was seen in the block; otherwise the rewrite is cancelled (and transform_js turns Cancelled into Err); the collision check sees every identifier handed to visit_mut_ident")
    prog = check.prog
    graph = AdtGraph(prog.adts)
    f = [x for x in overrides_of(prog, BTV) if x.name == "visit_mut_block_stmt"][0]
    tr = Traversal(prog, f, graph)
    dupfn, dup_calls = _dup_test(prog, f)
    n_decl = 0
    for p in tr.paths(f.body, tr.initial_env()):
        calls = [e for e in p.effects if e["kind"] == "call" and e.get("depth") == 0]
        names = [e["name"] for e in calls]
        cancels_ = any(T.effect_cancels(prog, e) for e in p.effects)
        dup = [c for c in p.conds if hir.cond_call(c) and prog.resolve_local(hir.cond_call(c)[4]) is dupfn]
        if "insert_variable_declaration" in names:
            n_decl += 1
            ok = bool(dup) and all(hir.cond_call(c)[3] is False for c in dup) and not cancels_
            check.expect(ok, R, R + "/declare-only-if-no-clash", hir.loc(f.rec), "let inserted on the no-duplicate edge", "insert_variable_declaration runs without (or before) the duplicate test")
            order = names.index("insert_variable_declaration") > max([i for i, e in enumerate(p.effects) if e["kind"] == "children" and e["vty"].endswith(OPV)] or [-1]) - len(p.effects)
        if dup and all(hir.cond_call(c)[3] is True for c in dup):
            ok = cancels_ and p.term
            check.expect(ok, R, R + "/cancel-on-clash", hir.loc(f.rec), "clash cancels the visit and returns", "a name clash does not cancel the rewrite")
    check.floor(R, "declaring paths", n_decl, 1)
    for d in dup_calls:
        a0 = hir.place(hir.call_args(d)[0]) or ""
        if not a0.endswith(".variable_decl"):
            # the collection may be read inside the predicate (a method of the provider)
            inner = [hir.place(hir.peel(x["recv"])) or "" for x in dupfn.nodes() if x.get("k") == "MethodCall" and x["method"] in ("iter", "contains", "into_iter")]
            if any(i_.endswith(".variable_decl") for i_ in inner) and "ident_provider" in a0:
                a0 = a0 + ".variable_decl"
        check.expect(a0.endswith(".variable_decl"), R, R + "/checks-registered-variables", hir.loc(d), "collision check reads the provider's variable_decl", "collision check reads %s" % a0)
        # must be evaluated after the operation visitor has run
        vis = [x for x in hir.calls_in(f.body, name="visit_mut_children_with") if "OperationTransformVisitor" in tr.visitor_type_of(hir.call_args(x)[1])]
        check.expect(bool(vis) and all(x["id"] < d["id"] for x in vis), R, R + "/after-visit", hir.loc(d), "collision check runs after the block was visited", "collision check runs before the block is visited")
    vi = [x for x in overrides_of(prog, OPV) if x.name == "visit_mut_ident"]
    ok = len(vi) == 1 and any(hir.callee_name(x) == "register_variable" and hir.local_of(hir.call_args(x)[1]) for x in hir.walk(vi[0].body) if hir.is_call(x))
    check.expect(ok, R, R + "/visit_mut_ident", hir.loc(vi[0].rec) if vi else "-", "every visited identifier is registered", "visit_mut_ident does not register the identifier")
    rv = _impl_method(prog, "DefaultIdentProvider", "register_variable")
    ok = any(hir.callee_name(x) in ("insert", "push") and (hir.place(hir.call_args(x)[0]) or "").endswith(".variable_decl") and not rv.conds_at(x) for x in hir.walk(rv.body) if hir.is_call(x))
    check.expect(ok, R, R + "/register_variable", hir.loc(rv.rec), "register_variable stores unconditionally", "register_variable does not store every identifier")
    dup = dupfn
    anyc = [x for x in hir.calls_in(dup.body, name="any")]
    ok = len(anyc) == 1 and hir.peel(dup.body) is anyc[0] or (len(anyc) == 1 and anyc[0] in [hir.peel(r) for r in return_exprs(dup.body)])
    conj = []
    if anyc:
        cl = [a for a in hir.call_args(anyc[0])[1:] if hir.peel(a).get("k") == "Closure"]
        if cl:
            for e in T._conjuncts(hir.peel(cl[0])["body"]):
                e = hir.peel(e)
                if e.get("k") == "Binary" and e["op"] == "Ne" and "DUMMY_SP" in hir.describe(e):
                    conj.append("span != DUMMY_SP")
                elif hir.is_call(e) and hir.callee_name(e) == "starts_with":
                    conj.append("starts_with")
                else:
                    conj.append("?" + hir.describe(e))
    check.expect(ok and sorted(conj) == ["span != DUMMY_SP", "starts_with"], R, R + "/clash-predicate", hir.loc(dup.rec), "clash = any user identifier (non-dummy span) starting with the reserved prefix", "clash predicate is %s" % conj)
    t = prog.fn("rewriter::transform_js")
    from .. import boolform as BF

    err_nodes = [x for x in hir.walk(t.body) if x.get("k") == "Call" and (hir.peel(x["f"]).get("res", {}).get("ctor_path") or "").split("::")[-1] == "Err"]
    can = BF.atom("is:Status::Cancelled")
    errs = [True] if any(BF.entails(S.status_premises(prog, t, t.conds_at(x)), can, exhaustive=S.STATUS_EXH) for x in err_nodes) else []
    # nothing else is returned for a cancelled rewrite: every Ok(..)/printed result excludes Cancelled
    for x in hir.walk(t.body):
        if x.get("k") == "Struct" and (x["res"].get("path") or "").endswith("RewrittenOutput") or (hir.is_call(x) and (hir.callee_name(x) or x.get("method")) == "print" and "Compiler" in ((x.get("callee") or {}).get("path") or "")):
            if not BF.entails(S.status_premises(prog, t, t.conds_at(x)), BF.neg(can), exhaustive=S.STATUS_EXH):
                errs = [False]
    check.expect(errs == [True], R, R + "/cancelled-is-error", hir.loc(t.rec), "Cancelled -> Err, nothing printed", "a cancelled rewrite is not turned into an error")


def rule_counter(check):
    R = "COUNTER"
    check.rule(R, "every temporary created between two resets gets a fresh number: next_ident returns the counter and increments it by one unconditionally, the number it returns is the one the name is built from, and reset_counter is the only other writer")
    prog = check.prog
    pv = Prov(prog)
    ni = _impl_method(prog, "DefaultIdentProvider", "next_ident")
    incs = [n for n in ni.nodes() if n.get("k") == "AssignOp" and (hir.place(n["l"]) or "").endswith(".ident_counter")]
    ok = len(incs) == 1 and incs[0]["op"] in ("Add", "AddAssign") and hir.lit_value(incs[0]["r"]) == 1 and not ni.conds_at(incs[0])
    check.expect(ok, R, R + "/increment", hir.loc(ni.rec), "counter += 1 on every call", "next_ident does not increment the counter by one on every call")
    rets = return_exprs(ni.body)
    ro = set()
    for r in rets:
        ro |= pv.origins(ni, r)
    ok = bool(ro) and all(r[0] == "param" and p and p[-1] == "ident_counter" for r, p in ro)
    before = all(hir.local_of(r) and ni.bindings()[hir.local_of(r)[0]]["origin"][1]["id"] < incs[0]["id"] for r in rets if hir.local_of(r)) if incs else False
    check.expect(ok and before, R, R + "/returns-counter", hir.loc(ni.rec), "returns the value of the counter before the increment", "next_ident does not return the pre-increment counter value")
    writers = sorted({f.name for f in prog.user_fns for n in f.nodes() if n.get("k") in ("Assign", "AssignOp") and (hir.place(n["l"]) or "").endswith(".ident_counter")})
    check.expect(writers == ["next_ident", "reset_counter"], R, R + "/writers", "-", "ident_counter written only by next_ident and reset_counter", "ident_counter is written in %s" % writers)
    rc = _impl_method(prog, "DefaultIdentProvider", "reset_counter")
    z = [n for n in rc.nodes() if n.get("k") == "Assign" and hir.lit_value(n["r"]) == 0]
    check.expect(len(z) == 1, R, R + "/reset", hir.loc(rc.rec), "reset_counter sets 0", "reset_counter does not set the counter to 0")
    from .. import xformrules as _X
    chain_ = _X.temp_ident_chain(prog)
    recs_ = [rec_ for rec_ in chain_ if rec_["idents"]]
    ok = bool(recs_) and all(rec_["counters"] and not [o_ for o_ in rec_["other"] if o_.startswith("index ")] for rec_ in recs_)
    check.expect(ok, R, R + "/index-from-counter", hir.loc(chain_[0]["g"].rec) if chain_ else "-", "the name index is the number just drawn", "the name of a temporary is not built from the number returned by next_ident (%s)" % sorted({o_ for rec_ in recs_ for o_ in rec_["other"]}))
    ok = bool(recs_) and all(rec_["namers"] and not [o_ for o_ in rec_["other"] if o_.startswith("name ")] for rec_ in recs_)
    check.expect(ok, R, R + "/name-from-index", hir.loc(chain_[0]["g"].rec) if chain_ else "-", "name = get_dd_local_variable_name(index, prefix)", "the temporary name is not built by get_dd_local_variable_name from the index (%s)" % sorted({o_ for rec_ in recs_ for o_ in rec_["other"]}))
    nm = prog.fn("visitor_util::get_dd_local_variable_name")
    from .. import fmtargs

    fm = fmtargs.formats_in(nm)
    ok = len(fm) == 1 and [k for k, v in fm[0][1]] == ["arg", "arg"] and hir.local_of(fm[0][1][1][1]) and nm.bindings()[hir.local_of(fm[0][1][1][1])[0]]["origin"][:2] == ("param", 0)
    check.expect(bool(ok), R, R + "/name-format", hir.loc(nm.rec), "name = <prefix><n>", "get_dd_local_variable_name does not append the number to the prefix")
    ids = [(h_, n_, r_, rec_["pv"]) for rec_ in recs_ for h_, n_, r_ in rec_["idents"]]
    ok = bool(ids)
    for h_, n_, r_, pv_ in ids:
        flds = {x["name"]: x["e"] for x in n_["fields"]}
        sp_ = flds.get("span")
        direct = (hir.def_path_of(sp_ or {}) or "").endswith("DUMMY_SP")
        # through a constructor helper: what the call that built this identifier passed for the span
        os_ = pv_.origins(h_, sp_, r_[4]) if sp_ is not None and len(r_) > 4 else set()
        via = bool(os_) and all(o_[0][0] in ("const", "path", "static") and str(o_[0][1]).endswith("DUMMY_SP") and not o_[1] for o_ in os_)
        ok = ok and (direct or via)
    check.expect(ok, R, R + "/dummy-span", hir.loc(ids[0][1]) if ids else "-", "injected identifiers carry DUMMY_SP (what the collision check uses to tell them from user identifiers)", "injected identifiers no longer carry DUMMY_SP: the collision check treats them as user identifiers")


def rule_declare_scope(check):
    """DECLARE-SCOPE (C01, C03, C06): the `let` that declares the temporaries goes into block B, so the
    operation visitor that creates them may only run over what B contains"""
    R = "DECLARE-SCOPE"
    check.rule(R, "wherever an OperationTransformVisitor is constructed and run, every tree it is run over is the block whose statements receive the `let` of its temporaries (the node handed to insert_variable_declaration), visited through its children: a sub-tree outside that block (parameters, another block) would use temporaries that are not in scope there")
    prog = check.prog
    n_ctor = 0
    for f in prog.user_fns:
        lits = [n for n in hir.walk(f.body) if n.get("k") == "Struct" and (n["res"].get("path") or "").split("<")[0].endswith(OPV)]
        if not lits:
            continue
        n_ctor += len(lits)
        visits = []
        for n in f.nodes():
            if n.get("k") == "MethodCall" and n["method"] in T_VISIT_METHODS and n["args"]:
                if OPV in (hir.peel(n["args"][0]).get("ty") or "") and hir.local_of(n["args"][0]) and hir.local_of(n["args"][0])[1] != "self":
                    visits.append(n)
        decl = list(hir.calls_in(f.body, name="insert_variable_declaration"))
        check.expect(bool(visits) and bool(decl), R, "%s/%s/driver" % (R, f.name), hir.loc(f.rec), "%s runs the operation visitor and declares its temporaries" % f.name, "%s constructs an operation visitor but does not both run it and declare its temporaries (%d visits, %d declarations)" % (f.name, len(visits), len(decl)))
        if not visits or not decl:
            continue
        blocks = {(hir.local_of(hir.call_args(d)[1]) or (None,))[0] for d in decl}
        for v in visits:
            root = hir.local_of(v["recv"])
            direct = hir.peel(v["recv"]).get("k") in ("Path",) or (hir.place(v["recv"]) or "").count(".") == 0
            ok = bool(root) and root[0] in blocks and len(blocks) == 1 and direct and v["method"].endswith("children_with")
            check.expect(ok, R, "%s/%s/%s" % (R, f.name, re.sub(r"#\d+", "", hir.place(v["recv"]) or hir.describe(v["recv"]))[:40]), hir.loc(v), "the operation visitor runs over the children of the block that gets the `let`", "the operation visitor is run over `%s`, which is not (the children of) the block that receives the `let` of its temporaries: those temporaries are used where they are not declared" % re.sub(r"#\d+", "", hir.place(v["recv"]) or hir.describe(v["recv"])))
    check.floor(R, "operation visitor constructions", n_ctor, 1)


T_VISIT_METHODS = {"visit_mut_with", "visit_mut_children_with", "visit_with", "visit_children_with"}


def run(check):
    check.guarded("COUNTER", rule_counter)
    check.guarded("DECLARE-SCOPE", rule_declare_scope)
    check.guarded("DECLARE-PATH", rule_declare_path)
    check.guarded("DECLARE-FIRST", rule_declare_first)
    check.guarded("RESET-DISCIPLINE", rule_reset)
    check.guarded("TARGET-KEPT", rule_target_kept)
    # assigned before it is read: the temporary handed out for an operand is the one assigned on this path
    from .. import xformrules as _X
    check.guarded("FRESH-TEMP", _X.rule_assigned_in_sequence)
    check.guarded("TYPEGRAPH", rule_typegraph)
    check.note("TRAV-IDENT: Expr::Arrow.0.body is not a hole: ARROW-BLOCK (C04) turns it into a block that the block driver visits with its own provider")
    check.rule("TRAV-IDENT", "the collision check only sees identifiers handed to visit_mut_ident: every path of the operation traversal that skips a sub-tree other than a nested block hides user identifiers from it")
    check.guarded("TRAV-IDENT", lambda c: T.run_cover(c, "TRAV-IDENT", OPV, {T.IDENT}, [], {"visit_mut_expr", "visit_mut_ident", "visit_mut_block_stmt"}, block_override_ok=lambda tr, paths: True, ignore_missing=lambda m: m.endswith("Expr::Arrow.0.body"), also_vtys=tuple(sorted(T.registering_visitors(c.prog)))))
    check.guarded("DEFAULT-VISITOR", lambda c: T.rule_default_visitor(c, "VisitMut", {T.IDENT}))
    check.guarded("REFUSAL-GATE", rule_refusal)
    return {
        "explanation": "Who-may-call, control-dependence, RAII-style and traversal rules over the typed HIR of the ident provider, context guard, operation visitor and block driver; a type-graph rule over slots evaluated in another activation.",
        "assumptions": ["ECMAScript evaluation rules for parameter defaults and field initialisers (frozen table, one reason each)"],
        "not_decided": ["liveness of temporaries in generated code for all nestings and re-entrant histories"],
    }
