"""C01 - pass-through equivalence.  Not decided: observational equivalence of input and output
programs (a semantic statement about two programs for all runtime values).  Decided - necessary
conditions, each of which, broken, changes behaviour for some input: every expression is offered to
the visitor at its root (optional chains are lowered from the outermost link), hoisting order is
ECMAScript order, hoisted comma expressions are parenthesised, identifier keep/replace wiring,
sequences are parenthesised."""
from .. import xformrules as X
from .. import travrules as T


def run(check):
    check.rule("TRAV-ROOT", "x.visit_mut_children_with(v) on a sub-node whose type has an override in v bypasses that override for the root of x: an optional chain entered from the inside is lowered without its outer links (short-circuit lost)")

    def root(c):
        sub = _Filter(c, {"TRAV-ROOT"})
        T.run_cover(sub, "TRAV-COVER", "OperationTransformVisitor", {T.EXPR}, [T.excl_delete, T.excl_tpl_literal, T.excl_arrow], {"visit_mut_expr"}, block_override_ok=lambda tr, paths: True)

    check.guarded("TRAV-ROOT", root)
    check.guarded("DELETE-KEPT", lambda c: T.rule_delete_kept(c, "DELETE-KEPT", "OperationTransformVisitor"))
    check.guarded("ORDER", X.rule_order)
    check.guarded("GROUP", X.rule_hoist_paren)
    check.guarded("GROUP", X.rule_synth_operands)
    check.guarded("IDENT-MODE", X.rule_ident_mode)
    check.guarded("PAREN-WRAP", X.rule_paren_wrap)
    check.guarded("FANOUT", X.rule_fanout)
    check.guarded("OPTCHAIN-LOWERING", X.rule_optchain_lowering)
    check.guarded("OPTCHAIN-LINK-FLAG", X.rule_optchain_link_flag)
    # a node kind outside the instrumentation vocabulary (a `this` where the input said `super`, a new
    # operator) is code the input did not have: nothing says it behaves like what it replaces
    check.guarded("INVENTORY", X.rule_inventory)
    check.guarded("CALL-EMISSION", X.rule_call_emission)
    from . import c04

    check.guarded("ARROW-BLOCK", c04.rule_arrow_block)
    check.guarded("FRESH-TEMP", X.rule_fresh_temp)
    # a temporary stands for one evaluation of one operand: what is pushed for the hook and what is left in
    # place are that evaluation (a value saved earlier for "the same" identifier is stale once something in
    # between assigns it), and no operand is listed for the hook from a second copy
    check.guarded("MIRROR", X.rule_mirror)
    check.guarded("HOOK-ARGS", X.rule_hook_args_source)
    check.guarded("SPREAD-ONCE", X.rule_spread_once)
    check.guarded("KEPT-IN-PLACE", X.rule_kept_in_place)
    check.guarded("NODE-REBUILD", X.rule_node_rebuild)
    check.guarded("METHOD-NAME-KEPT", X.rule_method_name_kept)
    check.guarded("OPTCHAIN-SPINE", X.rule_optchain_spine)
    check.guarded("INPUT-UNTOUCHED", X.rule_input_untouched)
    check.guarded("NOT-MODIFIED-UNTOUCHED", X.rule_not_modified_untouched)
    # `tmp.x = (tmp = g(), ..)`: the target reference is evaluated before the right-hand side (TypeError on
    # undefined, or a write to a stale object)
    from . import c06 as _c06
    check.guarded("TARGET-KEPT", _c06.rule_target_kept)
    # a file that is not instrumented must come back as it went in: the package hands back the caller's
    # text for `notmodified` results, which needs the metrics (and their status) on every result
    from . import c12 as _c12
    check.guarded("JS-HANDBACK", _c12.rule_js_handback)
    check.guarded("METRICS-PRESENT", _c12.rule_metrics_present)
    from . import c06 as _c06
    check.guarded("DECLARE-SCOPE", _c06.rule_declare_scope)
    # every temporary a hook call uses is declared by the `let` of the block whose visitor created it
    from ..engine import Only as _Only
    check.rule("DECLARE-PATH", "the registered temporaries of a block's provider are exactly what the `let` injected into that block declares (an undeclared or shared temporary is a ReferenceError in strict code or a value clobbered by another activation)")
    check.guarded("DECLARE-PATH", lambda c: _c06.rule_declare_path(_Only(c, "DECLARE-PATH", "DECLARE-PATH", ("/declares-registered", "/registered", "/provider-stores", "/let", "/each-ident", "/FLOOR/insert_variable_declaration", "/FLOOR/temporaries created"))))
    return {
        "explanation": "Structural necessary conditions of behaviour preservation decided over the typed HIR: root dispatch of every expression, order of hoisting against the ECMAScript evaluation order table, parenthesisation of hoisted comma expressions and of injected sequences, keep/replace wiring for identifiers, and single use of every input sub-tree.",
        "assumptions": ["ECMAScript evaluation order table (left before right, object before property, callee before arguments)"],
        "not_decided": ["observational equivalence of executions (values, effect order, exception points) for all inputs: this would be a proof of the transformation, outside static lints/dataflow", "liveness of temporaries (C06)"],
    }


class _Filter:
    """Forward only the instances of some rules to the real check (a rule engine run reused under
    another property must not re-report rules that belong elsewhere)."""

    def __init__(self, check, keep):
        self._c = check
        self._keep = keep
        self.prog = check.prog

    def ok(self, rule, *a, **k):
        if rule in self._keep:
            self._c.ok(rule, *a, **k)

    def bad(self, rule, *a, **k):
        if rule in self._keep:
            self._c.bad(rule, *a, **k)

    def expect(self, cond, rule, *a, **k):
        if rule in self._keep:
            return self._c.expect(cond, rule, *a, **k)
        return cond

    def floor(self, rule, *a, **k):
        if rule in self._keep:
            self._c.floor(rule, *a, **k)

    def note(self, s):
        pass

    def rule(self, *a):
        pass
