"""C08 - every output is valid JavaScript of the same kind.  Not decided: validity of swc's printed
text and Node's acceptance.  Decided: injected sequences are parenthesised, hoisted operands are never
moved into a tighter grammar position unparenthesised, the program kind is untouched, the trailer is a comment line after a newline."""
from .. import hir, fmtargs
from .. import xformrules as X
from . import c04


def rule_trailer_comment(check):
    R = "TRAILER-COMMENT"
    check.rule(R, "the appended trailer starts on a new line with `//` (a line comment): it cannot break the program text")
    prog = check.prog
    pj = prog.fn("rewriter::print_js")
    n = 0
    for node, pieces in fmtargs.formats_in(pj):
        if any(k == "lit" and "base64" in v for k, v in pieces):
            n += 1
            ok = len(pieces) >= 2 and pieces[1][0] == "lit" and pieces[1][1].startswith("\n//")
            check.expect(ok, R, R + "/newline-comment", hir.loc(node), "code + '\\n//' + ...", "the trailer does not start with a newline and `//`")
    check.floor(R, "trailer sites", n, 1)


def run(check):
    check.guarded("PAREN-WRAP", X.rule_paren_wrap)
    check.guarded("GROUP", X.rule_hoist_paren)
    check.guarded("PROGRAM-KIND", X.rule_program_kind)
    check.guarded("TRAILER-COMMENT", rule_trailer_comment)
    return {
        "explanation": "Grammar-position rules on what the rewriter constructs: parenthesised sequences, parenthesised hoisted comma expressions, untouched program kind, and the trailer being a line comment on its own line.",
        "assumptions": ["swc's code generator prints a syntactically valid program for a well-formed tree and does not run the fixer pass (tree printed as given)"],
        "not_decided": ["acceptance of the printed text by Node's parser for all inputs", "real-world library code"],
    }
