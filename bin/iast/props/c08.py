"""C08 - every output is valid JavaScript of the same kind.  Not decided: validity of swc's printed
text and Node's acceptance.  Decided: injected sequences are parenthesised, hoisted operands are never
moved into a tighter grammar position unparenthesised, the program kind is untouched, the trailer is a comment line after a newline."""
from .. import hir, fmtargs
from .. import xformrules as X
from . import c04


def rule_trailer_comment(check):
    R = "TRAILER-COMMENT"
    check.rule(R, "the appended trailer starts on a new line with `//` (a line comment): it cannot break the program text")
    prog = check.prog
    pj = prog.fn("rewriter::print_js")
    n = 0
    for node, pieces in fmtargs.text_assemblies(prog, pj):
        if any(k == "lit" and "base64" in v for k, v in pieces):
            n += 1
            ok = len(pieces) >= 2 and pieces[1][0] == "lit" and pieces[1][1].startswith("\n//")
            check.expect(ok, R, R + "/newline-comment", hir.loc(node), "code + '\\n//' + ...", "the trailer does not start with a newline and `//`")
    check.floor(R, "trailer sites", n, 1)


RAW_TYPES = {"TplElement", "Str", "Number", "BigInt", "Regex", "JSXText"}
RAW_FIELDS = {"raw", "cooked", "exp", "flags"}


def rule_raw_text(check):
    R = "RAW-TEXT"
    check.rule(R, "the printer emits the `raw` text of template chunks, strings, numbers and regular expressions verbatim: the rewriter never fabricates or edits such token text (no construction of these nodes, no assignment to their raw/cooked/exp/flags fields), so it cannot assemble text that lexes differently")
    prog = check.prog
    n_scanned = 0
    for f in prog.user_fns:
        for n in f.nodes():
            if n.get("k") == "Struct":
                n_scanned += 1
                p = (n["res"].get("path") or "")
                if p.startswith("swc_ecma_ast::") and p.split("::")[-1] in RAW_TYPES:
                    check.bad(R, "%s/%s/constructs-%s" % (R, X.T.short(f), p.split("::")[-1]), hir.loc(n), "%s constructs a %s: its raw text is printed verbatim and is not re-lexed by the rewriter" % (f.name, p.split("::")[-1]))
            if n.get("k") in ("Assign", "AssignOp"):
                n_scanned += 1
                l = hir.peel(n["l"])
                if l.get("k") == "Field" and l["field"] in RAW_FIELDS:
                    bt = (l.get("base_ty") or "").replace("&mut ", "").replace("&", "")
                    if bt.startswith("swc_ecma_ast::") and bt.split("::")[-1].split("<")[0] in RAW_TYPES:
                        check.bad(R, "%s/%s/assigns-%s.%s" % (R, X.T.short(f), bt.split("::")[-1], l["field"]), hir.loc(n), "%s rewrites %s.%s: token text assembled by concatenation can lex differently (e.g. `$` + `{` inside a template)" % (f.name, bt.split("::")[-1], l["field"]))
            # ... or takes a mutable view of one (`s.raw.take()`, `mem::take(&mut s.raw)`, `*(&mut s.raw) = ..`)
            if n.get("k") == "Field" and n.get("field") in RAW_FIELDS:
                bt = (n.get("base_ty") or "").replace("&mut ", "").replace("&", "")
                if bt.startswith("swc_ecma_ast::") and bt.split("::")[-1].split("<")[0] in RAW_TYPES:
                    par = f.parent(n)
                    mut_view = any("Borrow(Ref(Mut" in a_ for a_ in (n.get("adj") or [])) or (par is not None and par.get("k") == "AddrOf" and par.get("mut"))
                    if mut_view:
                        check.bad(R, "%s/%s/assigns-%s.%s" % (R, X.T.short(f), bt.split("::")[-1], n["field"]), hir.loc(n), "%s takes a mutable view of %s.%s (take / replace / in-place edit): token text that is dropped or edited is printed from the value and can lex differently" % (f.name, bt.split("::")[-1], n["field"]))
    check.ok(R, R + "/scan", "-", "%d struct literals / assignments scanned: no token text is fabricated" % n_scanned)
    check.floor(R, "constructions and assignments scanned", n_scanned, 60)


def run(check):
    # a user declaration with a reserved-prefix name next to the injected `let` is a redeclaration
    # (SyntaxError): the refusal must see every identifier of the block
    from . import c06
    from .. import travrules as T

    check.rule("TRAV-IDENT", "every identifier of a block reaches the reserved-prefix collision check (otherwise the injected `let` can redeclare a user declaration: SyntaxError)")
    check.guarded("TRAV-IDENT", lambda c: T.run_cover(c, "TRAV-IDENT", "OperationTransformVisitor", {T.IDENT}, [], {"visit_mut_expr", "visit_mut_ident", "visit_mut_block_stmt"}, block_override_ok=lambda tr, paths: True, ignore_missing=lambda m: m.endswith("Expr::Arrow.0.body"), also_vtys=tuple(sorted(T.registering_visitors(c.prog)))))
    check.guarded("REFUSAL-GATE", c06.rule_refusal)
    check.guarded("RAW-TEXT", rule_raw_text)
    # a node kind outside the instrumentation vocabulary is printed in a position nothing has shown it can
    # stand in (an expression promoted to a statement starts the statement: `function () {}();`, `{ x } = o;`)
    check.guarded("INVENTORY", X.rule_inventory)
    check.guarded("PAREN-WRAP", X.rule_paren_wrap)
    check.guarded("GROUP", X.rule_hoist_paren)
    from ..engine import Only as _Only
    check.rule("OPERAND-GRAMMAR", "operands the operand handler leaves in place (and copies) are of kinds that can stand as an operand of the rebuilt binary `+` without parentheses: an arrow function, a yield, an assignment, a conditional or a sequence left in place is printed unparenthesised inside `left + right` and the output does not parse")
    check.guarded("OPERAND-GRAMMAR", lambda c: X.rule_kept_in_place(_Only(c, "KEPT-IN-PLACE", "OPERAND-GRAMMAR", ("/grammar/",))))
    check.guarded("PROGRAM-KIND", X.rule_program_kind)
    check.guarded("TRAILER-COMMENT", rule_trailer_comment)
    check.guarded("TS-FLAGS", X.rule_ts_flags)
    check.guarded("NODE-REBUILD", X.rule_node_rebuild)
    return {
        "explanation": "Grammar-position rules on what the rewriter constructs: parenthesised sequences, parenthesised hoisted comma expressions, untouched program kind, and the trailer being a line comment on its own line.",
        "assumptions": ["swc's code generator prints a syntactically valid program for a well-formed tree and does not run the fixer pass (tree printed as given)"],
        "not_decided": ["acceptance of the printed text by Node's parser for all inputs", "real-world library code"],
    }
