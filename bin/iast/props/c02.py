"""C02 - erasing the instrumentation gives back the input.  Not decided: structural equality of
parse(input) and erased parse(output), fidelity of swc's printer.  Decided: the closed set of node
kinds the rewriter can construct, single use of every input sub-tree, nothing dropped, print path."""
from .. import xformrules as X
from . import c09


def run(check):
    check.guarded("INVENTORY", X.rule_inventory)
    check.guarded("FANOUT", X.rule_fanout)
    check.guarded("NOTHING-DROPPED", X.rule_nothing_dropped)
    check.guarded("GROUP", X.rule_hoist_paren)
    check.guarded("CALL-EMISSION", X.rule_call_emission)
    check.guarded("PRINT-PATH", c09.rule_print_path)
    check.guarded("FRESH-TEMP", X.rule_fresh_temp)
    check.guarded("KEPT-IN-PLACE", X.rule_kept_in_place)
    check.guarded("OPTCHAIN-LOWERING", X.rule_optchain_lowering)
    check.guarded("OPTCHAIN-LINK-FLAG", X.rule_optchain_link_flag)
    check.guarded("METHOD-NAME-KEPT", X.rule_method_name_kept)
    check.guarded("OPTCHAIN-SPINE", X.rule_optchain_spine)
    check.guarded("INPUT-UNTOUCHED", X.rule_input_untouched)
    check.guarded("NOT-MODIFIED-UNTOUCHED", X.rule_not_modified_untouched)
    return {
        "explanation": "Inventory of every AST node kind constructed in the build against the documented instrumentation shapes, per-function single-use (fan-out) analysis of input sub-trees copied into constructed output, completeness of operand processing, and the print path.",
        "assumptions": ["swc prints untouched nodes faithfully", "clones of AST nodes are structurally equal to their source"],
        "not_decided": ["tree equality after erasure for all inputs", "duplication across function boundaries (only the hoisting path is covered, by C03 MIRROR)"],
    }
