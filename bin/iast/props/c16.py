"""C16 - determinism and independence of calls.  Decided: no state reachable from a rewrite call
outlives it (statics, what the Rewriter owns, borrow kinds of the configuration, per-call construction
sites), the random prefix is drawn once per rewriter, and the inventory of nondeterminism sources.
Not decided: global state inside swc (interner, GLOBALS) and hash seeds of dependencies."""
import re
from .. import hir, gate
from ..engine import AnchorMissing
from ..prov import Prov, origin_str, return_exprs
from ..trav import overrides_of, core_type
from .. import travrules as T
from .c06 import T_VISIT

FORBIDDEN_OWNED = ["swc::Compiler", "swc_common::SourceMap", "swc_common::source_map::SourceMap", "swc::SwcComments", "transform::transform_status::TransformStatus", "telemetry::IastTelemetry", "telemetry::DefaultTelemetry", "telemetry::DebugTelemetry", "visitor::ident_provider::DefaultIdentProvider", "visitor::literal_visitor::LiteralVisitor", "std::cell::", "std::sync::Mutex", "std::sync::RwLock", "std::sync::atomic::", "std::rc::Rc", "std::sync::Arc", "dashmap::"]
REVIEWED_PTR_OWNERS = {"std::ptr::Unique": "unique owner pointer of Box/Vec (no sharing)", "swc::swc_atoms::hstr::tagged_value::TaggedValue": "hstr::Atom handle: immutable interned string, only its reference count changes", "hstr::tagged_value::TaggedValue": "hstr::Atom handle"}

PER_CALL_CTORS = {
    # constructor (self type suffix, fn name) -> functions allowed to call it
    ("swc::Compiler", "new"): {"rewrite_js", "generate_prefix_stmts"},
    ("SourceMap", "new"): {"rewrite_js", "generate_prefix_stmts"},
    ("TransformStatus", "not_modified"): {"transform_js"},
    ("DefaultIdentProvider", "new"): {"visit_mut_block_stmt"},
    ("LiteralVisitor", "default"): {"get_literals"},
    ("OptChainVisitor", "default"): {"to_dd_cond_expr"},
    ("BlockTransformVisitor", "default"): {"transform_js"},
    ("IastTelemetry", "new"): {"not_modified"},
}

NONDET_REVIEWED = {
    ("LiteralVisitor::get_result", "iter", "HashMap"): "order of the reported literal *set* (the statement promises a set)",
    ("LiteralVisitor::get_result", "iter", "HashSet"): "order of locations inside one literal entry (a set)",
    ("block_transform_visitor::variables_contains_possible_duplicate", "iter", "HashSet"): "`any` over the set: order free",
    ("rewriter::extract_source_map", "iter", "DashMap"): "scan for the sourceMappingURL comment: order matters only with two such comments (last match wins), reviewed",
    ("rewriter::remove_source_map_comments", "iter_mut", "DashMap"): "retain on every entry: order free",
    ("util::rnd_string", "usize", "fastrand"): "random prefix, drawn once per Rewriter (PREFIX-ONCE)",
}


# the same reviews stated over *what is iterated* (the type of the collection), so that they survive a
# renamed function or `iter()` becoming `into_iter()` / a `for` loop
NONDET_REVIEWED_TYPES = [
    (r"HashMap<std::string::String,\s*std::collections::HashSet<[\w:]*SpanAndIdent", "order of the reported literal *set* (the statement promises a set)"),
    (r"HashSet<[\w:]*SpanAndIdent", "order of locations inside one literal entry (a set)"),
]


def _reviewed_by_type(ty):
    for rx, why in NONDET_REVIEWED_TYPES:
        if re.search(rx, ty or ""):
            return why
    return None


# reviewed sites whose chain may select by position (none on the reviewed tree)
REVIEWED_SELECTIVE = {}

ELEMENTWISE = {"map", "filter", "cloned", "copied", "filter_map"}
REDUCERS = {"any", "all", "count", "min", "max"}
WRITES = {"push", "insert", "extend", "push_str", "remove", "append", "entry", "set"}


def _order_free(f, n):
    """the iterator produced at n flows only through element-wise adapters into an order-insensitive
    reducer, and none of the closures involved writes anything"""
    cur = n
    for _ in range(8):
        par = f.parent(cur)
        while par is not None and par.get("k") in ("DropTemps", "Use", "AddrOf"):
            cur, par = par, f.parent(par)
        if par is None or par.get("k") != "MethodCall" or par["recv"] is not cur:
            return False
        for a in par["args"]:
            for x in hir.walk(a):
                if x.get("k") in ("Assign", "AssignOp"):
                    return False
                if hir.is_call(x) and (hir.callee_name(x) or x.get("method")) in WRITES:
                    return False
        if par["method"] in REDUCERS:
            return True
        if par["method"] not in ELEMENTWISE:
            return False
        cur = par
    return False


SELECTIVE = {"take", "skip", "step_by", "take_while", "skip_while", "map_while", "nth", "next", "last", "find", "find_map", "position", "rposition", "enumerate", "zip", "peekable", "first", "chunks", "windows", "nth_back", "next_back", "try_fold", "try_for_each", "reduce", "fold", "scan", "max_by_key", "min_by_key", "max_by", "min_by"}


def _selective_chain(f, n):
    """adapters / consumers after the iterator produced at n whose result depends on the order of the
    elements (truncation, position, first match, non-commutative folds)"""
    out = []
    cur = n
    for _ in range(12):
        par = f.parent(cur)
        while par is not None and par.get("k") in ("DropTemps", "Use", "AddrOf"):
            cur, par = par, f.parent(par)
        if par is None or par.get("k") != "MethodCall" or par["recv"] is not cur:
            break
        if par["method"] in SELECTIVE:
            out.append(par["method"])
        cur = par
    return out


def _exact_marker_predicate(prog):
    from . import c10

    e = prog.fn("rewriter::extract_source_map")
    pred = c10.comment_predicate(prog, e)
    return bool(pred) and all(ch == ("trim",) and str(cst).endswith("SOURCE_MAP_URL") for ch, cst, base in pred)


def _coll_base(ty):
    t = core_type(ty)
    for w in ("std::sync::Arc<", "std::rc::Rc<", "triomphe::Arc<"):
        while t.startswith(w) and t.endswith(">"):
            t = core_type(t[len(w) : -1])
    return t.split("<")[0].split("::")[-1]


def _reachable_from(prog, start):
    edges = {}
    for f in prog.fns:
        if f.body is None:
            continue
        outs = set()
        for n in f.nodes():
            c = n.get("callee")
            if not c:
                continue
            g = prog.resolve_local(n)
            if g is not None:
                outs.add(g.def_path)
            if c["name"] in T_VISIT and hir.is_call(n) and len(hir.call_args(n)) > 1:
                vty = core_type(hir.peel(hir.call_args(n)[1]).get("ty") or "").split("<")[0].split("::")[-1]
                for o in overrides_of(prog, vty):
                    outs.add(o.def_path)
            # trait-object / generic dispatch: all impls of a crate trait method with that name
            if c.get("trait") and c.get("krate") == prog.facts["crate"] and not c.get("resolved"):
                for g2 in prog.fns:
                    if g2.body is not None and g2.name == c["name"] and (g2.rec.get("impl_of_trait") or "") and (g2.rec.get("impl_of_trait") or "").split("<")[0] == c["trait"].split("<")[0]:
                        outs.add(g2.def_path)
        edges[f.def_path] = outs
    seen = set()
    stack = [start.def_path]
    while stack:
        d = stack.pop()
        if d in seen:
            continue
        seen.add(d)
        stack.extend(edges.get(d, ()))
    return seen


def rule_statics(check):
    R = "STATICS"
    check.rule(R, "the only static of the crate is the logger-initialised flag, touched only by tracer_logger::set_logger, which is unreachable from rewrite; no `static mut`, no thread_local, no lazily initialised global")
    prog = check.prog
    statics = [c for c in prog.facts["consts"] if c["kind"].startswith("Static") and not c.get("gen")]
    names = sorted(c["def"] for c in statics)
    check.expect(names == ["tracer_logger::LOGGER_INITIALIZED"], R, R + "/inventory", "-", "statics: %s" % names, "statics of the crate are %s (a new global can carry state from one call to the next)" % names)
    for c in statics:
        check.expect(not c.get("static_mut"), R, R + "/mut/" + c["def"], hir.loc(c), "not `static mut`", "static mut %s" % c["def"])
    gen_statics = [c["def"] for c in prog.facts["consts"] if c["kind"].startswith("Static") and c.get("gen")]
    check.note("macro-generated statics (trusted base): %s" % gen_statics)
    rw = prog.fn("lib_wasm::Rewriter::rewrite")
    reach = _reachable_from(prog, rw)
    users = set()
    for f in prog.fns:
        if f.body is None:
            continue
        for n in f.nodes():
            if n.get("k") == "Path" and n["res"].get("res") == "Def" and n["res"].get("kind", "").startswith("Static") and not n.get("exp"):
                users.add(f.def_path)
    bad = sorted(u for u in users if u in reach)
    check.expect(not bad, R, R + "/unreachable", "-", "statics are used only in %s, none reachable from rewrite (%d functions reachable)" % (sorted(T.short_def(u) for u in users), len(reach)), "a static is used in %s which is reachable from rewrite" % bad)
    check.floor(R, "functions reachable from rewrite", len(reach), 60)
    tl = [f for f in prog.fns if "thread_local" in f.def_path or "__getit" in f.def_path or "LocalKey" in (f.rec.get("ret") or "")]
    check.expect(not tl, R, R + "/thread-local", "-", "no thread_local!", "thread-local state: %s" % [f.def_path for f in tl])
    for c in prog.facts["consts"]:
        ty = c.get("ty", "")
        if "LocalKey<" in ty:
            check.bad(R, R + "/thread-local/" + c["def"], hir.loc(c), "thread-local state %s: %s survives from one rewrite call to the next on the same thread" % (c["def"], ty))
            continue
        if any(x in ty for x in ("OnceCell", "OnceLock", "Lazy", "LazyLock", "Mutex", "RwLock", "RefCell")) and not c.get("gen"):
            check.bad(R, R + "/lazy/" + c["def"], hir.loc(c), "lazily initialised / lockable global %s: %s" % (c["def"], ty))
    return reach


def rule_owned(check):
    R = "OWNED-STATE"
    check.rule(R, "the Rewriter owns only its Config; Config is Freeze and its deep ownership walk reaches no UnsafeCell / shared pointer (only unique owner pointers and Atom handles); rewrite only takes shared borrows of self.config and every function reachable from it receives Config by `&`")
    prog = check.prog
    tq = {t["path"]: t for t in prog.facts["typeq"]}
    for ty in ("lib_wasm::Rewriter", "rewriter::Config"):
        t = tq.get(ty)
        if t is None:
            raise AnchorMissing("type %s" % ty)
        check.expect(t["freeze"], R, "%s/freeze/%s" % (R, ty), "-", "%s: Freeze" % ty, "%s is not Freeze (interior mutability)" % ty)
        bad = []
        kinds = {}
        for l in t["interior"]:
            owner = l["via"][-2] if len(l["via"]) >= 2 else (l["via"][-1] if l["via"] else "?")
            if l["leaf"] == "RawPtr" and owner in REVIEWED_PTR_OWNERS:
                kinds[owner] = kinds.get(owner, 0) + 1
            else:
                bad.append("%s via %s" % (l["leaf"], "::".join(l["via"][-3:])))
        check.expect(not bad, R, "%s/interior/%s" % (R, ty), "-", "deep walk: %s" % {k.split("::")[-1]: v for k, v in kinds.items()}, "%s reaches interior mutability / shared state: %s" % (ty, sorted(set(bad))[:5]))
        owned = [r for r in t["reach"] if any(r.startswith(fb) or ("::" + fb.split("::")[-1] + "<") in r or r == fb for fb in FORBIDDEN_OWNED)]
        check.expect(not owned, R, "%s/owns/%s" % (R, ty), "-", "%s owns none of Compiler/SourceMap/Comments/TransformStatus/telemetry/providers/cells (%d types reachable)" % (ty, len(t["reach"])), "%s owns per-call state: %s" % (ty, owned[:6]))
        check.floor(R, "types reachable from %s" % ty, len(t["reach"]), 100)
    rwt = prog.adt("lib_wasm::Rewriter")
    fields = [f["name"] for f in rwt["variants"][0]["fields"]]
    check.expect(fields == ["config"], R, R + "/rewriter-fields", "-", "Rewriter { config }", "Rewriter fields are %s" % fields)
    rw = prog.fn("lib_wasm::Rewriter::rewrite")
    uses = [n for n in rw.nodes() if n.get("k") == "Field" and n["field"] == "config" and hir.local_of(n["x"])]
    check.floor(R, "uses of self.config in rewrite", len(uses), 2)
    for n in uses:
        par = rw.parent(n)
        shared = par is not None and par.get("k") == "AddrOf" and not par.get("mut")
        check.expect(shared, R, R + "/shared-borrow", hir.loc(n), "&self.config", "self.config is used other than by shared borrow in rewrite")
    writes = [n for n in rw.nodes() if n.get("k") in ("Assign", "AssignOp") and (hir.place(n["l"]) or "").startswith("self#")]
    check.expect(not writes, R, R + "/no-self-write", hir.loc(rw.rec), "rewrite never assigns through self", "rewrite assigns through self")
    reach = _reachable_from(prog, rw)
    n_cfg = 0
    for d in reach:
        g = prog.by_def.get(d)
        if g is None:
            continue
        for prm in g.rec.get("params", []):
            ty = prm["ty"]
            if "rewriter::Config" in ty or "csi_methods::CsiMethods" in ty:
                n_cfg += 1
                ok = ty.startswith("&") and not ty.startswith("&mut")
                check.expect(ok, R, "%s/by-ref/%s" % (R, T.short_def(d)), hir.loc(g.rec), "%s takes %s" % (T.short_def(d), ty.split("::")[-1]), "%s takes the configuration as %s" % (T.short_def(d), ty))
    check.floor(R, "configuration parameters on the rewrite path", n_cfg, 10)


def _per_call_owners(prog, f, allowed, depth=0, seen=None):
    """names of the functions that account for a construction in f: f itself when it is reviewed (or has
    no crate caller), otherwise the owners of all of its callers (a helper extracted from them)"""
    if f.name in allowed or depth > 4:
        return {f.name}
    seen = seen or set()
    if f.def_path in seen:
        return set()
    parent = f
    # closures belong to their parent function
    while parent.rec.get("parent_fn") and prog.by_def.get(parent.rec["parent_fn"]) is not None:
        parent = prog.by_def[parent.rec["parent_fn"]]
        if parent.name in allowed:
            return {parent.name}
    callers = [g for g, n in prog.sites_calling(parent) if not g.rec.get("gen") and g is not parent]
    if not callers:
        return {parent.name}
    out = set()
    for g in callers:
        out |= _per_call_owners(prog, g, allowed, depth + 1, seen | {f.def_path})
    return out or {parent.name}


def rule_fresh(check):
    R = "PER-CALL-FRESH"
    check.rule(R, "compiler, source map, transform status, telemetry, ident provider, literal collector and chain visitor are constructed inside per-call / per-block functions only")
    prog = check.prog
    for (ty, name), allowed in PER_CALL_CTORS.items():
        sites = []
        for f, n, c in prog.call_sites():
            if hir.is_call(n) and c["name"] == name and not f.rec.get("gen"):
                st = c.get("self_ty") or c["path"]
                if ty.split("::")[-1] == st.split("<")[0].split("::")[-1]:
                    sites.append((f, n))
        if not sites:
            # the constructor under another name (`new` <-> `default` <-> `impl Default`): any associated or
            # trait function of the type that yields a value of the type from arguments that hold none
            tn = ty.split("::")[-1]
            base_ = lambda t_: (t_ or "").lstrip("&").replace("mut ", "").split("<")[0].split("::")[-1]
            for f, n, c in prog.call_sites():
                if n.get("k") != "Call" or f.rec.get("gen") or c.get("kind") != "AssocFn" or base_(n.get("ty")) != tn:
                    continue
                owner = c.get("self_ty") or ((c.get("gargs") or [""])[0] if c.get("trait") else "")
                if base_(owner) == tn and not any(base_(hir.peel(a).get("ty")) == tn for a in hir.call_args(n)) and base_(f.rec.get("self_ty")) != tn:
                    sites.append((f, n))
        # a helper that is only ever called from the reviewed per-call functions is as per-call as they are
        callers = set()
        for f, _ in sites:
            callers |= _per_call_owners(prog, f, allowed)
        key = "%s/%s::%s" % (R, ty.split("::")[-1], name)
        if not sites:
            check.bad(R, key, "-", "no construction site of %s::%s found (anchor lost)" % (ty, name))
            continue
        check.expect(callers <= allowed, R, key, hir.loc(sites[0][1]), "%s::%s constructed in %s" % (ty.split("::")[-1], name, sorted(callers)), "%s::%s is constructed in %s (reviewed: %s)" % (ty, name, sorted(callers), sorted(allowed)))


def rule_compiler_of_this_call(check):
    """COMPILER-SCOPE (C09, C10, C16): extract_source_map scans *all* comments of the compiler it is given
    and the printer resolves positions in that compiler's source map, so both must belong to this call."""
    R = "COMPILER-SCOPE"
    check.rule(R, "the swc Compiler (source map + comment store) handed to parse_js / transform_js is created by Compiler::new inside the very rewrite_js activation: a compiler that outlives the call keeps the comments (sourceMappingURL of earlier files) and the source text of earlier files")
    prog = check.prog
    rj = prog.fn("rewriter::rewrite_js")
    pv = Prov(prog)
    sites = [(g_, n) for g_ in prog.flat(rj, 1) for n in hir.calls_in(g_.body) if hir.callee_name(n) in ("parse_js", "transform_js") and prog.resolve_local(n) is not None and g_.name not in ("parse_js", "transform_js")]
    check.floor(R, "parse/transform calls in rewrite_js", len(sites), 2)
    for g, n in sites:
        tgt = prog.resolve_local(n)
        idx = [i for i, p_ in enumerate(tgt.rec["params"]) if "Compiler" in (p_.get("ty") or "")] if tgt is not None else []
        if not idx:
            check.bad(R, "%s/%s" % (R, hir.callee_name(n)), hir.loc(n), "cannot find the compiler argument of %s" % hir.callee_name(n))
            continue
        os_ = pv.origins(g, hir.call_args(n)[idx[0]])
        fresh = bool(os_) and all(r[0] == "call" and r[1].split("<")[0].endswith("Compiler::new") for r, p_ in os_)
        local = fresh and all(r[2] == rj.def_path or (prog.by_def.get(r[2]) is not None and any(prog.resolve_local(c) is prog.by_def[r[2]] for c in hir.calls_in(rj.body))) for r, p_ in os_)
        check.expect(fresh and local, R, "%s/%s" % (R, hir.callee_name(n)), hir.loc(n), "compiler argument = Compiler::new(..) of this activation", "%s receives a compiler that is not created in this call (%s): comments and sources of earlier files are still in it" % (hir.callee_name(n), sorted(origin_str(o) for o in os_)))


def rule_prefix_once(check):
    R = "PREFIX-ONCE"
    check.rule(R, "the random variable prefix is drawn only in to_config, which runs only in Rewriter::new")
    prog = check.prog
    for name, want in (("rnd_string", ["to_config"]), ("to_config", ["new"]), ("generate_prefix_stmts", ["to_config"])):
        callers = sorted({f.name for f, n, c in prog.call_sites() if hir.is_call(n) and c["name"] == name and not f.rec.get("gen") and prog.resolve_local(n) is not None})
        check.expect(callers == want, R, "%s/%s" % (R, name), "-", "%s called only from %s" % (name, callers), "%s is called from %s (reviewed: %s)" % (name, callers, want))


def rule_nondet(check, reach):
    R = "NONDET-INVENTORY"
    check.rule(R, "calls into fastrand / instant / std::time / std::env and iteration over HashMap/HashSet/DashMap in crate code are exactly the reviewed sites")
    prog = check.prog
    found = {}
    for f in prog.user_fns:
        for n in f.nodes():
            if not hir.is_call(n):
                continue
            c = n.get("callee") or {}
            path = c.get("path", "")
            name = c.get("name") or n.get("method")
            kind = None
            if any(path.startswith(p) for p in ("fastrand::", "instant::", "std::time::", "std::env::", "std::process::id", "std::thread::")):
                kind = path.split("::")[0] if not path.startswith("std::") else "::".join(path.split("::")[:2])
            elif name in ("iter", "iter_mut", "into_iter", "keys", "values", "values_mut", "drain", "into_keys", "into_values"):
                base = _coll_base(hir.peel(hir.call_args(n)[0]).get("ty") or "") if hir.call_args(n) else ""
                if base in ("HashMap", "HashSet", "DashMap", "DashSet"):
                    kind = base
            if kind:
                found.setdefault((T.short(f), name, kind), []).append(n)
    # for-loops over hash collections (IntoIterator on the collection itself)
    for f in prog.user_fns:
        for n in f.nodes():
            if n.get("k") == "Match" and n.get("source", "").startswith("ForLoopDesugar"):
                it = hir.peel(n["scrut"])
                if hir.is_call(it) and hir.call_args(it):
                    base = _coll_base(hir.peel(hir.call_args(it)[0]).get("ty") or "")
                    if base in ("HashMap", "HashSet", "DashMap"):
                        found.setdefault((T.short(f), "for", base), []).append(n)
    for key, nodes in sorted(found.items()):
        why = NONDET_REVIEWED.get(key)
        if not why and key[2] in ("HashMap", "HashSet"):
            tys_ = []
            for n_ in nodes:
                it_ = hir.peel(n_["scrut"]) if n_.get("k") == "Match" else n_
                a_ = hir.call_args(it_) if hir.is_call(it_) else []
                tys_.append((hir.peel(a_[0]).get("ty") or "") if a_ else "")
            whys_ = {_reviewed_by_type(t_) for t_ in tys_}
            if len(whys_) == 1 and None not in whys_:
                why = whys_.pop()
        k = "%s/%s/%s/%s" % (R, key[0], key[1], key[2])
        fobj = [f for f in prog.user_fns if T.short(f) == key[0]]
        if not why and fobj and all(_order_free(fobj[0], n) for n in nodes):
            check.ok(R, k, hir.loc(nodes[0]), "iteration consumed by an order-insensitive reduction (any/all/count/min/max over element-wise adapters, closures without writes)")
        elif why and key == ("rewriter::extract_source_map", "iter", "DashMap") and not _exact_marker_predicate(prog):
            check.bad(R, k, hir.loc(nodes[0]), "the scan of the comment map was reviewed for comments that *are* a sourceMappingURL comment (trimmed text starts with the marker, at most one per file); with the current test several comments of one file can match and the hash order of the map decides which one wins")
        elif why and key[2] in ("HashMap", "HashSet", "DashMap", "DashSet") and key[1] != "for" and fobj and any(_selective_chain(fobj[0], n) for n in nodes) and not REVIEWED_SELECTIVE.get(key):
            sel = sorted({m for n in nodes for m in _selective_chain(fobj[0], n)})
            check.bad(R, k, hir.loc(nodes[0]), "the iteration was reviewed as order-insensitive (%s), but its elements now go through %s: which elements are picked depends on the hash order, which differs from call to call" % (why, "/".join(sel)))
        elif why:
            check.ok(R, k, hir.loc(nodes[0]), "reviewed: %s" % why)
        else:
            check.bad(R, k, hir.loc(nodes[0]), "unreviewed nondeterminism source: %s.%s over/into %s" % key)
    check.floor(R, "nondeterminism sources found", len(found), 1)


# state that a call can change through a shared reference (interior mutability) or a unique one; the
# crate's vocabulary, by full type path
_STATEFUL_TY = re.compile(r"&(?:'\w+ )?mut |\bdyn |\bswc::Compiler\b|\bswc_common::comments::|\bswc_common::(?:source_map::)?SourceMap\b|\bdashmap::|\bstd::cell::|\bstd::sync::|\bstd::rc::|\bonce_cell::|\bswc_common::sync::")


def _passes_state_on(prog, g, depth=0, seen=None):
    """does crate function g hand a stateful value to code outside the crate (or write through it)?"""
    seen = seen if seen is not None else set()
    if g.rec.get("id") in seen or depth > 4:
        return depth > 4
    seen.add(g.rec.get("id"))
    for n in g.nodes():
        if n.get("k") in ("Assign", "AssignOp"):
            return True
        if not hir.is_call(n) or n.get("exp"):
            continue
        tys = [t for a in hir.call_args(n) for t in (hir.peel(a).get("ty") or "", a.get("ty") or "")]
        if not any(_STATEFUL_TY.search(t) for t in tys):
            continue
        h = prog.resolve_local(n)
        if h is None and ((n.get("callee") or {}).get("path") or "").split("core::")[-1].startswith(("std::option::Option", "std::result::Result", "option::Option", "result::Result", "bool::", "std::convert::", "convert::", "std::borrow::", "borrow::")) and not any(x.get("k") == "Closure" for a in hir.call_args(n) for x in hir.walk(a)):
            continue  # packing a reference into an Option/Result, no code of the value's type runs
        if h is None or _passes_state_on(prog, h, depth + 1, seen):
            return True
    return False


def rule_log_args(check):
    R = "LOG-ARGS"
    check.rule(R, "what a log macro evaluates for its message runs only when the process-wide log level admits it: no call there receives state it could change (a `&mut`, or a type with interior mutability: the Compiler, its comment maps and source map, cells, locks, shared pointers), so the result does not depend on the log level")
    prog = check.prog
    sites = 0
    for f in prog.user_fns:
        if f.rec.get("gen"):
            continue
        for n in f.nodes():
            if not hir.is_call(n) or n.get("exp"):
                continue
            mac = [a for a in f.ancestors(n) if (a.get("macro") or "").startswith("log::")]
            if not mac:
                continue
            sites += 1
            tys = [hir.peel(a).get("ty") or a.get("ty") or "" for a in hir.call_args(n)]
            tys += [a.get("ty") or "" for a in hir.call_args(n)]
            hit = sorted({t for t in tys if _STATEFUL_TY.search(t)})
            name = hir.callee_name(n) or n.get("method") or "?"
            g = prog.resolve_local(n)
            if hit and g is not None and not _passes_state_on(prog, g):
                # a crate function that only packs or reads what it is given
                hit = []
            k = "%s/%s/%s" % (R, T.short(f), name)
            if hit:
                check.bad(R, k, hir.loc(n), "%s(..) is evaluated inside a log message (only when the log level admits it) and receives %s, which it can change: the rest of the rewrite then depends on the log level" % (name, ", ".join(hit)))
            else:
                check.ok(R, k, hir.loc(n), "call inside a log message over values it cannot change (%s)" % ", ".join(tys[: len(tys) // 2]))
    macros = sum(1 for f in prog.user_fns for n in f.nodes() if (n.get("macro") or "").startswith("log::") and not any((a.get("macro") or "").startswith("log::") for a in f.ancestors(n)))
    check.floor(R, "log macro expansions inspected", macros, 8)


def run(check):
    reach = []

    def st(c):
        reach.append(rule_statics(c))

    check.guarded("STATICS", st)
    check.guarded("OWNED-STATE", rule_owned)
    check.guarded("PER-CALL-FRESH", rule_fresh)
    check.guarded("PREFIX-ONCE", rule_prefix_once)
    check.guarded("COMPILER-SCOPE", rule_compiler_of_this_call)
    check.guarded("NONDET-INVENTORY", lambda c: rule_nondet(c, reach[0] if reach else set()))
    check.guarded("LOG-ARGS", rule_log_args)
    # the public Rewriter is the JS wrapper: what main.js / js/** keep at module level is shared by every
    # rewriter of the process
    from . import c11 as _c11
    check.guarded("JS-STATE", _c11.rule_js_state)
    return {
        "explanation": "Inventory and type-level rules: statics and their users against the call graph from rewrite; rustc type queries (Freeze, deep ownership walk) on Rewriter/Config; borrow kinds of the configuration on every function reachable from rewrite; who-constructs rules for per-call state; who-calls rules for the random prefix; inventory of nondeterminism sources.",
        "assumptions": ["global state inside swc (string interner, GLOBALS) does not influence output", "hash seeds of dependencies"],
        "not_decided": ["bit-for-bit equality of outputs (follows from the absence of carried state only together with determinism of the dependencies)"],
    }
