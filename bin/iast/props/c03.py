"""C03 - each hook call receives the true result and the true operands, in order.
Decided: one hook argument per operand on every path, the pushed value is the value left in place,
hook shape, method-call signature order and identity of callee/receiver, spread evaluated once.
Not decided: run-time equality of values."""
from .. import xformrules as X


def run(check):
    check.guarded("EFFECT", X.rule_push_parity)
    check.guarded("MIRROR", X.rule_mirror)
    check.guarded("HOOK-ARGS", X.rule_hook_args_source)
    check.guarded("HOOK-SHAPE", X.rule_hook_shape)
    check.guarded("CALL-SIGNATURE", X.rule_call_signature)
    check.guarded("SPREAD-ONCE", X.rule_spread_once)
    check.guarded("ORDER", X.rule_order)
    check.guarded("FRESH-TEMP", X.rule_fresh_temp)
    check.guarded("KEPT-IN-PLACE", X.rule_kept_in_place)
    # an operand that is "kept" is read twice (in place and as hook argument): only identifiers and literals
    # give the same value both times - the hook must be told the value the operation used
    check.guarded("IDENT-MODE", X.rule_ident_mode)
    from . import c06 as _c06
    check.guarded("DECLARE-SCOPE", _c06.rule_declare_scope)
    # the operand handler leaves a nested `+` in place without reporting it, on the assumption that the
    # visitor has already turned every non-literal sum below into a hook call: any extra condition on the
    # dispatch of the transforms (a depth limit, a size limit) breaks that assumption
    from . import c04 as _c04
    from ..engine import Only as _Only2
    check.rule("DISPATCH-GATES", "the transforms are dispatched under their documented gates only (operator enabled, node kind, `+` / `+=`, instrumentable template): an additional condition leaves operations uninstrumented that the hooks of the enclosing operations assume instrumented (their operands are then neither hoisted nor reported)")
    check.guarded("DISPATCH-GATES", lambda c: _c04.rule_dispatch(_Only2(c, "TRAV-DISPATCH", "DISPATCH-GATES", ("/extra-gate", "/gate", "/FLOOR/"))))
    # every temporary a hook call uses is declared by the `let` of the block whose visitor created it
    from ..engine import Only as _Only
    check.rule("DECLARE-PATH", "the registered temporaries of a block's provider are exactly what the `let` injected into that block declares (an undeclared or shared temporary is a ReferenceError in strict code or a value clobbered by another activation)")
    check.guarded("DECLARE-PATH", lambda c: _c06.rule_declare_path(_Only(c, "DECLARE-PATH", "DECLARE-PATH", ("/declares-registered", "/registered", "/provider-stores", "/let", "/each-ident", "/FLOOR/insert_variable_declaration", "/FLOOR/temporaries created"))))
    return {
        "explanation": "Counted-effect analysis of the hook argument vector over all structural paths (with summaries of crate-local callees), same-origin provenance rules between what is pushed and what is left in place, shape/order rules for the hook call and the method-call signature, and spread handling.",
        "assumptions": ["Take::map_with_mut runs its closure exactly once"],
        "not_decided": ["run-time equality of the values seen by the hook and by the original operation"],
    }
