"""C11 - stack traces and locations of rewritten files report original file and line (JS side).
Decided over the syntax trees of main.js, js/source-map/index.js, js/stack-trace/index.js: writer /
reader agreement on trailer and status strings, cache write discipline (every outcome of a rewrite
updates the entry of that file), index conversions, pass-through and never-throw wrappers.
Not decided: V8 call sites, Error.stack formatting, eval frames."""
from .. import hir, jsast, fmtargs
from ..engine import AnchorMissing


def callee_name(call):
    c = call["callee"]
    if "expression" in c and "type" not in c:
        c = c["expression"]
    return jsast.member_chain(c)


def call_args(call):
    return [a["expression"] for a in call["arguments"]]


def js_paths(stmts):
    """structural paths through a statement list: list of lists of nodes (calls / returns seen)"""
    paths = [[]]
    for st in stmts:
        paths = _extend(paths, st)
    return paths


def _calls(expr):
    return [x for x in jsast.walk(expr) if x.get("type") == "CallExpression"]


def _extend(paths, st):
    t = st.get("type")
    live = [p for p in paths if not (p and p[-1].get("type") == "ReturnStatement")]
    done = [p for p in paths if p and p[-1].get("type") == "ReturnStatement"]
    if t == "IfStatement":
        test_calls = _calls(st["test"])
        cons = st["consequent"]
        alt = st.get("alternate")
        a = js_paths(cons["stmts"] if cons.get("type") == "BlockStatement" else [cons])
        b = js_paths(alt["stmts"] if alt and alt.get("type") == "BlockStatement" else ([alt] if alt else []))
        out = []
        for p in live:
            for q in a:
                out.append(p + test_calls + [{"type": "Branch", "test": st["test"], "taken": True}] + q)
            for q in b:
                out.append(p + test_calls + [{"type": "Branch", "test": st["test"], "taken": False}] + q)
        return done + out
    if t == "BlockStatement":
        sub = js_paths(st["stmts"])
        return done + [p + q for p in live for q in sub]
    if t == "ReturnStatement":
        cs = _calls(st["argument"]) if st.get("argument") else []
        return done + [p + cs + [st] for p in live]
    if t == "TryStatement":
        sub = js_paths(st["block"]["stmts"])
        return done + [p + q for p in live for q in sub]
    cs = _calls(st)
    return done + [p + cs for p in live]


def _always_returns(stmts):
    """every way through the statement list ends in a return (or throw)"""
    if not stmts:
        return False
    last = stmts[-1]
    t = last.get("type")
    if t in ("ReturnStatement", "ThrowStatement"):
        return True
    if t == "BlockStatement":
        return _always_returns(last.get("stmts") or [])
    if t == "IfStatement":
        alt = last.get("alternate")
        cons = last.get("consequent") or {}
        return alt is not None and _always_returns([cons]) and _always_returns([alt])
    if t == "TryStatement":
        blk = (last.get("block") or {}).get("stmts") or []
        h = ((last.get("handler") or {}).get("body") or {}).get("stmts") or []
        if last.get("finalizer") and _always_returns((last["finalizer"].get("stmts")) or []):
            return True
        return _always_returns(blk) and (last.get("handler") is None or _always_returns(h))
    return False


def _js_mutations(jf, name):
    """sites that change the module-level object `name` or let it escape"""
    MUT = {"push", "pop", "shift", "unshift", "splice", "sort", "reverse", "set", "delete", "clear", "add", "fill", "copyWithin"}
    out = []

    def root(e):
        e = e.get("expression", e) if isinstance(e, dict) else e
        while isinstance(e, dict) and e.get("type") in ("MemberExpression", "ParenthesisExpression"):
            e = e.get("object") if e.get("type") == "MemberExpression" else e.get("expression")
        return jsast.ident_name(e) if isinstance(e, dict) else None

    for x in jsast.walk(jf.program):
        t = x.get("type")
        if t == "AssignmentExpression":
            l = x["left"]
            if l.get("type") == "MemberExpression" and root(l) == name:
                out.append((x, "a property of it is assigned"))
            elif jsast.ident_name(l) == name:
                out.append((x, "it is reassigned"))
        elif t == "UpdateExpression" and (x.get("argument") or {}).get("type") == "MemberExpression" and root(x["argument"]) == name:
            out.append((x, "a property of it is updated"))
        elif t == "UnaryExpression" and x.get("operator") == "delete" and root(x.get("argument") or {}) == name:
            out.append((x, "a property of it is deleted"))
        elif t == "CallExpression":
            cal = x.get("callee") or {}
            args = [a.get("expression", a) for a in (x.get("arguments") or []) if isinstance(a, dict)]
            ch = jsast.member_chain(cal) or []
            if ch[:1] == ["Object"] and ch[-1:] and ch[-1] in ("assign", "defineProperty", "defineProperties", "setPrototypeOf") and args and jsast.ident_name(args[0]) == name:
                out.append((x, "Object.%s(%s, ..) writes into it" % (ch[-1], name)))
            elif cal.get("type") == "MemberExpression" and jsast.ident_name(cal.get("object") or {}) == name and (cal.get("property") or {}).get("value") in MUT:
                out.append((x, ".%s() changes it" % cal["property"]["value"]))
    return out


def _regex_used_statelessly(jf, name):
    """every reference to the module-level regex is the argument of String.prototype.match /
    matchAll / replace / replaceAll / split / search (which reset lastIndex before they start)"""
    refs = 0
    for x in jsast.walk(jf.program):
        if x.get("type") == "CallExpression":
            cal = x.get("callee") or {}
            args = x.get("arguments") or []
            for a in args:
                a = a.get("expression", a) if isinstance(a, dict) else a
                if jsast.ident_name(a) == name:
                    prop = cal.get("property") or {}
                    pn = prop.get("value") if prop.get("type") == "Identifier" else None
                    if cal.get("type") == "MemberExpression" and pn in ("match", "matchAll", "replace", "replaceAll", "split", "search"):
                        refs += 1
                    else:
                        return False
        elif x.get("type") == "MemberExpression" and jsast.ident_name(x.get("object") or {}) == name:
            return False  # REGEX.exec / .test / .lastIndex
    total = sum(1 for x in jsast.walk(jf.program) if x.get("type") == "Identifier" and x.get("value") == name)
    return refs > 0 and total == refs + 1  # the declaration itself plus the stateless uses


def rule_js_state(check, only_files=None):
    """JS-STATE (C11: the source-map / stack-trace modules; C16: all of the glue): what the JS glue keeps at
    module level between calls"""
    prog = check.prog
    c = check
    main = jsast.JsFile(prog.js, "main.js")
    sm = jsast.JsFile(prog.js, "js/source-map/index.js")
    st = jsast.JsFile(prog.js, "js/stack-trace/index.js")
    R5 = "JS-STATE"
    check.rule(R5, "module-level mutable state of the JS glue is exactly the reviewed set (the two source-map caches and the lazily loaded native class); in particular no regular expression with the g/y flag lives outside the function that uses it (its lastIndex would carry over from one call site to the next)")
    REVIEWED_STATE = {
        ("js/source-map/index.js", jsast.cache_roles(sm)["rewritten"]): "the cache of rewritten source maps (CACHE-DISCIPLINE governs its writes)",
        ("js/source-map/index.js", jsast.cache_roles(sm)["original"]): "LRU cache of original source maps read from disk",
        ("main.js", "NativeRewriter"): "native class, assigned once by getRewriter()",
    }

    def state(c):
        n = 0
        # the cache of rewritten maps holds the map of *every* file rewritten so far (files stay loaded for
        # the life of the process): its container is unbounded - a Map, a plain object - never an evicting
        # cache (seed C11-rewritten-maps-in-bounded-lru: an lru-cache of 1000 entries, the maps of the
        # earliest files are gone once more than 1000 files were rewritten and their frames stay untranslated)
        rname = jsast.cache_roles(sm)["rewritten"]
        for stmt in (sm.body if only_files else []):  # a C11 clause: C16 (same rule, all files) is about rewriting, not lookups
            for d in (stmt.get("declarations") or []) if stmt.get("type") == "VariableDeclaration" else []:
                if d["id"].get("type") == "Identifier" and jsast.ident_name(d["id"]) == rname:
                    init = d.get("init") or {}
                    callee = jsast.ident_name(init.get("callee")) if init.get("type") == "NewExpression" and (init.get("callee") or {}).get("type") == "Identifier" else None
                    local = {jsast.ident_name(x["id"]) for s2 in sm.body if s2.get("type") == "VariableDeclaration" for x in s2["declarations"] if x["id"].get("type") == "Identifier"}
                    unbounded = (callee == "Map" and "Map" not in local and not (init.get("arguments") or [])) or init.get("type") == "ObjectExpression"
                    if init.get("type") == "CallExpression" and (jsast.member_chain(init.get("callee")) or []) == ["Object", "create"]:
                        unbounded = True
                    c.expect(unbounded, R5, "%s/rewritten-cache-unbounded" % R5, sm.loc(d), "%s is an unbounded container (%s)" % (rname, "new Map()" if callee == "Map" else init.get("type")), "%s is created as %s: a bounded / evicting container drops the maps of files that are still loaded, their call sites are reported untranslated" % (rname, ("new %s(..)" % callee) if callee else init.get("type")))
        for jf in (main, sm, st):
            if only_files and jf.name not in only_files:
                continue
            for stmt in jf.body:
                if stmt.get("type") != "VariableDeclaration":
                    continue
                for d in stmt["declarations"]:
                    name = jsast.ident_name(d["id"]) if d["id"].get("type") == "Identifier" else None
                    init = d.get("init")
                    n += 1
                    kind = None
                    if init is None:
                        kind = "uninitialised binding"
                    elif init.get("type") == "RegExpLiteral":
                        if any(f in (init.get("flags") or "") for f in "gy") and not _regex_used_statelessly(jf, name):
                            c.bad(R5, "%s/stateful-regex/%s" % (R5, name), jf.loc(d), "module-level regular expression /%s/%s keeps lastIndex between calls: every other match starts in the middle of the string" % (init.get("pattern", "")[:30], init.get("flags")))
                            continue
                    elif init.get("type") in ("NewExpression", "ObjectExpression", "ArrayExpression"):
                        kind = "mutable object"
                    if kind:
                        why = REVIEWED_STATE.get((jf.name, name))
                        muts = _js_mutations(jf, name) if kind == "mutable object" and not why else []
                        if kind == "mutable object" and not why and not muts:
                            c.ok(R5, "%s/%s/%s" % (R5, jf.name, name), jf.loc(d), "module-level table that is only read (no assignment into it, no Object.assign target, no mutating method)")
                            continue
                        c.expect(bool(why), R5, "%s/%s/%s" % (R5, jf.name, name), jf.loc(d), "reviewed module state: %s" % why, "unreviewed module-level %s `%s` in %s carries state from one call (one rewriter) to the next%s" % (kind, name, jf.name, (": " + muts[0][1] + " at " + jf.loc(muts[0][0])) if muts else ""))
            # regexes with g/y anywhere must be literals evaluated where they are used (fresh per call)
            for x in jsast.walk(jf.program):
                if x.get("type") == "RegExpLiteral" and any(f in (x.get("flags") or "") for f in "gy"):
                    pass
        c.floor(R5, "module-level bindings inspected", n, 10 if not only_files else 6)


    state(check)


def run(check):
    prog = check.prog
    main = jsast.JsFile(prog.js, "main.js")
    sm = jsast.JsFile(prog.js, "js/source-map/index.js")
    st = jsast.JsFile(prog.js, "js/stack-trace/index.js")

    # ---- writer / reader agreement ------------------------------------------------------------
    R = "WRITER-READER"
    check.rule(R, "the JS reader's SOURCE_MAP_INLINE_LINE_START equals the trailer the Rust side writes; every string compared with metrics.status is the lower-cased name of a Status variant")

    def wr(c):
        pj = prog.fn("rewriter::print_js")
        text = None
        for n, pieces in fmtargs.text_assemblies(prog, pj):
            if any(k == "lit" and "base64" in v for k, v in pieces):
                t = ""
                for i, (k, v) in enumerate(pieces[1:-1]):
                    t += v if k == "lit" else "<?>"
                text = t
        js_start = sm.marker_strings()[1]
        c.expect(text is not None and text.lstrip("\n") == js_start, R, R + "/trailer", "js/source-map/index.js", "reader %r == writer %r" % (js_start, text), "Rust writes trailer %r but the JS reader looks for %r" % (text, js_start))
        plain = sm.marker_strings()[0]
        c.expect(js_start.startswith(plain), R, R + "/prefix", "js/source-map/index.js", "inline marker extends the plain marker", "SOURCE_MAP_LINE_START %r is not a prefix of the inline marker" % plain)
        variants = [v["name"].lower() for v in prog.adt("transform_status::Status")["variants"]]
        n = 0
        from .. import jsguards
        mconsts = jsguards.File(main).consts
        for x in jsast.walk(main.program):
            cmp_ = jsast.strict_eq_literal(x, mconsts) if x.get("type") == "BinaryExpression" else None
            if cmp_ and (jsast.opt_member_chain(cmp_[0]) or [""])[-1] == "status":
                n += 1
                c.expect(cmp_[1] in variants, R, "%s/status/%s" % (R, cmp_[1]), main.loc(x), "%r is a Status name" % cmp_[1], "main.js compares metrics.status with %r; the Rust side only produces %s" % (cmp_[1], variants))
        # ... or hands the string to a local predicate that compares `.status` with its parameter
        Fm = jsguards.File(main)
        for name_, h_ in Fm.decls.items():
            ps_ = Fm.params(h_)
            cmp_params = set()
            for x in jsast.walk(h_):
                if x.get("type") == "BinaryExpression" and x.get("operator") in ("===", "=="):
                    for a_, b_ in ((x["left"], x["right"]), (x["right"], x["left"])):
                        if (jsast.opt_member_chain(jsguards.JF.unparen(a_)) or [""])[-1] == "status" and jsast.ident_name(b_) in ps_:
                            cmp_params.add(ps_.index(jsast.ident_name(b_)))
            if not cmp_params:
                continue
            for call in Fm.callers(name_):
                for i_ in cmp_params:
                    a_ = call["arguments"][i_]["expression"] if i_ < len(call.get("arguments", [])) else None
                    okc, v = Fm.const_value(a_) if a_ is not None else (False, None)
                    if okc and isinstance(v, str):
                        n += 1
                        c.expect(v in variants, R, "%s/status/%s" % (R, v), main.loc(call), "%r is a Status name" % v, "main.js compares metrics.status with %r; the Rust side only produces %s" % (v, variants))
        c.floor(R, "status comparisons in main.js", n, 2)
        gm = prog.fn("lib_wasm::get_metrics")
        c.ok(R, R + "/lowercase", hir.loc(gm.rec), "status strings are produced by to_string().to_lowercase() (C15 METRICS-SHAPE)")

    check.guarded(R, wr)

    # ---- cache discipline ---------------------------------------------------------------------
    R2 = "CACHE-DISCIPLINE"
    check.rule(R2, "rewrittenSourceMapsCache is written only by .set(filename, ..)/.delete(filename) inside the exported cache helpers, and every path through CacheRewriter.rewrite that returns a response calls one of them for the very file it passed to super.rewrite (so lookups use the most recent rewrite)")

    def cache(c):
        writes = []
        for x in jsast.walk(sm.program):
            if x.get("type") == "CallExpression":
                ch = callee_name(x)
                if ch and ch[0] == jsast.cache_roles(sm)["rewritten"] and ch[-1] in ("set", "delete", "clear"):
                    writes.append((x, ch[-1]))
        c.floor(R2, "writes to rewrittenSourceMapsCache", len(writes), 1)
        updaters = {}
        for fn_ in [x for x in jsast.walk(sm.program) if x.get("type") == "FunctionDeclaration"]:
            name = jsast.ident_name(fn_["identifier"])
            params = [jsast.param_name(p) for p in fn_["params"]]
            for w, kind in writes:
                if any(y is w for y in jsast.walk(fn_)):
                    a0 = jsast.ident_name(call_args(w)[0]) if call_args(w) else None
                    ok = kind in ("set", "delete") and a0 == params[0]
                    # a conditional write may only depend on the truthiness of the content parameter
                    for gstmt in jsast.walk(fn_["body"]):
                        if gstmt.get("type") == "IfStatement" and any(y is w for y in jsast.walk(gstmt["consequent"])):
                            ok = ok and jsast.ident_name(gstmt["test"]) in params[1:2]
                        if gstmt.get("type") == "IfStatement" and gstmt.get("alternate") and any(y is w for y in jsast.walk(gstmt["alternate"])):
                            ok = False
                    if kind == "set" and len(params) > 1:
                        # the stored map is generated from the content parameter
                        val = call_args(w)[1] if len(call_args(w)) > 1 else None
                        vname = jsast.ident_name(val)
                        gen = [d for d in jsast.walk(fn_["body"]) if d.get("type") == "VariableDeclarator" and jsast.ident_name(d["id"]) == vname]
                        src_ok = False
                        for d in gen:
                            init = d.get("init") or {}
                            if init.get("type") == "CallExpression" and callee_name(init) == ["generateSourceMapFromFileContent"] and jsast.ident_name(call_args(init)[0]) == params[1]:
                                src_ok = True
                        ok = ok and src_ok
                    c.expect(ok, R2, "%s/write/%s" % (R2, name), sm.loc(w), "%s: cache.%s(%s, ..)" % (name, kind, a0), "%s writes the cache with %s(%s)" % (name, kind, a0))
                    updaters[name] = kind
        outside = [w for w, k in writes if not any(any(y is w for y in jsast.walk(fn_)) for fn_ in jsast.walk(sm.program) if fn_.get("type") == "FunctionDeclaration")]
        c.expect(not outside, R2, R2 + "/no-toplevel-write", "js/source-map/index.js", "no cache write outside the helpers", "cache written at module level")
        # a conditional set must only depend on the content argument
        exported = set()
        for x in jsast.walk(sm.program):
            if x.get("type") == "AssignmentExpression" and jsast.member_chain(x["left"]) == ["module", "exports"]:
                for p in x["right"].get("properties", []):
                    if p.get("type") == "Identifier":
                        exported.add(p["value"])
                    elif p.get("type") == "KeyValueProperty":
                        exported.add(p["key"]["value"])
        c.expect(set(updaters) <= exported, R2, R2 + "/exported", "js/source-map/index.js", "cache helpers %s are exported" % sorted(updaters), "cache helpers %s not exported (%s)" % (sorted(updaters), sorted(exported)))
        # imports of main.js
        imported = {}
        for d in jsast.walk(main.program):
            if d.get("type") == "VariableDeclarator" and d.get("init") and d["init"].get("type") == "CallExpression" and callee_name(d["init"]) == ["require"]:
                src = call_args(d["init"])[0].get("value")
                if d["id"].get("type") == "ObjectPattern":
                    for p in d["id"]["properties"]:
                        imported[p["key"]["value"]] = src
        from .. import jsguards
        jsguards.rule_cache_sync(c, R2, main, updaters, imported)

    check.guarded(R2, cache)

    # ---- index conversion and pass-through ----------------------------------------------------
    R3 = "INDEX-CONVERSION"
    check.rule(R3, "getPathAndLine looks up (line - 1, column - 1) and reports (originalLine + 1, originalColumn + 1); its fall-through returns the three parameters unchanged and the map-dependent part is inside try")

    def idx(c):
        from .. import jsflow as JFm
        from .. import jsguards as _jg

        Fs = _jg.File(sm)
        g = sm.function("getPathAndLine")
        params = [jsast.param_name(p) for p in g["params"]]
        # the position is three parameters (file, line, column) or one location object { path, line, column }
        if len(params) >= 4:
            pos = {"path": params[1], "line": params[2], "column": params[3]}
            whole = None
        elif len(params) == 2 and params[1]:
            pos = {k_: "%s.%s" % (params[1], k_) for k_ in ("path", "line", "column")}
            whole = params[1]
        else:
            raise AnchorMissing("position parameters of getPathAndLine")

        def obj_fields(fn_, e, depth=0):
            """{key: text} of an object literal (through a constant holding it), else None"""
            e = JFm.unparen(e)
            if e.get("type") == "Identifier" and depth < 2:
                init = Fs.resolve_const(fn_)(e["value"])
                return obj_fields(fn_, init, depth + 1) if init is not None else None
            if e.get("type") != "ObjectExpression":
                return None
            d = {}
            for p in e.get("properties", []):
                if p.get("type") == "Identifier":
                    d[p["value"]] = p["value"]
                elif p.get("type") == "KeyValueProperty":
                    d[p["key"]["value"]] = JFm.text(p["value"])
            return d

        fe = [x for x in jsast.walk(g) if x.get("type") == "CallExpression" and (callee_name(x) or [""])[-1] == "findEntry"]
        c.floor(R3, "findEntry calls", len(fe), 1)
        for x in fe:
            args = call_args(x)
            shape = []
            for a in args:
                if a.get("type") == "BinaryExpression" and a["right"].get("type") == "NumericLiteral":
                    shape.append((JFm.text(a["left"]), a["operator"], a["right"]["value"]))
                else:
                    shape.append(("?",))
            c.expect(shape == [(pos["line"], "-", 1.0), (pos["column"], "-", 1.0)] and (callee_name(x) or [""])[0] == params[0], R3, R3 + "/lookup", sm.loc(x), "findEntry(line - 1, column - 1) on the sourceMap parameter", "findEntry is called with %s" % shape)
        rets = [x for x in jsast.walk(g) if x.get("type") == "ReturnStatement"]
        shapes = []
        for r in rets:
            obj = r.get("argument") or {}
            d = {}
            if whole and jsast.ident_name(obj) == whole:
                d = {k_: ("id", v_) for k_, v_ in pos.items()}  # the location object itself, unchanged
            for p in obj.get("properties", []):
                if p.get("type") == "Identifier":
                    d[p["value"]] = ("id", p["value"])
                elif p.get("type") == "KeyValueProperty":
                    v = p["value"]
                    if v.get("type") == "BinaryExpression" and v["right"].get("type") == "NumericLiteral":
                        d[p["key"]["value"]] = (jsast.ident_name(v["left"]), v["operator"], v["right"]["value"])
                    elif v.get("type") in ("Identifier", "MemberExpression"):
                        d[p["key"]["value"]] = ("id", JFm.text(v))
                    else:
                        d[p["key"]["value"]] = ("expr",)
            shapes.append((r, d))
        conv = [d for r, d in shapes if d.get("line") == ("originalLine", "+", 1.0)]
        c.expect(len(conv) == 1 and conv[0].get("column") == ("originalColumn", "+", 1.0), R3, R3 + "/result", sm.loc(g), "line: originalLine + 1, column: originalColumn + 1", "translated position is reported as %s" % [d for r, d in shapes])
        last = g["body"]["stmts"][-1]
        passthru = {k_: ("id", v_) for k_, v_ in pos.items()}
        others = [d for r, d in shapes if d is not (conv[0] if conv else None)]
        okf = bool(others) and all(d == passthru for d in others) and _always_returns(g["body"]["stmts"])
        c.expect(bool(okf), R3, R3 + "/pass-through", sm.loc(last), "every other exit returns { path: filename, line, column } unchanged", "getPathAndLine has an exit that does not return its parameters unchanged: %s" % ([d for d in others if d != passthru] or "falls off the end"))
        # every lookup sits in the block of a try (the whole body, or a narrower one under the map test) whose
        # handler is there and does not throw again
        trys = [x for x in jsast.walk(g["body"]) if x.get("type") == "TryStatement"]

        def _guarded(x):
            for t_ in trys:
                if t_.get("handler") is not None and any(y is x for y in jsast.walk(t_["block"])) and not any(y.get("type") == "ThrowStatement" for y in jsast.walk(t_["handler"])):
                    return True
            return False

        inside = bool(fe) and all(_guarded(x) for x in fe)
        c.expect(bool(inside), R3, R3 + "/never-throws", sm.loc(g), "lookup inside try/catch", "the map lookup can throw out of getPathAndLine")

        def forwards(fn_, call, names3):
            """does the call hand (names3) on as the position: three arguments, or one location object"""
            a_ = call_args(call)[1:]
            if whole is None:
                return [jsast.ident_name(x) for x in a_] == names3
            return len(a_) == 1 and obj_fields(fn_, a_[0]) == dict(zip(("path", "line", "column"), names3))

        # destructured names come from findEntry's result
        h = sm.function("getSourcePathAndLineFromSourceMaps")
        hp = [jsast.param_name(p) for p in h["params"]]
        gets = [x for x in jsast.walk(h) if x.get("type") == "CallExpression" and callee_name(x) == [jsast.cache_roles(sm)["rewritten"], "get"]]
        okg = len(gets) == 1 and jsast.ident_name(call_args(gets[0])[0]) == hp[0]
        fwd = [x for x in jsast.walk(h) if x.get("type") == "CallExpression" and callee_name(x) == ["getPathAndLine"]]
        okw = len(fwd) == 1 and forwards(h, fwd[0], hp[:3])
        c.expect(okg and okw, R3, R3 + "/cache-lookup", sm.loc(h), "looks up the cache by file name and forwards (filename, line, column)", "getSourcePathAndLineFromSourceMaps does not look up by file name / forward its arguments")
        o = sm.function("getOriginalPathAndLineFromSourceMap")
        op = [jsast.param_name(p) for p in o["params"]]
        lasto = o["body"]["stmts"][-1]
        bad_rets = []
        n_pass = 0
        for r_ in [x for x in jsast.walk(o) if x.get("type") == "ReturnStatement"]:
            arg = r_.get("argument") or {}
            if arg.get("type") == "CallExpression" and callee_name(arg) == ["getPathAndLine"]:
                # getPathAndLine itself hands its parameters back when it has no map (checked above)
                if forwards(o, arg, op[:3]):
                    n_pass += 1
                continue
            d = obj_fields(o, arg) or {}
            if d == {"path": op[0], "line": op[1], "column": op[2]}:
                n_pass += 1
            else:
                bad_rets.append(d or arg.get("type"))
        c.expect(not bad_rets and n_pass >= 1 and _always_returns(o["body"]["stmts"]), R3, R3 + "/original-pass-through", sm.loc(lasto), "getOriginalPathAndLineFromSourceMap returns the translated position or its parameters unchanged", "getOriginalPathAndLineFromSourceMap has an exit returning %s" % (bad_rets or "nothing (falls off the end)"))

    check.guarded(R3, idx)

    R4 = "STACK-WRAPPER"
    check.rule(R4, "js/stack-trace resolves positions through getSourcePathAndLineFromSourceMaps of ../source-map; WrappedCallSite construction is inside try with the untouched call sites as fallback; the wrapper reports the translated file/line/column")

    def stack(c):
        imp = None
        for d in jsast.walk(st.program):
            if d.get("type") == "VariableDeclarator" and d.get("init") and d["init"].get("type") == "CallExpression" and callee_name(d["init"]) == ["require"]:
                if d["id"].get("type") == "ObjectPattern" and any(p["key"]["value"] == "getSourcePathAndLineFromSourceMaps" for p in d["id"]["properties"]):
                    imp = call_args(d["init"])[0].get("value")
        c.expect(imp is not None and imp.rstrip("/").endswith("source-map"), R4, R4 + "/import", "js/stack-trace/index.js", "imports the cache lookup from %s" % imp, "stack-trace does not import getSourcePathAndLineFromSourceMaps from ../source-map")
        cls = st.class_decl("WrappedCallSite")
        ctor = [m for m in cls["body"] if m.get("type") == "Constructor"]
        if not ctor:
            raise AnchorMissing("WrappedCallSite constructor")
        calls = [x for x in jsast.walk(ctor[0]) if x.get("type") == "CallExpression" and callee_name(x) == ["getSourcePathAndLineFromSourceMaps"]]
        ok = False
        if calls:
            from .. import jsguards as _jg2

            Fst = _jg2.File(st)

            def getter_of(a):
                """the call-site getter an argument is the result of: called in place, or read from the object a
                local helper builds (`reported.fileName` with `reported = getReportedPosition(callSite)`)"""
                a = _jg2.JF.unparen(a)
                if a.get("type") == "CallExpression":
                    return (callee_name(a) or ["", ""])[-1]
                if a.get("type") == "MemberExpression" and a["property"].get("type") == "Identifier" and jsast.ident_name(a["object"]):
                    init = Fst.resolve_const(ctor[0])(jsast.ident_name(a["object"]))
                    init = _jg2.JF.unparen(init) if init is not None else {}
                    hn = (callee_name(init) or [None])[0] if init.get("type") == "CallExpression" and len(callee_name(init) or []) == 1 else None
                    h_ = Fst.decls.get(hn) if hn else None
                    if h_ is not None:
                        rs_ = [x for x in jsast.walk(h_) if x.get("type") == "ReturnStatement" and Fst.enclosing_fn(x) is h_]
                        obj = _jg2.JF.unparen(rs_[0].get("argument") or {}) if len(rs_) == 1 else {}
                        for p_ in obj.get("properties", []) if obj.get("type") == "ObjectExpression" else []:
                            if p_.get("type") == "KeyValueProperty" and p_["key"].get("value") == a["property"]["value"] and p_["value"].get("type") == "CallExpression":
                                recv = (callee_name(p_["value"]) or [None])[0]
                                if recv in Fst.params(h_):
                                    return (callee_name(p_["value"]) or ["", ""])[-1]
                return None

            names = [getter_of(a) for a in call_args(calls[0])]
            ok = names == ["getFileName", "getLineNumber", "getColumnNumber"]
        c.expect(ok, R4, R4 + "/lookup-args", st.loc(ctor[0]), "lookup(getFileName(), getLineNumber(), getColumnNumber())", "WrappedCallSite looks up %s" % (names if calls else None))
        getters = {"getFileName": "source", "getLineNumber": "lineNumber", "getColumnNumber": "columnNumber"}
        assigns = {}
        for a in jsast.walk(ctor[0]):
            if a.get("type") == "AssignmentExpression":
                ch = jsast.member_chain(a["left"])
                if ch and ch[0] == "this":
                    assigns[ch[1]] = jsast.ident_name(a["right"])
        for mname, field in getters.items():
            m = st.method(cls, mname)
            rets = [x for x in jsast.walk(m) if x.get("type") == "ReturnStatement"]
            okm = len(rets) == 1 and jsast.member_chain(rets[0]["argument"]) == ["this", field]
            c.expect(okm, R4, "%s/%s" % (R4, mname), st.loc(m), "%s returns this.%s" % (mname, field), "%s does not return the translated value" % mname)
        c.expect(assigns.get("source") == "path" and assigns.get("lineNumber") == "line" and assigns.get("columnNumber") == "column", R4, R4 + "/fields", st.loc(ctor[0]), "translated path/line/column stored", "constructor stores %s" % assigns)
        g = st.function("getPrepareStackTrace")
        # wherever the call sites are wrapped (in the handler itself or in a helper): inside a try whose
        # catch falls back to the untouched array that was being mapped
        news = [x for x in jsast.walk(st.program) if x.get("type") == "NewExpression" and jsast.ident_name(x["callee"]) == "WrappedCallSite"]
        trys_all = [x for x in jsast.walk(st.program) if x.get("type") == "TryStatement"]
        inside = bool(news)
        fb = bool(news)
        for n_ in news:
            holder = [t for t in trys_all if any(y is n_ for y in jsast.walk(t["block"]))]
            if not holder or not holder[-1].get("handler"):
                inside = False
                fb = False
                continue
            t = holder[-1]
            # the array that is mapped: <arr>.map(cs => new WrappedCallSite(cs))
            arrs = [jsast.member_chain(c_["callee"].get("expression", c_["callee"]))[0] for c_ in jsast.walk(t["block"]) if c_.get("type") == "CallExpression" and (jsast.member_chain(c_["callee"].get("expression", c_["callee"])) or ["", ""])[-1] == "map" and any(y is n_ for y in jsast.walk(c_))]
            ok_fb = False
            for a in jsast.walk(t["handler"]):
                if a.get("type") == "AssignmentExpression" and jsast.ident_name(a["right"]) in arrs:
                    ok_fb = True
                if a.get("type") == "ReturnStatement" and a.get("argument") and jsast.ident_name(a["argument"]) in arrs:
                    ok_fb = True
            fb = fb and ok_fb
        c.expect(bool(inside) and fb, R4, R4 + "/never-throws", st.loc(g), "wrapping inside try, fallback = untouched call sites", "WrappedCallSite construction can throw out of prepareStackTrace or has no fallback")

    check.guarded(R4, stack)

    check.guarded("JS-STATE", lambda c: rule_js_state(c, ("js/source-map/index.js", "js/stack-trace/index.js")))
    # "through chained maps: the pre-transpilation file and line" - the map the lookups read is the one the
    # native side chained with the original map *of this file*: a compiler shared between calls keeps the
    # sourceMappingURL comments of earlier files and chains with a foreign map
    from . import c16 as _c16
    check.guarded("COMPILER-SCOPE", _c16.rule_compiler_of_this_call)

    R6 = "JS-GUARDS"
    check.rule(R6, "the sites of the JS glue that decide whether and how a position is translated are reached exactly under their documented conditions (propositional entailment in both directions between the structural path conditions, through guard clauses, conditional expressions and local helpers, and the gate): inline map decoded iff the last line of the trimmed content starts with the inline marker; referenced file read iff it starts with the plain marker only and names a url; SourceMap built iff a raw map was obtained; findEntry iff a map is given; original-map cache loaded / filled / consulted per its miss protocol; an already wrapped handler returned as is (mark truthy); the user's handler called iff present; a stack line translated iff it is a frame line with a call site (eval frames: iff their origin parses), using line index - first frame index; the replaced text is the looked-up position; the package's Rewriter is the caching class")

    def guards(c):
        from .. import jsguards
        jsguards.run(check, c, R6, main, sm, st, sm.marker_strings()[1])

    check.guarded(R6, guards)

    R7 = "MAP-TABLE"
    check.rule(R7, "js/source-map/node_source_map.js (vendored reader): a stored segment is [generated line, generated column, source, original line, original column, name] with the five VLQ fields decoded in format order and accumulated; `;` advances the line and resets the column; findEntry reads original source / line / column from slots 2 / 3 / 4, returns the keys the glue destructures, and searches by halving on a lexicographic (line, column) comparison, keeping the left half iff the position is before the probe")

    def table(c):
        from .. import jsguards
        nsm = jsast.JsFile(prog.js, "js/source-map/node_source_map.js")
        jsguards.rule_map_table(c, R7, nsm, sm)

    check.guarded(R7, table)
    # "through chained maps: the pre-transpilation file and line": the map the JS side caches is the one
    # chain_source_maps composed, so the composition rule is a necessary condition here as well (seed
    # C11-chain-sources-deduped-by-basename: right line, wrong original file)
    from . import c10 as _c10

    check.guarded("CHAIN-WIRING", _c10.rule_chain)
    return {
        "explanation": "Rules over the ESTree of the three JS files (parsed with the repository's own swc parser; nothing is executed): constants and status literals against the Rust side, every structural path of CacheRewriter.rewrite must update the cache entry of the file it rewrote, who writes the cache, index arithmetic of the lookup, pass-through and try/catch wrappers, and the wiring of the stack-trace wrapper.",
        "assumptions": ["node_source_map.js (vendored Node source-map implementation) findEntry semantics", "V8 CallSite API"],
        "not_decided": ["behaviour for eval frames and Error.stack string rewriting", "'never throws' for arbitrary objects"],
    }
