"""C13 - totality.  Decided: every crate-local panic obligation (unwrap/expect, indexing, Vec::insert,
unchecked access, explicit panics, arithmetic asserts) is discharged by a dominating guard rule or a
reviewed table entry; no unbounded loop; call-graph cycles are the reviewed ones; error plumbing."""
from .. import hir, gate
from ..engine import AnchorMissing
from ..prov import Prov, origin_str, return_exprs
from ..trav import overrides_of, core_type
from .. import travrules as T

UNWRAPS = {"unwrap", "expect", "unwrap_err", "expect_err", "unwrap_unchecked"}
VEC_PANICS = {"insert", "remove", "swap_remove", "split_off", "drain", "truncate", "split_at", "split_at_mut", "copy_from_slice", "replace_range"}
PAIRS = {  # predicate -> accessor whose unwrap it justifies (same receiver place)
    "is_ident": {"as_ident", "ident", "as_mut_ident"},
    "is_member": {"as_member", "member", "as_mut_member"},
    "is_array": {"as_array", "array", "as_mut_array"},
    "is_expr": {"as_expr", "expr", "as_mut_expr"},
    "is_lit": {"as_lit", "lit"},
    "is_call": {"as_call", "call"},
    "has_source": {"get_source"},
    "has_name": {"get_name"},
}

# dependency APIs that index an internal table with an id argument and panic when it is out of range:
# name -> (path fragments, index of the id argument (receiver = 0), calls that hand out valid ids)
DEP_INDEXING = {
    "set_source_contents": (("sourcemap", "SourceMapBuilder"), 1, ("add_source",)),
    "get_source_contents": (("SourceMapBuilder",), 1, ("add_source",)),
}

# dependency APIs with a flag that switches on a code path of the dependency that panics for some inputs:
# name -> (path fragments, index of the flag (receiver = 0), the value that keeps it off, why)
DEP_FLAGS = {
    "add_raw": (("SourceMapBuilder",), 7, False, "sourcemap 8.0.1 encodes range mappings through a per-line bit buffer of 16 bits per range token that it indexes with the token's position in the line: a range token beyond the 16th token of a generated line panics in SourceMap::to_writer"),
    "add": (("SourceMapBuilder",), 7, False, "same encoder as add_raw"),
}

# reviewed obligations: (function name, callee name, receiver description) -> reason
REVIEWED = {
    ("chain_source_maps", "unwrap", "call:from_utf8"): "the bytes were just written by sourcemap's JSON writer (serde_json): always valid UTF-8",
    ("rewrite", "unwrap", "call:to_value"): "serialising plain structs of strings, integers and maps with string keys through serde_wasm_bindgen cannot fail",
}


def _clone_source(f, place):
    """If place is rooted at a local initialised as `<other>.clone()`, return the place re-rooted."""
    if not place or "#" not in place.split(".")[0]:
        return None
    root = place.split(".")[0]
    b = f.bindings().get(int(root.split("#")[1]))
    if not b or b["origin"][0] != "let" or b["origin"][1] is None or b["origin"][2]:
        return None
    init = hir.peel(b["origin"][1])
    if hir.is_call(init) and (hir.callee_name(init) or init.get("method")) == "clone":
        src = hir.place(hir.call_args(init)[0])
        if src:
            if f.assignments_to(int(root.split("#")[1])):
                # assignments to fields are fine, whole-variable reassignments are not
                return None
            return src + place[len(root):]
    return None


def _field_assigned_between(f, place):
    return False


def _opt_place(f, e):
    """place of the Option being unwrapped, looking through as_ref/as_mut and let-bound accessors."""
    return hir.place(e)


def discharge(prog, f, n, kind, pv):
    """Return a reason string if the obligation n is discharged, else None."""
    atoms = gate.atoms_at(f, n)
    if kind == "unwrap":
        recv = hir.call_args(n)[0]
        rp = hir.place(recv)
        rr = hir.peel_transparent(recv)
        # G1: is_some / is_none / `?` on the same place
        cands = [rp] if rp else []
        # receiver is a local bound to an accessor call: let m = x.as_member(); m.unwrap()
        accessor = None
        if rp and "#" in rp and "." not in rp:
            b = f.bindings().get(int(rp.split("#")[1]))
            if b and b["origin"][0] == "let" and b["origin"][1] is not None and not b["mut"]:
                init = hir.peel(b["origin"][1])
                if hir.is_call(init):
                    accessor = init
        if hir.is_call(rr) and rp is None:
            accessor = rr
        for p in cands:
            for a in atoms:
                if a[0] == "call" and a[3] == p and ((a[1] == "is_some" and a[4]) or (a[1] == "is_none" and not a[4])):
                    return "G1: %s() %s on the same place" % (a[1], a[4])
                if a[0] == "try" and a[1] == p:
                    return "G1: `?` already returned when it was None"
                if a[0] == "variant" and a[1] == p and a[3] and isinstance(a[2], str) and a[2].split("::")[-1] in ("Some", "Ok"):
                    return "G1: matched Some/Ok"
        if accessor is not None:
            an = hir.callee_name(accessor) or accessor.get("method")
            ap = hir.place(hir.call_args(accessor)[0]) if hir.call_args(accessor) else None
            alts = [ap] + ([_clone_source(f, ap)] if ap else [])
            for a in atoms:
                if a[0] == "call" and a[4] is True and an in PAIRS.get(a[1], ()) and a[3] in [x for x in alts if x]:
                    tag = "G10 (through clone)" if a[3] != ap else "G2"
                    return "%s: %s() holds for the same place, %s() is Some" % (tag, a[1], an)
            # G2b: the same place was matched against the variant the accessor extracts
            base_an = an.replace("as_mut_", "").replace("as_", "")
            for a in atoms:
                if a[0] == "variant" and a[3] is True and isinstance(a[2], str) and a[1] in [x for x in alts if x]:
                    if a[2].split("::")[-1].lower() == base_an.lower():
                        return "G2: matched variant %s of the same place, %s() is Some" % (a[2].split("::")[-1], an)
            # G8: s.get(C.len()..) after s.starts_with(C)
            if an == "get" and ap:
                rng = hir.peel(hir.call_args(accessor)[1])
                lens = [x for x in hir.walk(rng) if hir.is_call(x) and (hir.callee_name(x) or x.get("method")) == "len"]
                if rng.get("k") == "Struct" and (rng["res"].get("path") or "").endswith("RangeFrom") and len(lens) == 1:
                    cst = hir.place(hir.call_args(lens[0])[0])
                    for a in atoms:
                        if a[0] == "call" and a[1] == "starts_with" and a[4] is True and a[3] == ap:
                            other = hir.place(hir.call_args(a[5])[1])
                            if other == cst:
                                return "G8: starts_with(%s) holds, so get(len(%s)..) is Some" % (cst, cst)
        # G7: result.expr.unwrap() under result.is_modified()
        if rp and rp.endswith(".expr"):
            base = rp[: -len(".expr")]
            for a in atoms:
                if a[0] == "call" and a[1] == "is_modified" and a[4] is True and a[3] == base:
                    return "G7: TransformResult invariant (Modified <=> expr is Some)"
        # reviewed table
        desc = None
        if hir.is_call(rr):
            desc = "call:%s" % (hir.callee_name(rr) or rr.get("method"))
        key = (f.name, hir.callee_name(n) or n.get("method"), desc)
        if key in REVIEWED:
            return "reviewed: " + REVIEWED[key]
        # G9: String::from_utf8(buf).unwrap() where buf is the very buffer sourcemap's writer has just
        # filled in this function (`.to_writer(&mut buf)`): whichever function that is
        if desc == "call:from_utf8" and hir.call_args(rr):
            buf = hir.local_of(hir.call_args(rr)[0])
            if buf:
                for w in hir.calls_in(f.body, name="to_writer"):
                    wa = hir.call_args(w)
                    if len(wa) > 1 and hir.local_of(wa[1]) == buf and "sourcemap" in ((w.get("callee") or {}).get("path") or "") + ((w.get("callee") or {}).get("resolved") or ""):
                        return "G9: the bytes were just written by sourcemap's JSON writer (serde_json): always valid UTF-8"
        return None
    if kind == "index":
        # G8 for slices: `s[C.len()..]` where a dominating guard (directly, or through a crate predicate applied
        # to what s is computed from) says `s.starts_with(C)`: the prefix is that long and ends on a char boundary
        rng = hir.peel(n["i"])
        if rng.get("k") == "Struct" and (rng["res"].get("path") or "").endswith("RangeFrom"):
            import re as _re

            lens = [x for x in hir.walk(rng) if hir.is_call(x) and (hir.callee_name(x) or x.get("method")) == "len"]
            start = [fl["e"] for fl in rng["fields"] if fl["name"] == "start"]
            if len(lens) == 1 and start and hir.peel(start[0]) is hir.peel(lens[0]):
                cst = hir.def_path_of(hir.peel_transparent(hir.call_args(lens[0])[0])) or hir.place(hir.call_args(lens[0])[0])
                strip = lambda t: _re.sub(r"#\d+", "", t or "")
                base_txt = strip(hir.describe(hir.peel_transparent(n["x"])))
                for c_ in f.conds_at(n):
                    if c_["t"] != "bool" or c_["v"] is not True:
                        continue
                    for e_ in [hir.peel(x) for x in T._conjuncts(c_["e"])]:
                        cands = []
                        if hir.is_call(e_) and (hir.callee_name(e_) or e_.get("method")) == "starts_with":
                            cands.append((e_, {}))
                        h_ = prog.resolve_local(e_) if hir.is_call(e_) and e_.get("callee") else None
                        if h_ is not None and h_.body is not None and (h_.rec.get("ret") or "") == "bool":
                            rs_ = return_exprs(h_.body)
                            if len(rs_) == 1:
                                ren = {}
                                for i_, p_ in enumerate(h_.rec.get("params", [])):
                                    bs_ = hir.pat_bindings(p_["pat"])
                                    if bs_ and i_ < len(hir.call_args(e_)):
                                        ren[bs_[0]["name"]] = strip(hir.describe(hir.peel_transparent(hir.call_args(e_)[i_])))
                                for x in T._conjuncts(rs_[0]):
                                    x = hir.peel(x)
                                    if hir.is_call(x) and (hir.callee_name(x) or x.get("method")) == "starts_with":
                                        cands.append((x, ren))
                        for sw, ren in cands:
                            a_ = hir.call_args(sw)
                            recv_txt = strip(hir.describe(hir.peel_transparent(a_[0])))
                            for pn_, at_ in ren.items():
                                recv_txt = _re.sub(r"\b%s\b" % _re.escape(pn_), at_, recv_txt)
                            other = hir.def_path_of(hir.peel_transparent(a_[1])) or hir.place(a_[1])
                            if recv_txt == base_txt and other is not None and other == cst:
                                return "G8: starts_with(%s) holds for the sliced text, so [len(%s)..] is in range and on a char boundary" % (str(cst).split("::")[-1], str(cst).split("::")[-1])
        base = hir.place(n["x"])
        idx = hir.lit_value(n["i"])
        if base is None or not isinstance(idx, int):
            return None
        alts = [base] + ([_clone_source(f, base)] if _clone_source(f, base) else [])
        for a in atoms:
            if a[0] == "call" and a[1] == "is_empty" and a[4] is False and a[3] in alts and idx == 0:
                return "G3: non-empty, index 0"
            if a[0] == "cmp" and isinstance(a[2], str) and a[2] in ["len(%s)" % b for b in alts] and isinstance(a[3], tuple) and a[3][0] == "lit":
                k = a[3][1]
                op, val = a[1], a[4]
                if (op == "Ge" and val and idx < k) or (op == "Gt" and val and idx <= k) or (op == "Lt" and not val and idx < k) or (op == "Le" and not val and idx <= k):
                    return "G3: len %s %d established, index %d" % (op, k, idx)
            # G11: a crate-local callee returning `!v.is_empty()` of the same &mut Vec argument
            if a[0] == "call" and a[4] is True and idx == 0:
                g = prog.resolve_local(a[5])
                if g is not None:
                    args = hir.call_args(a[5])
                    which = [i for i, x in enumerate(args) if hir.place(x) == base]
                    if which:
                        rets = return_exprs(g.body)
                        okr = True
                        for r in rets:
                            r = hir.peel(r)
                            neg = False
                            while r.get("k") == "Unary" and r["op"] == "Not":
                                neg = not neg
                                r = hir.peel(r["x"])
                            if hir.is_call(r) and (hir.callee_name(r) or r.get("method")) == "is_empty" and neg:
                                l = hir.local_of(hir.call_args(r)[0])
                                b = g.bindings().get(l[0]) if l else None
                                if not (b and b["origin"][0] == "param" and b["origin"][1] == which[0]):
                                    okr = False
                            elif hir.is_call(r) and prog.resolve_local(r) is g:
                                # recursive call passing the same vector through
                                pass
                            else:
                                okr = False
                        if okr and rets:
                            return "G11: %s returns !is_empty() of that vector" % g.name
        return None
    if kind == "vec":
        name = hir.callee_name(n) or n.get("method")
        if name == "drain" and len(hir.call_args(n)) > 1 and "RangeFull" in (hir.peel(hir.call_args(n)[1]).get("ty") or ""):
            return "G4: drain(..) over the full range is always in bounds"
        if name == "insert":
            from . import c07 as _c07

            idx_e = hir.call_args(n)[1]
            note = ""
            sp_ = _c07.enum_offset_split(f, idx_e)
            if sp_ is not None:
                # `insert(base + k, ..)` in the k-th round of a loop that inserts one element per round into this
                # list: k elements have been added by then, so base + k is in bounds whenever base was
                lps = [a for a in f.ancestors(n) if a.get("k") == "Loop"]
                between = []
                for a in f.ancestors(n):
                    if lps and a is lps[0]:
                        break
                    if a.get("k") == "If" or (a.get("k") == "Match" and not (a.get("source") or "").startswith("ForLoop")):
                        between.append(a)
                rp = hir.place(hir.call_args(n)[0])
                others = [x for x in hir.walk(lps[0]) if hir.is_call(x) and x is not n and (hir.callee_name(x) or x.get("method")) in VEC_PANICS | {"push", "clear", "pop", "retain", "append", "extend"} and hir.call_args(x) and hir.place(hir.call_args(x)[0]) == rp] if lps else [None]
                if not lps or between or others:
                    return None
                idx_e = sp_[0]
                note = " (+ the running index of a loop that inserts one element per round)"
            i = hir.lit_value(idx_e)
            if i == 0:
                return "G4: insert at 0 is always in bounds" + note
            recv = hir.call_args(n)[0]
            os_ = pv.origins(f, idx_e)
            if os_ and all(r[0] == "call" and r[1].split("::")[-1] in ("position", "len") for r, p in os_):
                return "G4: index is a position() within the list or its len()"
            _c07._PRED_CTX["prog"] = prog
            _c07._PRED_CTX["fn"] = f
            idm = _c07.index_idiom(prog, f, idx_e)
            if idm[0] == "after-last":
                return "G4: index is rposition(..) + 1 of the list (<= len) or 0"
            if os_ and all((r[0] == "call" and r[1].split("::")[-1] == "count") or (r[0] == "lit" and r[1] == 0) for r, p in os_):
                ok = True
                for r, p in os_:
                    if r[0] == "lit":
                        continue
                    g = prog.by_def[r[2]]
                    node = g.by_id(r[3])
                    chain = []
                    x = hir.peel(node)
                    while x.get("k") == "MethodCall":
                        chain.append(x["method"])
                        x = hir.peel(x["recv"])
                    if not set(chain) <= {"count", "take_while", "filter", "iter", "skip_while"}:
                        ok = False
                if ok:
                    return "G4: index is the count() of an adapter chain over the list (<= len; same-list shown by C07 VALUESET)"
        return None
    return None


def rule_panic(check):
    R = "PANIC"
    check.rule(R, "every crate-written unwrap/expect, index, Vec mutation with an index, unchecked access, explicit panic and arithmetic assert is discharged by a dominating guard (G1 is_some/?, G2 predicate/accessor pair, G3 length, G4 insert bound, G7 result invariant, G8 starts_with/get, G10 through clone, G11 callee establishes non-empty) or a reviewed entry")
    prog = check.prog
    pv = Prov(prog)
    n_ob = 0
    n_gen = 0
    hir_lines = set()
    div_ok_lines = set()
    for f in prog.fns:
        if f.body is None:
            continue
        if f.rec.get("gen") or (f.name or "").startswith("__wbg_") or (f.name or "").startswith("__wasm_bindgen"):
            n_gen += 1
            continue
        for n in f.nodes():
            if n.get("exp"):
                m = n.get("macro") or ""
                if not any(t in m for t in ("panic", "unreachable", "todo", "unimplemented", "assert")):
                    continue
            kind = None
            name = None
            if hir.is_call(n):
                name = hir.callee_name(n) or n.get("method")
                path = (n.get("callee") or {}).get("path", "")
                if name in UNWRAPS and ("Option" in path or "Result" in path):
                    kind = "unwrap"
                elif name in VEC_PANICS and ("vec::Vec" in path or "string::String" in path or "slice::" in path or "VecDeque" in path):
                    kind = "vec"
                elif name in ("get_unchecked", "get_unchecked_mut"):
                    kind = "unchecked"
                elif "panicking::" in path or name in ("begin_panic", "panic_fmt", "panic_display", "unreachable_display"):
                    kind = "explicit"
                elif name in ("borrow", "borrow_mut") and "RefCell" in path:
                    kind = "refcell"
                elif name in ("index", "index_mut") and ("ops::Index" in path):
                    kind = "index-call"
                elif name in DEP_INDEXING and any(w in path + ((n.get("callee") or {}).get("resolved") or "") for w in DEP_INDEXING[name][0]):
                    kind = "dep-index"
                elif name in DEP_FLAGS and any(w in path + ((n.get("callee") or {}).get("resolved") or "") for w in DEP_FLAGS[name][0]):
                    kind = "dep-flag"
            elif n.get("k") == "Index":
                kind = "index"
            elif n.get("k") == "Binary" and n["op"] in ("Div", "Rem") and not n.get("callee"):
                kind = "div"
            if kind is None:
                continue
            n_ob += 1
            hir_lines.add(hir.loc(n))
            rdesc = hir.describe(n)[:70]
            key = "%s/%s/%s/%s" % (R, T.short(f), kind, _role(f, n))
            reason = None
            if kind in ("unwrap", "index", "vec"):
                reason = discharge(prog, f, n, kind, pv)
            elif kind == "unchecked":
                reason = _unchecked_ok(f, n)
            elif kind == "dep-index":
                # the id must be the very value the producing call of the same object returned
                spec = DEP_INDEXING[name]
                a_ = hir.call_args(n)
                os_ = pv.origins(f, a_[spec[1]]) if len(a_) > spec[1] else set()
                if os_ and all(r_[0] == "call" and r_[1].split("::")[-1] in spec[2] for r_, _p in os_):
                    reason = "G14: the id was handed out by %s of the same builder" % "/".join(spec[2])
            elif kind == "div":
                dv = hir.lit_value(hir.peel(n["r"]))
                if isinstance(dv, int) and not isinstance(dv, bool) and dv != 0:
                    reason = "G16: the divisor is the non-zero constant %d" % dv
                    div_ok_lines.add(hir.loc(n))
            elif kind == "dep-flag":
                # G17 (same call): the encoder of the sourcemap crate walks the tokens once and, while the
                # token's generated line differs from the previous one, pushes `;` and adds 1 to the previous
                # line: tokens must reach the builder in the order of the generated positions, which is the
                # order SourceMap::tokens() yields them in
                if name in ("add_raw", "add"):
                    def _loops(f_, n_, depth=0):
                        ls = [a for a in f_.ancestors(n_) if a.get("k") == "Match" and a.get("source", "").startswith("ForLoopDesugar") and hir.is_call(hir.peel(a["scrut"])) and (hir.callee_name(hir.peel(a["scrut"])) or "") == "into_iter"]
                        if ls or depth > 2:
                            return ls
                        # add_raw sits in a helper: the loop is at the (single) place the helper is called from
                        sites_ = [(h_, c_) for h_, c_, cc_ in prog.call_sites() if hir.is_call(c_) and prog.resolve_local(c_) is f_ and not h_.rec.get("in_test") and not h_.rec.get("gen")]
                        if len(sites_) == 1:
                            return _loops(sites_[0][0], sites_[0][1], depth + 1)
                        return []

                    loops = _loops(f, n)
                    src_ok = False
                    why_ = "add_raw is not called from a loop over the tokens of the rewrite map"
                    if loops:
                        it = hir.peel(loops[0]["scrut"])
                        cur = hir.peel(hir.call_args(it)[0]) if hir.is_call(it) and hir.call_args(it) else it
                        chain_ = []
                        while cur.get("k") == "MethodCall" and cur["method"] in ("filter", "filter_map", "map", "inspect", "enumerate", "by_ref", "into_iter", "iter", "peekable"):
                            chain_.append(cur["method"])
                            cur = hir.peel(cur["recv"])
                        if hir.is_call(cur) and (hir.callee_name(cur) or cur.get("method")) == "tokens" and "SourceMap" in ((cur.get("callee") or {}).get("path") or ""):
                            src_ok = True
                        else:
                            why_ = "the loop that feeds add_raw iterates %s, not SourceMap::tokens() (through element-wise adapters at most)" % hir.describe(cur)[:80]
                    k17 = "%s/%s/dep-order/add_raw" % (R, T.short(f))
                    if src_ok:
                        check.ok(R, k17, hir.loc(n), "G17: tokens are added in the order SourceMap::tokens() yields them (generated order)")
                    else:
                        check.bad(R, k17, hir.loc(n), "%s: sourcemap's encoder assumes non-decreasing generated lines; for a token on a lower line it appends `;` until a 32-bit counter wraps around (gigabytes of output, then an abort) instead of returning" % why_)
                spec = DEP_FLAGS[name]
                a_ = hir.call_args(n)
                os_ = pv.origins(f, a_[spec[1]]) if len(a_) > spec[1] else set()
                if os_ and all(r_[0] == "lit" and r_[1] in (spec[2], str(spec[2]).lower()) and not _p for r_, _p in os_):
                    reason = "G15: the range flag is the constant false (%s)" % spec[3][:60]
                else:
                    check.bad(R, key, hir.loc(n), "%s is called with a range flag that is not the constant `false`: %s" % (name, spec[3]))
                    continue
            if reason:
                check.ok(R, key, hir.loc(n), "%s -- %s" % (rdesc, reason))
            else:
                check.bad(R, key, hir.loc(n), "%s can panic: no dominating guard establishes it cannot (guards seen: %s)" % (rdesc, "; ".join(hir.cond_str(c) for c in f.conds_at(n) if c["t"] not in ("closure", "loop"))[:300] or "none"))
    check.floor(R, "panic obligations", n_ob, 10)
    # MIR cross-check: arithmetic / bounds asserts and direct panic calls in crate-written bodies
    n_mir = 0
    # arithmetic overflow asserts exist only with overflow checks, i.e. in the dev profile; the shipped
    # artefact is a release build (`wasm-pack build`), unless the manifest turns them on
    strict_overflow = False
    try:
        import tomllib

        with open(__import__("os").path.join(prog.repo, "Cargo.toml"), "rb") as fh:
            man = tomllib.load(fh)
        strict_overflow = bool(((man.get("profile") or {}).get("release") or {}).get("overflow-checks"))
    except Exception:
        strict_overflow = True
    for f in prog.fns:
        mir = f.rec.get("mir")
        if not mir or f.rec.get("gen"):
            continue
        for b in mir["blocks"]:
            t = b["term"]
            if b["cleanup"] or t.get("exp"):
                continue
            if t["k"] == "Assert" and t["assert_kind"] in ("BoundsCheck", "Overflow", "OverflowNeg", "DivisionByZero", "RemainderByZero"):
                n_mir += 1
                where = t["sp"].rsplit(":", 3)[0] if False else hir.loc({"sp": t["sp"]})
                key = "%s/%s/mir-%s" % (R, T.short_def(f.def_path), t["assert_kind"])
                if t["assert_kind"] == "Overflow" and "Add" in t["msg"] and "const 1_" in t["msg"]:
                    check.ok(R, key, where, "G9: counter/column + 1 (assumption: fewer than 2^32 increments)")
                elif t["assert_kind"] == "Overflow" and "Sub" in t["msg"] and _span_len_sub(f, t["sp"]):
                    check.ok(R, key, where, "G13: span.hi - span.lo of one span (hi >= lo is an invariant of swc spans)")
                elif t["assert_kind"] in ("Overflow", "OverflowNeg") and not strict_overflow:
                    check.ok(R, key, where, "overflow checks are a dev-profile artefact: the release build wraps instead of panicking (profile.release has no overflow-checks)")
                elif t["assert_kind"] in ("DivisionByZero", "RemainderByZero") and where in div_ok_lines:
                    check.ok(R, key, where, "G16: division by a non-zero constant (obligation handled above)")
                elif t["assert_kind"] == "BoundsCheck" and where in hir_lines:
                    check.ok(R, key, where, "bounds check of an index obligation handled above")
                else:
                    check.bad(R, key, where, "arithmetic/bounds assert %s is not covered by a guard rule" % t["msg"][:80])
    check.note("PANIC: %d obligations in crate-written bodies, %d MIR asserts; %d macro-generated functions (wasm_bindgen/serde derives) are trusted base" % (n_ob, n_mir, n_gen))


def _span_len_sub(f, sp):
    """the Sub at this source span is `<p>.hi.0 - <p>.lo.0` for one span place p"""
    if f.body is None:
        return False
    for n in f.nodes():
        if n.get("k") == "Binary" and n.get("op") == "Sub" and hir.parse_span(n["sp"])[:3] == hir.parse_span(sp)[:3]:
            l, r = hir.place(n["l"]), hir.place(n["r"])
            if l and r and l.endswith(".hi.0") and r.endswith(".lo.0") and l[: -len(".hi.0")] == r[: -len(".lo.0")]:
                return True
    return False


def _role(f, n):
    """line-free discriminator of an obligation inside its function"""
    k = n.get("k")
    if hir.is_call(n):
        args = hir.call_args(n)
        p = hir.place(args[0]) if args else None
        if p is None and args:
            r = hir.peel_transparent(args[0])
            p = "call:" + (hir.callee_name(r) or r.get("method") or "?") if hir.is_call(r) else hir.describe(r)[:30]
        import re

        return "%s(%s)" % (hir.callee_name(n) or n.get("method"), re.sub(r"#\d+", "", p or "?"))
    if k == "Index":
        import re

        return "%s[%s]" % (re.sub(r"#\d+", "", hir.place(n["x"]) or "?"), hir.lit_value(n["i"]))
    return k


def _unchecked_ok(f, n):
    """G12: v.get_unchecked(fastrand::usize(0..v.len())) for a non-empty constant v"""
    args = hir.call_args(n)
    base = hir.place(args[0])
    idx = hir.peel(args[1])
    if hir.is_call(idx) and (hir.callee_name(idx) or "") == "usize" and "fastrand" in (idx["callee"]["path"]):
        rng = hir.peel(hir.call_args(idx)[0])
        if rng.get("k") == "Struct" and (rng["res"].get("path") or "").endswith("ops::Range"):
            flds = {x["name"]: hir.peel(x["e"]) for x in rng["fields"]}
            start_ok = hir.lit_value(flds.get("start", {})) == 0
            end = flds.get("end", {})
            end_ok = hir.is_call(end) and (hir.callee_name(end) or end.get("method")) == "len" and hir.place(hir.call_args(end)[0]) == base
            # the vector is built from a non-empty string literal
            l = hir.local_of(args[0])
            b = f.bindings().get(l[0]) if l else None
            init = b["origin"][1] if b and b["origin"][0] == "let" else None
            lits = [x["lit"]["v"] for x in hir.walk(init) if x.get("k") == "Lit" and x["lit"]["t"] == "str"] if init else []
            if start_ok and end_ok and lits and all(len(s) > 0 for s in lits) and not b["mut"]:
                return "G12: index drawn from 0..len of the same non-empty constant vector"
    return None


def _rooted_with_field(f, e, root_local, depth=0):
    """e denotes a strict sub-part of the value bound to root_local: a place rooted there with at least
    one field, possibly through pattern bindings of matches on such places and as_*/unwrap projections"""
    if depth > 6:
        return False
    e = hir.peel(e)
    nfields = 0
    while True:
        k = e.get("k")
        if k == "Field":
            nfields += 1
            e = hir.peel(e["x"])
        elif k == "MethodCall" and (e["method"].startswith("as_") or e["method"] in ("unwrap", "as_ref", "as_deref", "expect")):
            e = hir.peel(e["recv"])
        else:
            break
    l = hir.local_of(e)
    if l is None:
        return False
    if l[0] == root_local:
        return nfields > 0
    b = f.bindings().get(l[0])
    if not b or f.assignments_to(l[0]):
        return False
    o = b["origin"]
    if o[0] == "match":
        sc = hir.peel(o[1])
        if hir.local_of(sc) and hir.local_of(sc)[0] == root_local:
            return nfields > 0 or len(o[2]) > 1
        return _rooted_with_field(f, sc, root_local, depth + 1)
    if o[0] == "let" and o[1] is not None:
        if nfields > 0 and hir.local_of(o[1]) and hir.local_of(o[1])[0] == root_local:
            return True
        return _rooted_with_field(f, o[1], root_local, depth + 1) or (nfields > 0 and _rooted_or_same(f, o[1], root_local, depth + 1))
    return False


def _rooted_or_same(f, e, root_local, depth):
    e = hir.peel(e)
    l = hir.local_of(e)
    return bool(l and l[0] == root_local) or _rooted_with_field(f, e, root_local, depth)


def _descending_cursor_loop(f, loop):
    """a loop whose cursor - the one shared reference into the tree that it reassigns - only ever moves
    to a strict sub-part of itself, and whose every iteration ends by moving the cursor, breaking or
    returning: bounded by the depth of the (finite, immutably borrowed) tree"""
    if any(n.get("k") == "Continue" for n in hir.walk(loop)):
        return False
    body = loop.get("body")
    if not body or body.get("k") != "Block":
        return False
    blk = body
    if not body["stmts"] and "tail" in body:
        t = hir.peel(body["tail"])
        if t.get("k") == "If" and "else" in t and any(x.get("k") == "Break" for x in hir.walk(t["else"])):
            th = hir.peel(t["then"])
            blk = th["block"] if th.get("k") == "BlockExpr" else th
    if blk.get("k") != "Block":
        return False
    assigned = {}
    for n in hir.walk(loop):
        if n.get("k") in ("Assign", "AssignOp"):
            l = hir.local_of(n["l"])
            if l is None:
                continue
            assigned.setdefault(l[0], []).append(n)
    cursors = [v for v in assigned if (f.bindings().get(v, {}).get("ty") or "").startswith("&") and not (f.bindings().get(v, {}).get("ty") or "").startswith("&mut")]
    if len(cursors) != 1:
        return False
    v = cursors[0]
    for a in assigned[v]:
        if a.get("k") != "Assign":
            return False
        rp = hir.root_path(f, a["r"], stop=(v,))
        if not (rp and rp[0] == v and len(rp[1]) >= 1):
            return False

    def covers(e):
        e = hir.peel(e)
        k = e.get("k")
        if k == "Assign":
            l = hir.local_of(e["l"])
            return bool(l) and l[0] == v
        if k in ("Break", "Ret"):
            return True
        if k == "BlockExpr":
            return covers_block(e["block"])
        if k == "Block":
            return covers_block(e)
        if k == "If":
            return "else" in e and covers(e["then"]) and covers(e["else"])
        if k == "Match":
            return all(covers(a["body"]) for a in e["arms"])
        return False

    def covers_block(b):
        last = b["tail"] if "tail" in b else (b["stmts"][-1].get("e") if b["stmts"] and b["stmts"][-1]["k"] in ("Expr", "Semi") else None)
        return last is not None and covers(last)

    return covers_block(blk)


def _structural_descent_loop(f, loop):
    from ..prov import value_exprs

    body = loop.get("body")
    if not body or body.get("k") != "Block" or body["stmts"] or "tail" not in body:
        return False
    t = hir.peel(body["tail"])
    if t.get("k") != "If" or "else" not in t:
        return False
    c = hir.peel(t["cond"])
    if c.get("k") != "LetCond":
        return False
    cur = hir.local_of(c["init"])
    if cur is None or not (hir.peel(c["init"]).get("ty") or "").startswith("std::option::Option<&") or (hir.peel(c["init"]).get("ty") or "").startswith("std::option::Option<&mut"):
        return False
    if str(hir.pat_variant(c["pat"])).split("::")[-1] != "Some":
        return False
    bs = hir.pat_bindings(c["pat"])
    if len(bs) != 1:
        return False
    x = bs[0]["local"]
    if not any(n.get("k") == "Break" for n in hir.walk(t["else"])):
        return False
    if any(n.get("k") == "Continue" for n in hir.walk(loop)):
        return False
    then = hir.peel(t["then"])
    blk = then["block"] if then.get("k") == "BlockExpr" else then
    if blk.get("k") != "Block":
        return False
    direct = False
    for st in blk["stmts"]:
        e = st.get("e")
        if e is not None and hir.peel(e).get("k") == "Assign" and hir.local_of(hir.peel(e)["l"]) and hir.local_of(hir.peel(e)["l"])[0] == cur[0]:
            direct = True
    if not direct:
        return False
    for a in f.assignments_to(cur[0]):
        if not any(anc is loop for anc in f.ancestors(a)):
            continue
        if a.get("k") != "Assign":
            return False
        for v in value_exprs(a["r"]):
            v = hir.peel(v)
            if v.get("k") == "Path" and (v["res"].get("ctor_path") or "").split("::")[-1] == "None":
                continue
            if v.get("k") == "Call" and (hir.peel(v["f"]).get("res", {}).get("ctor_path") or "").split("::")[-1] == "Some" and _rooted_with_field(f, v["args"][0], x):
                continue
            if v.get("k") == "MethodCall" and v["method"].startswith("as_") and _rooted_with_field(f, v["recv"], x):
                continue
            return False
    return True


def rule_loops(check):
    R = "LOOPS"
    check.rule(R, "no `loop`/`while` in crate-written code; every `for` iterates a finite collection or range; the call-graph cycles are exactly the reviewed ones (each with its decreasing measure)")
    prog = check.prog
    n_for = 0
    for f in prog.user_fns:
        for n in f.nodes():
            if n.get("k") == "Loop":
                src = n.get("source", "")
                if src.startswith("ForLoop"):
                    n_for += 1
                    # iterable: the argument of IntoIterator::into_iter in the enclosing match scrutinee
                    par = f.parent(n)
                    while par is not None and par.get("k") != "Match":
                        par = f.parent(par)
                    it = hir.peel(hir.call_args(hir.peel(par["scrut"]))[0]) if par is not None and hir.is_call(hir.peel(par["scrut"])) else None
                    ok = False
                    desc = hir.describe(it) if it else "?"
                    if it is not None:
                        x = it
                        names = []
                        while x.get("k") == "MethodCall":
                            names.append(x["method"])
                            x = hir.peel(x["recv"])
                        finite_adapters = {"iter", "iter_mut", "into_iter", "rev", "tokens", "enumerate", "skip", "take", "clone", "chars", "bytes", "keys", "values"}
                        if names and set(names) <= finite_adapters and hir.place(x):
                            ok = True
                        if x.get("k") == "Struct" and (x["res"].get("path") or "").endswith("ops::Range"):
                            ok = True
                        if not names and hir.place(x) or (x.get("k") == "Field"):
                            ok = True
                        ity = (it.get("ty") or "").replace("&mut ", "").replace("&", "").strip()
                        if ity.startswith(("std::vec::Vec<", "std::option::Option<", "std::collections::", "[", "std::boxed::Box<[")):
                            ok = True  # an owned or borrowed finite collection, whatever produced it
                    check.expect(ok, R, "%s/for/%s" % (R, T.short(f)), hir.loc(n), "for over finite %s" % desc, "for loop over %s: finiteness not recognised" % desc)
                elif _structural_descent_loop(f, n) or _descending_cursor_loop(f, n):
                    check.ok(R, "%s/%s/descent" % (R, T.short(f)), hir.loc(n), "`while let Some(x) = cur`: every iteration replaces cur by None or by a strict sub-part of x (shared borrow of the tree): bounded by the depth of the tree")
                else:
                    check.bad(R, "%s/%s/%s" % (R, T.short(f), src.split("(")[0].lower() or "loop"), hir.loc(n), "unbounded loop construct (%s) in crate code" % (src or "loop"))
    check.floor(R, "for loops inspected", n_for, 5)
    # call-graph SCCs
    edges = {}
    from .c06 import T_VISIT

    for f in prog.fns:
        if f.body is None or f.rec.get("gen"):
            continue
        outs = set()
        for n in f.nodes():
            c = n.get("callee")
            if not c:
                continue
            g = prog.resolve_local(n)
            if g is not None and not g.rec.get("gen"):
                outs.add(g.def_path)
            if c["name"] in T_VISIT and hir.is_call(n) and len(hir.call_args(n)) > 1:
                vty = core_type(hir.peel(hir.call_args(n)[1]).get("ty") or "").split("<")[0].split("::")[-1]
                for o in overrides_of(prog, vty):
                    outs.add(o.def_path)
        edges[f.def_path] = outs
    sccs = _sccs(edges)
    cyc = []
    for comp in sccs:
        if len(comp) > 1 or (len(comp) == 1 and list(comp)[0] in edges.get(list(comp)[0], ())):
            cyc.append(sorted(T.short_def(d) for d in comp))
    reviewed = {
        "visitor-recursion": "overrides re-enter themselves through swc's traversal on strictly smaller sub-trees",
        "get_prototype_member_path": "recurses on member.obj, a strictly smaller sub-tree",
        "operand-array": "replace_expressions_in_expr <-> ..._or_spread: the recursive call passes ExpandArrays::No, which disables the array arm",
    }
    comps_raw = [comp for comp in sccs if len(comp) > 1 or (len(comp) == 1 and list(comp)[0] in edges.get(list(comp)[0], ()))]
    pv = Prov(prog)
    for comp in comps_raw:
        names = sorted(T.short_def(d) for d in comp)
        is_visitor = any("visit_mut_" in x or "::visit_" in x for x in names)
        if is_visitor:
            check.ok(R, "%s/cycle/visitor-recursion" % R, "-", "reviewed cycle {%s}: %s" % (", ".join(names)[:200], reviewed["visitor-recursion"]))
            continue
        # structural recursion: every call edge inside the cycle passes, as some AST-typed argument, a
        # strict sub-part (field / variant payload / element) of an AST-typed parameter of the caller
        ok = True
        why = []
        n_edges = 0
        for d in comp:
            f = prog.by_def[d]
            for n in f.nodes():
                if not hir.is_call(n):
                    continue
                g = prog.resolve_local(n)
                if g is None or g.def_path not in comp:
                    continue
                n_edges += 1
                dec = False
                for a in hir.call_args(n):
                    aty = core_type(hir.peel(a).get("ty") or "")
                    if not (aty.startswith("swc_ecma_ast::") or aty.startswith("swc_ecma_visit::swc_ecma_ast::")):
                        continue
                    os_ = pv.origins_at(f, a, n)
                    if os_ and all(r[0] == "param" and r[1] == f.def_path and len([q for q in p if q != "[]" or True]) > 0 for r, p in os_):
                        dec = True
                if not dec:
                    ok = False
                    why.append("%s -> %s at %s" % (T.short(f), T.short(g), hir.loc(n)))
        key = "%s/cycle/%s" % (R, "+".join(names)[:120])
        if ok and n_edges:
            check.ok(R, key, "-", "structural recursion {%s}: every recursive call passes a strict sub-tree of an AST parameter (%d edges)" % (", ".join(names)[:200], n_edges))
        else:
            check.bad(R, key, "-", "call-graph cycle {%s} is not structurally decreasing: %s" % (", ".join(names)[:300], "; ".join(why)[:300]))
    # OptChainVisitor re-dispatch is guarded by the `found` flag flip
    v = [f for f in overrides_of(prog, "OptChainVisitor") if f.name == "visit_mut_expr"]
    if v:
        f = v[0]
        for n in hir.calls_in(f.body, name="visit_mut_with"):
            if hir.local_of(hir.call_args(n)[0]) and f.bindings()[hir.local_of(hir.call_args(n)[0])[0]]["origin"][0] == "param":
                atoms = gate.atoms_at(f, n)
                flag_false = any(a[0] == "place" and a[1].endswith(".found") and a[2] is False for a in atoms)
                sets = [x for x in f.nodes() if x.get("k") == "Assign" and (hir.place(x["l"]) or "").endswith(".found") and hir.lit_value(x["r"]) is True and x["id"] < n["id"] and f.conds_at(x) == f.conds_at(n)]
                check.expect(flag_false and bool(sets), R, R + "/optchain-redispatch", hir.loc(n), "self re-dispatch only when !found, after setting found = true", "OptChainVisitor re-dispatches on the same node without the found-flag guard (infinite recursion)")


def _sccs(edges):
    index = {}
    low = {}
    stack = []
    on = set()
    out = []
    counter = [0]
    import sys

    sys.setrecursionlimit(10000)

    def strong(v):
        index[v] = low[v] = counter[0]
        counter[0] += 1
        stack.append(v)
        on.add(v)
        for w in edges.get(v, ()):
            if w not in edges:
                continue
            if w not in index:
                strong(w)
                low[v] = min(low[v], low[w])
            elif w in on:
                low[v] = min(low[v], index[w])
        if low[v] == index[v]:
            comp = set()
            while True:
                w = stack.pop()
                on.discard(w)
                comp.add(w)
                if w == v:
                    break
            out.append(comp)

    for v in list(edges):
        if v not in index:
            strong(v)
    return out


def _in_value_position(f, node):
    """the value of node is (forwarded as) the value of the function: tail of blocks, closure bodies
    handed to a call whose own value is forwarded, `return`, never a discarded statement"""
    cur = node
    for _ in range(40):
        par = f.parent(cur)
        if par is None:
            return True
        k = par.get("k")
        if k in ("DropTemps", "Use", "BlockExpr", "Ret", "Cast", "Type"):
            cur = par
        elif k == "Block":
            if par.get("tail") is not cur:
                return False
            cur = par
        elif k == "Closure":
            cur = par
        elif k in ("Call", "MethodCall"):
            # a closure argument whose result the callee returns (with / map / and_then ...): accept
            # when we got here through a closure; a plain argument position is not forwarding
            if cur.get("k") != "Closure":
                return False
            cur = par
        elif k in ("If", "Match"):
            cur = par
        else:
            return False
    return False


DM_GUARDS_R = {"iter", "get", "try_get"}
DM_GUARDS_W = {"iter_mut", "get_mut", "entry", "try_get_mut", "try_entry"}
DM_WRITES = {"insert", "remove", "remove_if", "remove_if_mut", "retain", "clear", "alter", "alter_all", "shrink_to_fit", "swap"} | DM_GUARDS_W
DM_READS = {"contains_key", "len", "is_empty", "view"} | DM_GUARDS_R
COMMENTS_WRITES = {"add_leading": "leading", "add_leading_comments": "leading", "move_leading": "leading", "take_leading": "leading", "add_pure_comment": "leading", "add_trailing": "trailing", "add_trailing_comments": "trailing", "move_trailing": "trailing", "take_trailing": "trailing"}
COMMENTS_READS = {"has_leading": "leading", "get_leading": "leading", "with_leading": "leading", "has_trailing": "trailing", "get_trailing": "trailing", "with_trailing": "trailing", "has_flag": "leading"}


def _is_dashmap(ty):
    return "DashMap<" in (ty or "") or "dashmap::DashMap" in (ty or "")


def _dm_ops(prog, f):
    """[(node, map place, kind)] kind in guard-r / guard-w / write / read for every DashMap operation in f,
    including the swc Comments API on an owner of two DashMaps"""
    out = []
    for n in f.nodes():
        if n.get("k") != "MethodCall":
            continue
        m = n["method"]
        recv = hir.peel(n["recv"])
        rty = recv.get("ty") or ""
        pl = hir.place(recv, transparent=False) or hir.place(recv)
        if _is_dashmap(rty) and pl:
            kind = "guard-r" if m in DM_GUARDS_R else "guard-w" if m in DM_GUARDS_W else "write" if m in DM_WRITES else "read" if m in DM_READS else "write"
            out.append((n, pl, kind))
        elif ("Comments" in rty) and pl and (m in COMMENTS_WRITES or m in COMMENTS_READS):
            which = COMMENTS_WRITES.get(m) or COMMENTS_READS.get(m)
            out.append((n, "%s.%s" % (pl, which), "write" if m in COMMENTS_WRITES else "read"))
    return out


def rule_lock_order(check):
    R = "LOCK-ORDER"
    check.rule(R, "no operation that needs a shard lock of a DashMap (comment maps of swc) is evaluated while an iterator / reference guard of the same map is alive - scrutinee temporaries of `if let` / `match` / `for` live until the end of the whole construct, `let`-bound guards until the end of the block: a write under a live guard never returns (self-deadlock)")
    prog = check.prog
    n_guards = 0
    for f in prog.user_fns:
        ops = _dm_ops(prog, f)
        if not ops:
            continue
        for g, pl, kind in ops:
            if not kind.startswith("guard"):
                continue
            n_guards += 1
            region = _guard_region(f, g)
            inside = {id(x) for r_ in region for x in hir.walk(r_)}
            own_chain = {id(x) for x in hir.walk(g)}
            conflicts = []
            for w, wpl, wkind in ops:
                if w is g or id(w) not in inside or id(w) in own_chain:
                    continue
                if wpl != pl:
                    continue
                if wkind in ("write", "guard-w") or kind == "guard-w":
                    conflicts.append((w, "%s.%s(..)" % (wpl.split("#")[0] + "." + wpl.split(".", 1)[1] if "." in wpl else wpl, w["method"])))
            # crate helpers that receive the owner and write to the map
            owner_root = pl.split(".")[0]
            for c in (x for r_ in region for x in hir.walk(r_)):
                if not hir.is_call(c) or id(c) in own_chain:
                    continue
                h = prog.resolve_local(c)
                if h is None or h.body is None:
                    continue
                if not any((hir.place(a) or "").split(".")[0] == owner_root for a in hir.call_args(c)):
                    continue
                for hh in prog.flat(h):
                    if any(k_ in ("write", "guard-w") for _, _, k_ in _dm_ops(prog, hh)):
                        conflicts.append((c, "%s(..) which writes to a DashMap" % h.name))
                        break
            key = "%s/%s/%s.%s" % (R, T.short(f), pl.split(".")[-1], g["method"])
            if conflicts:
                w, what = conflicts[0]
                check.bad(R, key, hir.loc(w), "%s is evaluated while the guard returned by %s.%s() at %s is still alive (scrutinee / binding lifetime): the write lock on the same shard can never be taken - the call never returns" % (what, pl.split(".")[-1], g["method"], hir.loc(g)))
            else:
                check.ok(R, key, hir.loc(g), "no write to %s while this guard is alive" % pl.split("#")[0])
    check.floor(R, "DashMap guard sites", n_guards, 2)


def _guard_region(f, g):
    """expressions evaluated while the temporary/binding holding the guard g is alive"""
    cur = g
    for _ in range(60):
        par = f.parent(cur)
        if par is None:
            return [cur]
        k = par.get("k")
        if k == "Match" and any(x is cur for x in hir.walk(par["scrut"])):
            return [par]
        if k == "If" and any(x is cur for x in hir.walk(par["cond"])):
            return [par]
        if k == "Closure":
            return [cur]
        if k == "Block":
            for i, st in enumerate(par["stmts"]):
                e = st.get("init") if st["k"] == "Let" else st.get("e")
                if e is cur:
                    if st["k"] == "Let":
                        tys = [b.get("ty") or "" for b in hir.pat_bindings(st["pat"])]
                        if any("dashmap::" in t for t in tys):
                            rest = []
                            for st2 in par["stmts"][i + 1 :]:
                                e2 = st2.get("init") if st2["k"] == "Let" else st2.get("e")
                                if e2 is not None:
                                    rest.append(e2)
                            if "tail" in par:
                                rest.append(par["tail"])
                            return [cur] + rest
                    return [cur]
            return [cur]
        cur = par
    return [cur]


def rule_plumbing(check):
    R = "ERROR-PLUMBING"
    check.rule(R, "rewrite_js parses and transforms inside swc's try_with_handler (diagnostics become Err); the wasm entry point maps Err to a JsError and never unwraps the rewrite result; error paths of extract_source_map end in None")
    prog = check.prog
    rj = prog.fn("rewriter::rewrite_js")
    th = [n for n in hir.calls_in(rj.body, name="try_with_handler")]
    ok = len(th) == 1 and _in_value_position(rj, th[0])
    inner = th and [x for x in hir.walk(th[0]) if hir.is_call(x) and hir.callee_name(x) in ("parse_js", "transform_js")]
    if not th:
        # rewrite_js delegates to a helper that runs a continuation inside try_with_handler: what runs
        # inside is what the helper does there plus the closure rewrite_js hands to it
        for c in hir.calls_in(rj.body):
            h = prog.resolve_local(c)
            if h is None or h.body is None or not _in_value_position(rj, c):
                continue
            th2 = [n for n in hir.calls_in(h.body, name="try_with_handler")]
            if len(th2) != 1 or not _in_value_position(h, th2[0]):
                continue
            inner = [x for x in hir.walk(th2[0]) if hir.is_call(x) and hir.callee_name(x) in ("parse_js", "transform_js")]
            fn_params = {b["local"]: i for i, p_ in enumerate(h.rec.get("params", [])) for b in hir.pat_bindings(p_["pat"])}
            for x in hir.walk(th2[0]):
                if x.get("k") == "Call" and hir.local_of(x["f"]) and hir.local_of(x["f"])[0] in fn_params:
                    i = fn_params[hir.local_of(x["f"])[0]]
                    ca = hir.call_args(c)
                    if i < len(ca) and hir.peel(ca[i]).get("k") == "Closure":
                        inner += [y for y in hir.walk(hir.peel(ca[i])["body"]) if hir.is_call(y) and hir.callee_name(y) in ("parse_js", "transform_js")]
            ok = True
            th = th2
    check.expect(ok and inner and len(inner) == 2, R, R + "/try_with_handler", hir.loc(rj.rec), "parse and transform run inside try_with_handler", "rewrite_js does not run parse/transform inside try_with_handler")
    rw = prog.fn("lib_wasm::Rewriter::rewrite")
    me = [n for n in hir.calls_in(rw.body, name="map_err")]
    ret = [hir.peel(r) for r in return_exprs(rw.body)]
    ok_me = len(me) >= 1 and me[0] in ret
    if not ok_me:
        # the same hand-over spelled with a match: `match rewrite_js(..) { Ok(o) => o, Err(e) => return Err(JsError::new(..)) }`
        # (or `?`): the failure of the rewrite leaves the entry point as its own Err value, built from a JsError
        for m_ in [x for x in hir.walk(rw.body) if x.get("k") == "Match"]:
            sc = hir.peel(m_["scrut"])
            if (m_.get("source") or "").startswith("TryDesugar"):
                sc = hir.peel(hir.call_args(sc)[0]) if hir.is_call(sc) and hir.call_args(sc) else sc
            if not (hir.is_call(sc) and hir.callee_name(sc) == "rewrite_js"):
                continue
            if (m_.get("source") or "").startswith("TryDesugar"):
                ok_me = "JsError" in (rw.rec.get("ret") or "")
                continue
            for a_ in m_["arms"]:
                if str(hir.pat_variant(a_["pat"])).split("::")[-1] != "Err":
                    continue
                errs_ = [y for y in hir.walk(a_["body"]) if y.get("k") == "Call" and (hir.peel(y["f"]).get("res", {}).get("ctor_path") or "").split("::")[-1] == "Err"]
                js_ = any("JsError" in ((z.get("callee") or {}).get("path") or "") + (z.get("ty") or "") for y in errs_ for z in hir.walk(y))
                leaves = hir.diverges(a_["body"]) or bool(errs_)
                ok_me = ok_me or (bool(errs_) and js_ and leaves)
    check.expect(ok_me, R, R + "/map_err", hir.loc(rw.rec), "Err(e) -> JsError", "the wasm entry point does not map rewrite errors to JsError")
    es = prog.fn("rewriter::extract_source_map")
    # a missing / unreadable / undecodable map is "no map", never an error of the rewrite: the function cannot
    # hand an error back (its result type carries none) and every Result it obtains is consumed by `.ok()` or
    # by a match / if-let that has an arm for the failure (panicking consumers are PANIC's business)
    ret_ = es.rec.get("ret") or ""
    oks = [n for g, n in prog.flat_calls(es, name="ok")]
    handled = list(oks)
    for n in hir.walk_no_closure(es.body):
        sc = None
        if n.get("k") == "Match" and not (n.get("source") or "").startswith(("ForLoop", "TryDesugar")):
            sc = n.get("scrut")
        elif n.get("k") == "LetCond":
            sc = n.get("init")
        if sc is not None and "result::Result<" in ((hir.peel(sc).get("ty") or "")):
            handled.append(n)
    check.expect("Result<" not in ret_ and len(handled) >= 1, R, R + "/extract-errors-to-none", hir.loc(es.rec), "decode/read errors end as None (%d consuming sites, result type %s)" % (len(handled), ret_[:60]), "extract_source_map no longer turns read/decode errors into None")


def run(check):
    check.guarded("PANIC", rule_panic)
    check.guarded("LOOPS", rule_loops)
    check.guarded("ERROR-PLUMBING", rule_plumbing)
    check.guarded("LOCK-ORDER", rule_lock_order)
    return {
        "explanation": "Inventory of every crate-written panic obligation from typed HIR (cross-checked against MIR assert terminators), each discharged by a guard rule evaluated on structural path conditions or by a reviewed table entry keyed by (function, callee, receiver); loop and call-graph-cycle rules; error plumbing.",
        "assumptions": ["no panics, aborts or non-termination inside swc, sourcemap, base64, serde, wasm-bindgen (trusted base)", "macro-generated code (wasm_bindgen, serde derives, format/log macros) is trusted base", "stack exhaustion by pathological nesting is out of scope (property statement)"],
        "not_decided": ["panics and termination inside dependencies", "memory exhaustion"],
    }
