"""C09 - embedded source map.  Decided: where every span placed in the output tree comes from (no
constructed spans, no foreign-source-map AST without normalisation, no span overwrite) and the print
arguments.  Not decided: what swc's code generator emits for a given tree (exact lines/columns)."""
from .. import hir, gate
from ..engine import AnchorMissing
from ..prov import Prov, origin_str, return_exprs
from ..trav import AdtGraph, overrides_of, core_type
from .. import travrules as T

SPAN = "swc_common::Span"


def _ast_param(prog, root):
    """is ('param', fn, idx) a parameter carrying user AST (a swc_ecma_ast node or a Span)?"""
    g = prog.by_def.get(root[1])
    if g is None:
        return False
    prm = g.rec.get("params", [])
    if root[2] >= len(prm):
        return False
    ty = core_type(prm[root[2]]["ty"])
    return ty.startswith("swc_ecma_ast::") or ty == SPAN or ty.startswith("swc_ecma_visit::swc_ecma_ast::")


def span_origin_ok(prog, pv, o, depth=0):
    """classify one origin of a span value"""
    root, proj = o
    if root[0] == "const" and root[1].endswith("DUMMY_SP"):
        return "DUMMY_SP"
    if root[0] == "param":
        if _ast_param(prog, root):
            return "span of an input node (%s)" % origin_str(o)
        return None
    # a span read out of a node that the rewriter itself built earlier (the tree is rewritten in place,
    # so later visits meet such nodes): by induction over this very rule - every span initialiser of
    # every constructed node is checked where the node is built - it is again DUMMY_SP or an input span
    if proj and proj[-1] in ("span", "lo", "hi") and len(proj) >= 2:
        if root[0] == "ctor" and (root[1].startswith("swc_ecma_ast::") or any(root[1] == a or root[1].startswith(a + "::") for a in prog.adts if prog.adts[a].get("krate") == "native_iast_rewriter")):
            return "span of a node built by the rewriter (checked where it is built)"
        if root[0] == "call" and prog.by_generic_free().get(root[1].split("::<")[0]) is not None:
            return "span of a node built by the rewriter (checked where it is built)"
    if root[0] == "call" and root[1].split("::")[-1] in ("span", "span_lo", "span_hi") and depth < 3:
        g = prog.by_def.get(root[2])
        node = g.by_id(root[3])
        recv = hir.call_args(node)[0]
        subs = pv.resolve_params(pv.origins(g, recv))

        def node_ok(s_):
            r_, p_ = s_
            if r_[0] == "param":
                return _ast_param(prog, r_)
            if r_[0] == "ctor" and r_[1].split("::")[-1] == "None":
                return True
            if r_[0] == "ctor" and (r_[1].startswith("swc_ecma_ast::") or any(r_[1] == a or r_[1].startswith(a + "::") for a in prog.adts if prog.adts[a].get("krate") == "native_iast_rewriter")):
                return True  # a node built by the rewriter: its span initialisers are checked where it is built
            if r_[0] == "call" and prog.by_generic_free().get(r_[1].split("::<")[0]) is not None:
                return True
            return bool(span_origin_ok(prog, pv, s_, depth + 1))

        if subs and all(node_ok(s_) for s_ in subs):
            return "Spanned::span() of an input node"
        return None
    return None


def rule_span_init(check):
    R = "SPAN-PROV"
    check.rule(R, "every span placed into a constructed AST node is DUMMY_SP, the span of an input node, or a Span parameter whose arguments at all call sites are again of these kinds")
    prog = check.prog
    pv = Prov(prog)
    n = 0
    for f in prog.user_fns:
        for x in f.nodes():
            spans = []
            if x.get("k") == "Struct" and ((x["res"].get("path") or "").startswith("swc_ecma_ast::") or (x["res"].get("path") or "").startswith("swc_ecma_visit::swc_ecma_ast::")):
                for fl in x["fields"]:
                    if (hir.peel(fl["e"]).get("ty") or "").endswith(SPAN) or fl["name"] == "span":
                        spans.append((fl["name"], fl["e"]))
                    elif fl["name"] == "spread":
                        spans.append((fl["name"], fl["e"]))
            elif hir.is_call(x) and (x.get("callee") or {}).get("path", "").startswith("swc_ecma_ast::") and hir.callee_name(x) == "new":
                for a in hir.call_args(x):
                    if (hir.peel(a).get("ty") or "").endswith(SPAN):
                        spans.append(("arg", a))
            for role, e in spans:
                n += 1
                os_ = pv.resolve_params(pv.origins(f, e))
                bad = []
                kinds = set()
                for o in os_:
                    if o[0][0] == "ctor" and o[0][1].split("::")[-1] == "None":
                        kinds.add("None")
                        continue
                    k = span_origin_ok(prog, pv, o)
                    if k:
                        kinds.add(k.split(" (")[0])
                    else:
                        bad.append(origin_str(o))
                ty = (x["res"].get("path") if x.get("k") == "Struct" else x["callee"]["path"]).split("::")[-1]
                key = "%s/%s/%s.%s" % (R, T.short(f), ty, role)
                check.expect(not bad, R, key, hir.loc(x), "%s.%s <- %s" % (ty, role, ", ".join(sorted(kinds))), "%s.%s gets a span of foreign or constructed origin: %s" % (ty, role, ", ".join(sorted(bad))))
    check.floor(R, "span initialisers", n, 30)


def rule_span_ctor(check):
    R = "SPAN-CTOR"
    check.rule(R, "no span is constructed or shifted (Span::new, with_lo/with_hi, BytePos arithmetic, Span literals) and no span field of an existing node is overwritten, except by a span-normalising visitor assigning DUMMY_SP")
    prog = check.prog
    n_calls = 0
    for f in prog.user_fns:
        for x in f.nodes():
            if hir.is_call(x):
                n_calls += 1
                path = (x.get("callee") or {}).get("path", "")
                name = hir.callee_name(x) or ""
                if ("swc_common::Span" in path or "syntax_pos::Span" in path) and name in ("new", "with_lo", "with_hi", "from", "to", "between", "until", "shrink_to_lo", "shrink_to_hi", "apply_mark", "with_ctxt"):
                    check.bad(R, "%s/%s/%s" % (R, T.short(f), name), hir.loc(x), "a span is constructed with Span::%s" % name)
                f0 = hir.peel(x["f"]) if x["k"] == "Call" else {}
                if (f0.get("res", {}).get("ctor_path") or "").endswith("BytePos"):
                    check.bad(R, "%s/%s/BytePos" % (R, T.short(f)), hir.loc(x), "a byte position is constructed")
            if x.get("k") == "Struct" and (x["res"].get("path") or "").endswith("swc_common::Span"):
                check.bad(R, "%s/%s/literal" % (R, T.short(f)), hir.loc(x), "a Span literal is constructed")
            if x.get("k") == "Assign":
                l = hir.peel(x["l"])
                lty = (x["l"].get("ty") or hir.peel(x["l"]).get("ty") or "")
                is_span_field = l.get("k") == "Field" and l["field"] == "span"
                is_span_deref = lty.endswith(SPAN) and not is_span_field
                if is_span_field or is_span_deref:
                    dummy = (hir.def_path_of(x["r"]) or "").endswith("DUMMY_SP")
                    norm = f.name == "visit_mut_span" and dummy
                    key = "%s/%s/overwrite" % (R, T.short(f))
                    check.expect(norm, R, key, hir.loc(x), "span normaliser: *span = DUMMY_SP", "a span of an existing node is overwritten")
    check.ok(R, R + "/scan", "-", "%d calls scanned for span constructors" % n_calls)
    check.floor(R, "calls scanned", n_calls, 300)


def rule_escape(check):
    R = "ESCAPE"
    check.rule(R, "a function that creates its own swc_common::SourceMap and returns AST parsed in it must reset the spans of what it returns (a VisitMut whose only override is visit_mut_span assigning DUMMY_SP): byte offsets of a foreign source map are meaningless in the rewritten file")
    prog = check.prog
    graph = AdtGraph(prog.adts)
    creators = []
    for f in prog.user_fns:
        makes = [x for x in f.nodes() if hir.is_call(x) and hir.callee_name(x) == "new" and ((x.get("callee") or {}).get("path", "").startswith("swc_common::SourceMap") or "source_map::SourceMap" in (x.get("callee") or {}).get("path", ""))]
        if makes:
            creators.append((f, makes))
    # a function that obtains its private map from a crate helper returning the map/compiler counts too
    direct = {f.def_path for f, _ in creators}
    changed = True
    while changed:
        changed = False
        for f in prog.user_fns:
            if f.def_path in direct:
                continue
            via = [x for x in f.nodes() if hir.is_call(x) and prog.resolve_local(x) is not None and prog.resolve_local(x).def_path in direct and (any(w in (prog.resolve_local(x).rec.get("ret") or "") for w in ("Compiler", "SourceMap")) or any(hir.peel(a_).get("k") == "Closure" and any("swc_ecma_ast" in (p_.get("ty") or "") for p_ in hir.peel(a_).get("params", [])) for a_ in hir.call_args(x)))]
            if via:
                creators.append((f, via))
                direct.add(f.def_path)
                changed = True
    check.floor(R, "functions creating a swc SourceMap", len(creators), 1)
    n_ast = 0
    for f, makes in creators:
        ret = f.rec.get("ret", "")
        import re

        adts = [a for a in re.findall(r"[A-Za-z_][A-Za-z0-9_:]*", ret) if a in prog.adts]
        ast_out = [a for a in adts if a.startswith("swc_ecma_ast::") and graph.reaches(a, {SPAN})]
        key = "%s/%s" % (R, T.short(f))
        if not ast_out:
            check.ok(R, key, hir.loc(f.rec), "returns %s: no AST value escapes its private source map" % (ret[:60]))
            continue
        n_ast += 1
        # find normalising visit on the returned value
        norm = False
        for x in hir.calls_in(f.body, name="visit_mut_with"):
            vis = hir.peel(hir.call_args(x)[1])
            vty = core_type(vis.get("ty") or "").split("<")[0].split("::")[-1]
            ovs = overrides_of(prog, vty)
            if len(ovs) == 1 and ovs[0].name == "visit_mut_span":
                assigns = [a for a in ovs[0].nodes() if a.get("k") == "Assign"]
                if len(assigns) == 1 and (hir.def_path_of(assigns[0]["r"]) or "").endswith("DUMMY_SP") and not ovs[0].conds_at(assigns[0]):
                    # applied to what is returned
                    recv = hir.place(hir.call_args(x)[0])
                    rexprs = list(return_exprs(f.body))
                    # values handed back by a continuation closure (`|program| { ..; Ok(script.body) }`) escape too
                    for cl in [c_ for c_ in hir.walk(f.body) if c_.get("k") == "Closure"]:
                        for r_ in return_exprs(cl["body"]):
                            r0 = hir.peel(r_)
                            while r0.get("k") == "Call" and (hir.peel(r0["f"]).get("res", {}).get("ctor_path") or "").split("::")[-1] in ("Ok", "Some") and r0["args"]:
                                r0 = hir.peel(r0["args"][0])
                            rexprs.append(r0)
                    ast_rets = [r for r in rexprs if hir.place(r) and any(a_ in (hir.peel(r).get("ty") or "") for a_ in ast_out)]
                    rets = [hir.place(r) for r in rexprs]
                    if recv and recv in rets and all(x["id"] < r["id"] for r in rexprs if hir.place(r) == recv) and all(hir.place(r) == recv for r in ast_rets):
                        norm = True
        check.expect(norm, R, key, hir.loc(f.rec), "returned %s is span-normalised before it escapes" % ast_out, "%s returns %s parsed in a private SourceMap with its byte offsets intact: mappings of injected prologue code point outside the input text" % (f.name, ast_out))
    check.floor(R, "functions returning AST parsed in a private SourceMap (the prologue parser)", n_ast, 1)


def rule_print_args(check):
    R = "PRINT-ARGS"
    check.rule(R, "PrintArgs: source_map = Bool(true), emit_source_map_columns = true, source_file_name = base name of the file; the printed program is the one that was parsed from (file, code) and visited")
    prog = check.prog
    t = prog.fn("rewriter::transform_js")
    fl = prog.flat(t, 2)
    lits_g = [(g, n) for g in fl for n in hir.walk(g.body) if n.get("k") == "Struct" and (n["res"].get("path") or "").endswith("PrintArgs")]
    check.floor(R, "PrintArgs literals", len(lits_g), 1)

    def is_file_param(g, e, depth=0):
        """e, in g, is the `file` parameter of transform_js (through the parameters of helpers)"""
        l = hir.local_of(e)
        if not l or depth > 3:
            return False
        o = g.bindings()[l[0]]["origin"]
        if o[0] != "param" or o[2]:
            return False
        if g is t:
            return True
        sites = [(h, c) for h in fl for c in h.nodes() if hir.is_call(c) and prog.resolve_local(c) is g]
        return bool(sites) and all(len(hir.call_args(c)) > o[1] and is_file_param(h, hir.call_args(c)[o[1]], depth + 1) for h, c in sites)

    for g_lit, n in lits_g:
        flds = {x["name"]: hir.peel(x["e"]) for x in n["fields"]}
        sm = flds.get("source_map", {})
        ok_sm = sm.get("k") == "Call" and (hir.peel(sm["f"]).get("res", {}).get("ctor_path") or "").endswith("SourceMapsConfig::Bool") and hir.lit_value(sm["args"][0]) is True
        ok_cols = hir.lit_value(flds.get("emit_source_map_columns", {})) is True
        fn_ = flds.get("source_file_name", {})
        ok_name = hir.is_call(fn_) and hir.callee_name(fn_) == "file_name" and is_file_param(g_lit, hir.call_args(fn_)[0])
        check.expect(ok_sm, R, R + "/source_map", hir.loc(n), "source_map: Bool(true)", "PrintArgs.source_map is %s" % hir.describe(sm))
        check.expect(ok_cols, R, R + "/columns", hir.loc(n), "emit_source_map_columns: true", "PrintArgs.emit_source_map_columns is not true")
        check.expect(bool(ok_name), R, R + "/source_file_name", hir.loc(n), "source_file_name: file_name(file)", "PrintArgs.source_file_name is %s" % hir.describe(fn_))
    fnm = prog.fn("util::file_name")
    chain = []
    e = hir.peel([r for r in return_exprs(fnm.body)][0])
    while e.get("k") == "MethodCall":
        chain.append(e["method"])
        e = hir.peel(e["recv"])
    ok = chain == ["and_then", "file_name"] and hir.is_call(e) and hir.callee_name(e) == "new" and "Path" in e["callee"]["path"]
    check.expect(ok, R, R + "/file_name", hir.loc(fnm.rec), "file_name = Path::new(file).file_name()", "util::file_name is computed as %s" % chain)
    # ... of the whole path handed in: `what?.js`, `c#/x.js` are file names like any other (seed
    # C09-source-name-strips-query-and-hash cut the path at `?` / `#` first)
    if ok:
        from ..prov import Prov as _Prov

        os_ = _Prov(prog).origins(fnm, hir.call_args(e)[0])
        whole = bool(os_) and all(r[0] == "param" and r[2] == 0 for r, _p in os_)
        check.expect(whole, R, R + "/file_name-whole-path", hir.loc(fnm.rec), "Path::new is given the parameter itself", "util::file_name takes the base name of a value derived from its parameter (%s), not of the path itself: the map's `sources` entry is not the input's base name for some paths" % sorted(origin_str(o) for o in os_))


def rule_print_path(check):
    R = "PRINT-PATH"
    check.rule(R, "the printed program is the one that was parsed from (file, code) of this call and visited by the block driver")
    prog = check.prog
    t = prog.fn("rewriter::transform_js")
    pr = [n for n in hir.walk(t.body) if hir.is_call(n) and hir.callee_name(n) == "print" and "Compiler" in n["callee"]["path"]]
    vis = [n for n in hir.calls_in(t.body, name="visit_mut_with")]
    check.floor(R, "Compiler::print sites", len(pr), 1)
    for n in pr:
        p0 = hir.local_of(hir.call_args(n)[1])
        same = bool(p0) and any(hir.local_of(hir.call_args(v)[0]) == p0 for v in vis) and t.bindings()[p0[0]]["origin"][0] == "param"
        check.expect(same, R, R + "/same-program", hir.loc(n), "prints the program that was visited", "the printed program is not the visited one")
    rj = prog.fn("rewriter::rewrite_js")
    nsf = [n for n in hir.calls_in(rj.body, name="new_source_file")]
    ok = False
    for n in nsf:
        a = hir.call_args(n)
        code = hir.local_of(a[2])
        names = [hir.local_of(x) for x in hir.walk(a[1]) if hir.local_of(x)]
        ok = bool(code) and rj.bindings()[code[0]]["origin"][:2] == ("param", 0) and any(rj.bindings()[l[0]]["origin"][:2] == ("param", 1) for l in names)
    if not nsf:
        # the file is registered by a helper rewrite_js calls: its (file, code) parameters must be fed with
        # rewrite_js's own (file, code) at that call
        for c in hir.calls_in(rj.body):
            h = prog.resolve_local(c)
            if h is None or h.body is None:
                continue
            for n in hir.calls_in(h.body, name="new_source_file"):
                a = hir.call_args(n)
                code = hir.local_of(a[2])
                names = [hir.local_of(x) for x in hir.walk(a[1]) if hir.local_of(x)]
                cb = h.bindings().get(code[0]) if code else None
                fb = [h.bindings().get(l[0]) for l in names]
                ci = cb["origin"][1] if cb and cb["origin"][0] == "param" else None
                fi = [b["origin"][1] for b in fb if b and b["origin"][0] == "param"]
                ca = hir.call_args(c)
                if ci is not None and fi and ci < len(ca) and all(i < len(ca) for i in fi):
                    lc = hir.local_of(ca[ci])
                    lf = [hir.local_of(ca[i]) for i in fi]
                    ok = bool(lc) and rj.bindings()[lc[0]]["origin"][:2] == ("param", 0) and any(l and rj.bindings()[l[0]]["origin"][:2] == ("param", 1) for l in lf)
    check.expect(ok, R, R + "/source-file", hir.loc(rj.rec), "the source file registered is (file, code) of this call", "rewrite_js does not register (file, code) as the source file")
    # swc's source-map generator drops every mapping of files that are not FileName::Real / Url / ...
    # (Custom names starting with `<`, Anon, Internal, MacroExpansion): the file must be registered as Real
    names_ = [x for g_ in prog.flat(rj, 1) for n_ in hir.calls_in(g_.body, name="new_source_file") for x in hir.walk(hir.call_args(n_)[1]) if x.get("k") == "Call" and (hir.peel(x["f"]).get("res", {}).get("ctor_path") or "").startswith("swc_common::FileName::") or (x.get("k") == "Path" and (x.get("res", {}).get("ctor_path") or "").startswith("swc_common::FileName::"))]
    kinds_ = sorted({((hir.peel(x["f"]) if x.get("k") == "Call" else x).get("res", {}).get("ctor_path") or "").split("::")[-1] for x in names_})
    check.expect(kinds_ == ["Real"], R, R + "/file-name-kind", hir.loc(rj.rec), "the input is registered as FileName::Real", "the input is registered as FileName::%s: swc emits no mappings for some names of that kind (e.g. Custom names starting with `<`), so the embedded map comes out empty" % "/".join(kinds_ or ["?"]))


def run(check):
    check.guarded("SPAN-PROV", rule_span_init)
    check.guarded("SPAN-CTOR", rule_span_ctor)
    check.guarded("ESCAPE", rule_escape)
    check.guarded("PRINT-ARGS", rule_print_args)
    check.guarded("PRINT-PATH", rule_print_path)
    from . import c10 as _c10

    # the embedded map must decode: the trailer's payload is the standard base64 of the final map
    check.guarded("TRAILER", _c10.rule_trailer)
    # the map describes the text the printer produced: any later edit of that text shifts every position
    check.guarded("TEXTEDIT", _c10.rule_textedit)
    from . import c16 as _c16

    check.guarded("COMPILER-SCOPE", _c16.rule_compiler_of_this_call)
    return {
        "explanation": "Provenance of every span initialiser of every constructed AST node (context-sensitive, parameters resolved over all call sites), inventory of span constructors / overwrites, an escape rule for AST parsed in a private source map, and constant checks of the print arguments.",
        "assumptions": ["swc's code generator emits a mapping for a node from its span and none for DUMMY_SP", "build_source_map resolves byte positions in the compiler's source map"],
        "not_decided": ["exact line/column of each mapping; validity of the version-3 encoding"],
    }
