"""C15 - reported propagation metrics equal the instrumentation actually emitted.
Decided: inc is control-dependent on *this* result being Modified; only hook-built results are
counted; each transform result is reported exactly once; tags; the three telemetry implementations
agree; shaping of the metrics.  Not decided: the arithmetic at run time."""
from .. import hir, gate
from ..engine import AnchorMissing
from ..prov import Prov, origin_str
from ..trav import AdtGraph, Traversal
from .. import statusrules as S

HOOK_TRANSFORMS = {"to_dd_binary_expr", "to_dd_assign_expr", "to_dd_tpl_expr", "to_dd_call_expr"}


def _is_param_place(fn, place):
    if not place:
        return False
    root = place.split(".")[0]
    if "#" not in root:
        return False
    lid = int(root.split("#")[1])
    b = fn.bindings().get(lid)
    return bool(b and b["origin"][0] == "param")


def rule_inc_gate(check):
    R = "INC-GATE"
    check.rule(R, "every call of Telemetry::inc outside telemetry.rs is control-dependent on the status *parameter* of the enclosing function being Modified (not on the accumulated file status)")
    prog = check.prog
    sites = []
    for f, n, c in prog.call_sites():
        if hir.is_call(n) and c["name"] == "inc" and "Telemetry" in (c["path"] + (c.get("resolved") or "")):
            if f.file.endswith("telemetry.rs"):
                continue
            sites.append((f, n))
    check.floor(R, "inc call sites outside telemetry.rs", len(sites), 1)
    for f, n in sites:
        if f.name == "update_status" and any((p_.get("ty") or "").endswith("Status") for p_ in f.rec.get("params", [])):
            # the reporting function is evaluated as a whole: on the nine (current, new) pairs it
            # counts exactly once when the result is Modified and the rewrite not cancelled
            try:
                tab = S.status_table(prog, f)
            except AnchorMissing as ex:
                check.bad(R, "%s/%s/only-gate" % (R, f.name), hir.loc(n), "whether a result is counted depends on more than the current and the reported status (%s): a hook can be emitted without being counted" % str(ex).split(": ")[-1])
                continue
            want = S.expected_status_table()
            over = ["(%s, %s): %d" % (c_, n_, tab[(c_, n_)][1]) for (c_, n_) in sorted(tab) if tab[(c_, n_)][1] > want[(c_, n_)][1]]
            under = ["(%s, %s): %d" % (c_, n_, tab[(c_, n_)][1]) for (c_, n_) in sorted(tab) if tab[(c_, n_)][1] < want[(c_, n_)][1]]
            check.expect(not over, R, "%s/%s" % (R, f.name), hir.loc(n), "inc only for a Modified result of a rewrite that is not cancelled", "inc is called for results that are not Modified (current, new: calls) %s: untouched operations are counted" % "; ".join(over))
            # anything else that could decide the count (state other than the two statuses)
            extra = []
            for a in gate.atoms_at(f, n):
                e = a[-1] if isinstance(a[-1], dict) else None
                if a[0] in ("eq", "variant", "arm_not"):
                    continue
                if a[0] == "call" and _is_status_predicate(prog, a[1]):
                    continue  # evaluated by the status table above
                extra.append(hir.describe(e.get("e", e) if e and "k" not in e else e)[:80] if e else str(a[:3]))
            check.expect(not under and not extra, R, "%s/%s/only-gate" % (R, f.name), hir.loc(n), "every Modified result that reaches update_status is counted", "inc is not called for (current, new: calls) %s%s: a hook can be emitted without being counted" % ("; ".join(under) or "-", (" and is additionally gated by " + "; ".join(extra)) if extra else ""))
            continue
        atoms = gate.atoms_at(f, n)
        ok = False
        why = []
        for a in atoms:
            if a[0] == "eq" and a[3] is True:
                sides = [x for x in (a[1], a[2]) if isinstance(x, str)]
                if any(s.endswith("Status::Modified") for s in sides):
                    other = [s for s in sides if not s.endswith("Status::Modified")]
                    if other and _is_param_place(f, other[0]) and "." not in other[0]:
                        ok = True
                    else:
                        why.append("compared place is %s" % (other[0] if other else "?"))
            if a[0] == "variant" and a[3] is True and isinstance(a[2], str) and a[2].endswith("Status::Modified") and _is_param_place(f, a[1]) and "." not in (a[1] or "."):
                ok = True
            if a[0] == "call" and a[1] == "is_modified" and a[4] is True and _is_param_place(f, a[3]):
                ok = True
        check.expect(ok, R, "%s/%s" % (R, f.name), hir.loc(n), "inc guarded by the status parameter == Modified", "inc is not guarded by `<status parameter> == Status::Modified` (%s): untouched operations are counted" % ("; ".join(why) or "no such guard"))
        # ... and by nothing else: every Modified result that reaches this function is counted
        extra = []
        for a in atoms:
            if a[0] == "eq":
                sides = [x for x in (a[1], a[2]) if isinstance(x, str)]
                if any(s_.endswith("Status::Modified") for s_ in sides) and a[3] is True:
                    continue
                if any(s_.endswith("Status::Cancelled") for s_ in sides) and a[3] is False:
                    continue  # a cancelled file reports nothing at all (its rewrite is refused)
            if a[0] == "variant" and a[3] is True and isinstance(a[2], str) and a[2].endswith("Status::Modified"):
                continue
            if a[0] == "call" and a[1] == "is_modified" and a[4] is True:
                continue
            e = a[-1] if isinstance(a[-1], dict) else None
            extra.append(hir.describe(e.get("e", e) if e and "k" not in e else e)[:80] if e else str(a[:3]))
        check.expect(not extra, R, "%s/%s/only-gate" % (R, f.name), hir.loc(n), "no other condition decides whether a Modified result is counted", "inc is additionally gated by %s: a hook can be emitted without being counted" % "; ".join(extra))


def rule_count_once(check):
    R = "COUNT-ONCE"
    check.rule(R, "in visit_mut_expr every call of a hook-emitting transform is followed on every path by exactly one update_status fed with that result's status (none when the result is not modified), and update_status is called for nothing else")
    prog = check.prog
    f = S.opv_visit_mut_expr(prog)
    tr = Traversal(prog, f, AdtGraph(prog.adts))
    paths = tr.paths(f.body, tr.initial_env())
    n_t = 0
    for p in paths:
        if p.unknown:
            check.bad(R, R + "/unanalysable", hir.loc(f.rec), "; ".join(p.unknown))
            continue
        # calls made by the override itself or by methods of the visitor it is split into
        own = {f.def_path} | {g.def_path for g in prog.user_fns if (g.rec.get("self_ty") or "").split("<")[0] == (f.rec.get("self_ty") or "").split("<")[0] and not g.rec.get("impl_of_trait")}
        calls = [e for e in p.effects if e["kind"] == "call" and e.get("in_fn", f.def_path) in own and (e["name"] in HOOK_TRANSFORMS or e["name"] == "update_status")]
        ts = [(i, e) for i, e in enumerate(calls) if e["name"] in HOOK_TRANSFORMS]
        us = [(i, e) for i, e in enumerate(calls) if e["name"] == "update_status"]
        arm = tr.variant_known(p, ())
        arm = arm.split("::")[-1] if isinstance(arm, str) else "_"
        not_mod = any((hir.cond_call(c) or [None])[0] == "is_modified" and hir.cond_call(c)[3] is False for c in p.conds)
        # the same test asked of the expression: `if let Some(e) = result.expr {..}` not taken (a result has an
        # expression exactly when it is Modified - the TransformResult constructors, MODIFIED-HOOK/invariant)
        for c in p.conds:
            if c.get("t") == "pat" and c.get("scrut") is not None:
                sc_ = hir.peel_transparent(c["scrut"])
                v_ = str(hir.pat_variant(c["pat"])).split("::")[-1]
                if sc_.get("k") == "Field" and sc_.get("field") == "expr" and "TransformResult" in (sc_.get("base_ty") or "") and ((v_ == "Some" and c["v"] is False) or (v_ == "None" and c["v"] is True)):
                    not_mod = True
        if len(ts) > 1:
            check.bad(R, "%s/%s/two-transforms" % (R, arm), hir.loc(ts[1][1]["node"]), "two transforms on one path")
            continue
        if not ts:
            if us:
                check.bad(R, "%s/%s/status-without-hook-transform" % (R, arm), hir.loc(us[0][1]["node"]), "update_status is called on a path with no hook-emitting transform (arm %s)" % arm)
            else:
                check.ok(R, "%s/%s/none" % (R, arm), hir.loc(f.rec), "no transform, no status update")
            continue
        n_t += 1
        ti, te = ts[0]
        after = [u for u in us if u[0] > ti]
        if not_mod and not us:
            check.ok(R, "%s/%s/not-modified" % (R, arm), hir.loc(te["node"]), "result not modified: nothing reported")
            continue
        if len(us) != 1 or len(after) != 1:
            check.bad(R, "%s/%s/count" % (R, arm), hir.loc(te["node"]), "%s is followed by %d update_status calls on a path (%s)" % (te["name"], len(after), "; ".join(hir.cond_str(c) for c in p.conds if c["t"] == "bool")[:200]))
            continue
        un = us[0][1]["node"]
        arg = hir.peel(hir.call_args(un)[1])
        fed = False
        if arg.get("k") == "MethodCall" and arg["method"] == "status" and "TransformResult" in (hir.peel(arg["recv"]).get("ty") or "") and prog.resolve_local(arg) is not None:
            # the accessor form `result.status()` (MODIFIED-HOOK/invariant checks what it means)
            arg = {"k": "Field", "field": "status", "x": arg["recv"]}
        if arg.get("k") == "Field" and arg["field"] == "status":
            l = hir.local_of(arg["x"])
            hf = prog.by_def.get(us[0][1].get("in_fn")) or f
            b = hf.bindings().get(l[0]) if l else None
            init = b["origin"][1] if b and b["origin"][0] == "let" else None
            fed = init is not None and hir.peel(init) is te["node"]
            if not fed and b is not None and b["origin"][0] == "param":
                # update_status sits in a helper that is handed the result: look at the argument of the
                # call of that helper on this path
                for e2 in p.effects:
                    if e2["kind"] == "call" and e2.get("node") is not None and prog.resolve_local(e2["node"]) is hf:
                        a2 = hir.call_args(e2["node"])
                        if b["origin"][1] < len(a2):
                            l2 = hir.local_of(a2[b["origin"][1]])
                            cf = prog.by_def.get(e2.get("in_fn")) or f
                            b2 = cf.bindings().get(l2[0]) if l2 else None
                            i2 = b2["origin"][1] if b2 and b2["origin"][0] == "let" else None
                            fed = fed or (i2 is not None and hir.peel(i2) is te["node"])
        check.expect(fed, R, "%s/%s" % (R, arm), hir.loc(un), "one update_status fed with the status of %s" % te["name"], "update_status is not fed with the status of the result of %s" % te["name"])
    check.floor(R, "paths through a hook-emitting transform", n_t, 4)


def rule_single_visit(check):
    """SINGLE-VISIT: nothing but the visitor's own dispatch (and the block driver) runs the operation
    visitor over a tree: a transform that visits (part of) its node again instruments and counts the
    operations in it a second time"""
    R = "SINGLE-VISIT"
    check.rule(R, "the operation visitor is run over sub-trees only by its own visit methods and by the block driver; the one reviewed exception is the `AssignTarget::Pat` arm of to_dd_assign_expr, which `+=` can never reach (a destructuring target only exists for `=`). A transform that re-visits the node it was handed - visit_mut_expr has already visited its children - emits hooks for hooks and counts the same operation twice")
    prog = check.prog
    opv_ty = "OperationTransformVisitor"
    n = 0
    for f in prog.user_fns:
        st = (f.rec.get("self_ty") or "").split("<")[0]
        own = st.endswith(opv_ty) or st.endswith("BlockTransformVisitor")
        for x in f.nodes():
            if x.get("k") != "MethodCall" or x["method"] not in ("visit_mut_with", "visit_mut_children_with") or not x["args"]:
                continue
            if opv_ty not in (hir.peel(x["args"][0]).get("ty") or ""):
                continue
            n += 1
            if own:
                continue
            conds = [c for c in f.conds_at(x) if c["t"] not in ("closure",)]
            only_pat = len(conds) == 1 and conds[0]["t"] == "pat" and conds[0]["v"] and str(hir.pat_variant(conds[0]["pat"])).endswith("AssignTarget::Pat")
            if not only_pat:
                # the same thing said otherwise (`let AssignTarget::Simple(..) = .. else`, a negated arm):
                # equivalent to "is AssignTarget::Pat" given the variants of AssignTarget
                from .. import boolform as BF

                try:
                    vs = [v["name"] for v in prog.adt("swc_ecma_ast::AssignTarget")["variants"]]
                except AnchorMissing:
                    vs = []
                if vs:
                    fs = BF.from_conds(f, conds, lambda fn_, e_: None, prog)
                    pre = "is:swc_ecma_ast::AssignTarget::"
                    goal = BF.atom(pre + "Pat")
                    exh = {pre: vs}
                    only_pat = bool(fs) and BF.entails(fs, goal, exhaustive=exh) and all(BF.entails([goal], x, exhaustive=exh) for x in fs)
            check.expect(only_pat, R, "%s/%s" % (R, f.name), hir.loc(x), "%s re-visits only under AssignTarget::Pat (unreachable for +=)" % f.name, "%s runs the operation visitor over its node again (under: %s): the children were already visited by visit_mut_expr, so their operations are instrumented and counted twice" % (f.name, "; ".join(hir.cond_str(c) for c in conds) or "no condition"))
    check.floor(R, "sites that run the operation visitor", n, 5)


def rule_tags(check):
    R = "TAGS"
    check.rule(R, "the telemetry tag is '+', '+=', 'Tpl' or the source name (.sym) of the called method - never the replacement name")
    prog = check.prog
    pv = Prov(prog, opaque=S.HOOK_SOURCES)
    us, feeds = S.status_feeds(prog)
    sites = [(f, n) for f, n, _b, _t in feeds]
    want_const = {"ADD_TAG": "+", "ADD_ASSING_TAG": "+=", "TPL_TAG": "Tpl"}
    for f, n, _base, tag in feeds:
        if tag is None:
            tag = hir.call_args(n)[2]
        os_ = pv.resolve_params(pv.origins(f, tag))
        bad = []
        kinds = set()
        for o in os_:
            root, proj = o
            if root[0] == "const":
                name = root[1].split("::")[-1]
                try:
                    val = prog.const_str(name)
                except AnchorMissing:
                    val = None
                if name in want_const and val == want_const[name]:
                    kinds.add("const " + val)
                else:
                    bad.append("%s=%r" % (name, val))
            elif root[0] == "lit" and root[1] in want_const.values():
                kinds.add("lit %s" % root[1])
            elif root[0] in ("residual",) or (root[0] == "ctor" and root[1].split("::")[-1] == "None"):
                kinds.add("none")
            elif proj and proj[-1] == "sym" and "dst" not in proj:
                kinds.add("source method name (.sym)")
            else:
                bad.append(origin_str(o))
        key = "%s/%s" % (R, S._site_key(f, n))
        check.expect(not bad and kinds - {"none"}, R, key, hir.loc(n), "tag origins: %s" % ", ".join(sorted(kinds)), "tag has undocumented origin(s): %s" % ", ".join(sorted(bad)))
        # ... and it is the tag of *this* operation: the per-tag counts partition the total by operation, so
        # the three operator arms each count under their own tag, wherever the text of the tag is kept
        own = {"Bin": "+", "Assign": "+=", "Tpl": "Tpl"}.get(S._site_key(f, n))
        if own is not None and not bad:
            vals = {k_.split(" ", 1)[1] for k_ in kinds if k_.startswith(("const ", "lit "))}
            check.expect(vals == {own}, R, key + "/own-tag", hir.loc(n), "the %s arm counts under `%s`" % (S._site_key(f, n), own), "the %s arm counts under %s instead of `%s`: two operations share a bucket of the per-tag breakdown" % (S._site_key(f, n), sorted(vals) or sorted(kinds), own))
    check.floor(R, "tagged update_status sites", len(sites), 4)
    # the method tag is the name that was looked up in the configuration for that very hook: the set
    # of tag origins of the Call arm equals the set of names handed to CsiMethods::get at hook gates
    import re

    def norm(o):
        root, proj = o
        segs = []
        skip0 = False
        for q in proj:
            if skip0 and q == "0":
                skip0 = False
                continue
            skip0 = False
            if q == "[]":
                continue
            if q == "Some.0":  # Option wrappers on the way (as_member(), as_ident()) are not part of the place
                continue
            if q == "Some":
                skip0 = True
                continue
            if segs and segs[-1] == q:
                continue
            segs.append(q)
        s_ = ".".join(segs)
        s_ = re.sub(r"(?:obj\.)+", "obj.", s_)
        s_ = re.sub(r"(?:Member\.0\.obj\.)+", "Member.0.obj.", s_)
        return (root[:3], s_)

    gate_names = set()
    for g in prog.user_fns:
        if not any(hir.is_call(x) and hir.callee_name(x) in S.HOOK_SOURCES for x in g.nodes()):
            continue
        for n in g.nodes():
            if hir.is_call(n) and hir.callee_name(n) == "get" and "CsiMethods" in n["callee"]["path"]:
                # names read from the input tree (nodes the rewriter built itself and meets again on a
                # later visit are not part of the comparison)
                gate_names |= {norm(o) for o in pv.resolve_params(pv.origins(g, hir.call_args(n)[1])) if o[0][0] == "param"}
    for f, n in sites:
        if S._site_key(f, n) != "Call":
            continue
        tags = {norm(o) for o in pv.resolve_params(pv.origins(f, hir.call_args(n)[2])) if o[0][0] == "param"}
        check.expect(tags == gate_names and bool(tags), R, R + "/Call/tag-is-looked-up-name", hir.loc(n), "method tags = the names looked up at the hook gates (%d origins)" % len(tags), "the tag reported for method hooks is not the name that was looked up in the configuration: tags %s vs looked-up names %s" % (sorted(x[1] for x in tags - gate_names) or "(subset)", sorted(x[1] for x in gate_names - tags)))


def _is_status_predicate(prog, name):
    """a crate function `-> bool` whose result is a comparison of the file status with a Status value"""
    from ..prov import return_exprs

    for h in prog.user_fns:
        if h.name == name and h.rec.get("ret") == "bool" and h.body is not None:
            rs = return_exprs(h.body)
            if len(rs) == 1 and S.status_atomize(h, rs[0]) is not None:
                return True
    return False


def _method(prog, self_suffix, name, trait=None):
    for f in prog.fns:
        if f.body is None or f.name != name:
            continue
        st = (f.rec.get("self_ty") or "").split("<")[0]
        if st.endswith("::" + self_suffix) or st == self_suffix:
            if trait is None or (f.rec.get("impl_of_trait") or "").endswith(trait):
                return f
    # not overridden for this type: the provided (default) method of a trait the type implements
    traits = {(f.rec.get("impl_of_trait") or "").split("<")[0] for f in prog.fns if ((f.rec.get("self_ty") or "").split("<")[0].endswith("::" + self_suffix) or (f.rec.get("self_ty") or "").split("<")[0] == self_suffix) and f.rec.get("impl_of_trait")}
    for f in prog.fns:
        if f.body is None or f.name != name or f.rec.get("self_ty") or f.rec.get("impl_of_trait"):
            continue
        if any(t and f.def_path.startswith(t + "::") for t in traits) and (trait is None or f.def_path.rsplit("::", 1)[0].endswith(trait)):
            return f
    gone = not any(p == self_suffix or p.endswith("::" + self_suffix) for p in prog.adts)
    raise AnchorMissing("%s::%s" % (self_suffix, name), absent=gone)


def _field_increments(f, field):
    out = []
    for n in f.nodes():
        if n.get("k") in ("AssignOp", "Assign"):
            l = hir.peel(n["l"])
            if l.get("k") == "Field" and l["field"] == field:
                out.append(n)
    return out


def rule_siblings(check):
    R = "TELEMETRY-SIBLING"
    check.rule(R, "DefaultTelemetry and DebugTelemetry add exactly 1 to instrumented_propagation on every path of inc; Debug adds 1 to the bucket of its tag; NoOp does nothing and reports 0/None; IastTelemetry delegates each method to the same-named method; verbosity Off->NoOp, Debug->Debug, else Default")
    prog = check.prog
    for ty in ("DefaultTelemetry", "DebugTelemetry"):
        f = _method(prog, ty, "inc")
        incs = _field_increments(f, "instrumented_propagation")
        ok = len(incs) == 1 and incs[0]["k"] == "AssignOp" and incs[0]["op"] in ("Add", "AddAssign") and hir.lit_value(incs[0]["r"]) == 1 and not [c for c in f.conds_at(incs[0]) if c["t"] != "closure"]
        check.expect(ok, R, "%s/%s/inc" % (R, ty), hir.loc(f.rec), "unconditional += 1", "%s::inc does not add exactly 1 unconditionally" % ty)
        g = _method(prog, ty, "get_instrumented_propagation")
        v = [hir.place(x) for x in __import__("iast.prov", fromlist=["x"]).return_exprs(g.body)]
        check.expect(len(v) == 1 and (v[0] or "").endswith(".instrumented_propagation"), R, "%s/%s/get" % (R, ty), hir.loc(g.rec), "returns the counter", "%s::get_instrumented_propagation does not return the counter (%s)" % (ty, v))
    # Debug bucket
    f = _method(prog, "DebugTelemetry", "inc")
    ins = [n for n in hir.calls_in(f.body, name="insert")]
    ins = [n for n in ins if (hir.place(hir.call_args(n)[0]) or "").endswith(".propagation_debug")]
    ok = False
    detail = "no insert into propagation_debug"
    if len(ins) == 1:
        a = hir.call_args(ins[0])
        pv = Prov(prog)
        key_o = pv.origins(f, a[1])
        key_ok = all(r[0] == "param" and r[2] == 1 for r, p in key_o)
        val_o = pv.origins(f, a[2])
        vals = set()
        for r, p in val_o:
            if r[0] == "lit":
                vals.add(("lit", r[1]))
            elif r[0] == "op" and r[1] == "Add":
                node = f.by_id(r[3])
                sides = [hir.peel(node["l"]), hir.peel(node["r"])]
                one = [s for s in sides if hir.lit_value(s) == 1]
                other = [s for s in sides if hir.lit_value(s) is None]
                src_ok = False
                if one and other:
                    oo = pv.origins(f, other[0])
                    src_ok = all((rr[0] == "call" and rr[1].split("::")[-1] == "get") or (rr[0] == "param" and rr[2] == 0 and "propagation_debug" in pp) for rr, pp in oo)
                vals.add(("prev+1", src_ok))
            else:
                vals.add(("other", origin_str((r, p))))
        ok = key_ok and vals == {("lit", 1), ("prev+1", True)}
        detail = "bucket key from the tag parameter=%s, values=%s" % (key_ok, sorted(vals, key=str))
        conds = [c for c in f.conds_at(ins[0]) if c["t"] == "pat"]
        ok = ok and len(conds) == 1
    elif not ins:
        # entry API: *self.propagation_debug.entry(tag).or_insert(0) += 1
        pv = Prov(prog)
        for n in f.nodes():
            if n.get("k") == "AssignOp" and n.get("op") in ("Add", "AddAssign") and hir.lit_value(n["r"]) == 1:
                l = hir.peel(n["l"])
                if l.get("k") == "MethodCall" and l["method"] in ("or_insert", "or_default") and (l["method"] == "or_default" or hir.lit_value(l["args"][0]) == 0):
                    en = hir.peel(l["recv"])
                    if en.get("k") == "MethodCall" and en["method"] == "entry" and (hir.place(en["recv"]) or "").endswith(".propagation_debug"):
                        key_ok = all(r[0] == "param" and r[2] == 1 for r, p in pv.origins(f, en["args"][0]))
                        conds = [c for c in f.conds_at(n) if c["t"] == "pat"]
                        other = [c for c in f.conds_at(n) if c["t"] not in ("pat", "closure")]
                        ok = key_ok and len(conds) == 1 and not other
                        detail = "bucket key from the tag parameter=%s, entry(tag).or_insert(0) += 1" % key_ok
    if not ok:
        # `match map.get_mut(&tag) { Some(c) => *c += 1, None => { map.insert(tag, 1); } }`, in inc or in a
        # method it hands the tag to
        pv = Prov(prog)
        for g_ in prog.flat(f, 1):
            for m in [x for x in hir.walk(g_.body) if x.get("k") == "Match"]:
                sc = hir.peel(m["scrut"])
                if not (hir.is_call(sc) and (hir.callee_name(sc) or sc.get("method")) == "get_mut" and (hir.place(hir.call_args(sc)[0]) or "").endswith(".propagation_debug")):
                    continue
                key_o = pv.origins_upto(f, g_, hir.call_args(sc)[1])
                key_ok = bool(key_o) and all(r[0] == "param" and r[1] == f.def_path and r[2] == 1 for r, p in key_o)
                some_ok = none_ok = False
                for a in m["arms"]:
                    vn = str(hir.pat_variant(a["pat"])).split("::")[-1]
                    if vn == "Some":
                        bs = hir.pat_bindings(a["pat"])
                        incs_ = [x for x in hir.walk(a["body"]) if x.get("k") == "AssignOp" and x.get("op") in ("Add", "AddAssign") and hir.lit_value(x["r"]) == 1 and bs and (hir.local_of(hir.peel_transparent(x["l"])) or (None,))[0] == bs[0]["local"]]
                        some_ok = len(incs_) == 1
                    elif vn == "None":
                        ins_ = [x for x in hir.walk(a["body"]) if hir.is_call(x) and (hir.callee_name(x) or x.get("method")) == "insert" and (hir.place(hir.call_args(x)[0]) or "").endswith(".propagation_debug")]
                        none_ok = len(ins_) == 1 and hir.lit_value(hir.call_args(ins_[0])[2]) == 1 and all(r[0] == "param" and r[1] == f.def_path and r[2] == 1 for r, p in pv.origins_upto(f, g_, hir.call_args(ins_[0])[1]))
                if key_ok and some_ok and none_ok:
                    conds = [c for c in f.conds_at(m) if c["t"] == "pat"] if g_ is f else [c for x in hir.walk(f.body) if hir.is_call(x) and prog.resolve_local(x) is g_ for c in f.conds_at(x) if c["t"] == "pat"]
                    ok = len(conds) == 1
                    detail = "bucket of the tag: get_mut(tag) += 1, else insert(tag, 1)"
    check.expect(ok, R, R + "/DebugTelemetry/bucket", hir.loc(f.rec), detail, "DebugTelemetry::inc: " + detail)
    g = _method(prog, "DebugTelemetry", "get_propagation_debug")
    from ..prov import return_exprs

    v = [hir.peel_transparent(x) for x in return_exprs(g.body)]
    okd = len(v) == 1 and (hir.place(v[0]) or "").endswith(".propagation_debug")
    check.expect(okd, R, R + "/DebugTelemetry/get_debug", hir.loc(g.rec), "returns Some(bucket map)", "DebugTelemetry::get_propagation_debug does not return its map")
    # NoOp / Default constants
    f = _method(prog, "NoOpTelemetry", "inc")
    body = hir.peel(f.body)
    empty = not any(True for n in hir.walk(f.body) if n.get("k") in ("Call", "MethodCall", "Assign", "AssignOp"))
    check.expect(empty, R, R + "/NoOpTelemetry/inc", hir.loc(f.rec), "no effect", "NoOpTelemetry::inc has effects")
    g = _method(prog, "NoOpTelemetry", "get_instrumented_propagation")
    v = [hir.lit_value(x) for x in return_exprs(g.body)]
    check.expect(v == [0], R, R + "/NoOpTelemetry/get", hir.loc(g.rec), "returns 0", "NoOpTelemetry::get_instrumented_propagation returns %s" % v)
    for ty in ("NoOpTelemetry", "DefaultTelemetry"):
        g = _method(prog, ty, "get_propagation_debug")
        v = [hir.peel(x) for x in return_exprs(g.body)]
        okn = len(v) == 1 and v[0].get("k") == "Path" and (v[0]["res"].get("ctor_path") or "").split("::")[-1] == "None"
        check.expect(okn, R, "%s/%s/get_debug" % (R, ty), hir.loc(g.rec), "returns None", "%s::get_propagation_debug does not return None" % ty)
    # delegation
    for m in ("inc", "get_instrumented_propagation", "get_propagation_debug"):
        f = _method(prog, "IastTelemetry", m)
        matches = [n for n in hir.walk(f.body) if n.get("k") == "Match"]
        ok = len(matches) == 1
        seen = set()
        if not matches:
            # self.<projection>().m(args) where the projection hands out the wrapped telemetry of every variant
            body = hir.peel(f.body)
            while body.get("k") == "BlockExpr" and not body["block"]["stmts"] and "tail" in body["block"]:
                body = hir.peel(body["block"]["tail"])
            if hir.is_call(body) and (hir.callee_name(body) or body.get("method")) == m:
                recv = hir.peel(hir.call_args(body)[0])
                h = prog.resolve_local(recv) if hir.is_call(recv) else None
                args_ok = m != "inc" or (hir.local_of(hir.call_args(body)[1]) and f.bindings()[hir.local_of(hir.call_args(body)[1])[0]]["origin"][0] == "param")
                if h is not None and args_ok and (hir.local_of(hir.call_args(recv)[0]) or (0, ""))[1] == "self":
                    hm = [n for n in hir.walk(h.body) if n.get("k") == "Match"]
                    if len(hm) == 1 and (hir.local_of(hm[0]["scrut"]) or (0, ""))[1] == "self":
                        proj_ok = True
                        for a in hm[0]["arms"]:
                            v = hir.pat_variant(a["pat"])
                            binds = hir.pat_bindings(a["pat"])
                            b_ = hir.local_of(hir.peel_transparent(a["body"]))
                            proj_ok = proj_ok and bool(binds) and bool(b_) and b_[0] == binds[0]["local"] and "guard" not in a
                            seen.add(v.split("::")[-1] if isinstance(v, str) else str(v))
                        ok = proj_ok and seen == {"Default", "Debug", "NoOp"}
            check.expect(ok, R, "%s/IastTelemetry/%s" % (R, m), hir.loc(f.rec), "delegates to the same-named method for %s" % sorted(seen), "IastTelemetry::%s does not delegate every variant to the same-named method" % m)
            continue
        if ok:
            for a in matches[0]["arms"]:
                v = hir.pat_variant(a["pat"])
                body = hir.peel(a["body"])
                binds = hir.pat_bindings(a["pat"])
                good = hir.is_call(body) and hir.callee_name(body) == m and binds and hir.local_of(hir.call_args(body)[0]) and hir.local_of(hir.call_args(body)[0])[0] == binds[0]["local"]
                if m == "inc" and good:
                    arg = hir.local_of(hir.call_args(body)[1])
                    good = bool(arg) and f.bindings()[arg[0]]["origin"][0] == "param"
                ok = ok and bool(good)
                seen.add(v.split("::")[-1] if isinstance(v, str) else str(v))
            ok = ok and seen == {"Default", "Debug", "NoOp"}
        check.expect(ok, R, "%s/IastTelemetry/%s" % (R, m), hir.loc(f.rec), "delegates to the same-named method for %s" % sorted(seen), "IastTelemetry::%s does not delegate every variant to the same-named method" % m)
    f = _method(prog, "IastTelemetry", "new")
    matches = [n for n in hir.walk(f.body) if n.get("k") == "Match"]
    mapping = {}
    try:
        all_vs = [v_["name"] for v_ in prog.adt("TelemetryVerbosity")["variants"]]
    except AnchorMissing:
        all_vs = ["Off", "Mandatory", "Information", "Debug"]
    sc_ok = False
    if len(matches) == 1:
        sc_ = hir.peel_transparent(matches[0]["scrut"])
        l_ = hir.local_of(sc_)
        sc_ok = (hir.place(sc_) or "").endswith(".verbosity") or (bool(l_) and f.bindings()[l_[0]]["origin"][0] == "param" and "TelemetryVerbosity" in (f.bindings()[l_[0]].get("ty") or sc_.get("ty") or ""))
    if len(matches) == 1 and sc_ok:
        for a in matches[0]["arms"]:
            v = hir.pat_variant(a["pat"])
            vns = [x.split("::")[-1] if isinstance(x, str) else str(x) for x in (v if isinstance(v, tuple) else (v,))]
            body = hir.peel(a["body"])
            while body.get("k") in ("BlockExpr", "Block") and "tail" in body.get("block", body) and not body.get("block", body).get("stmts"):
                body = hir.peel(body.get("block", body)["tail"])
            ctor = (hir.peel(body["f"]).get("res", {}).get("ctor_path") or "").split("::")[-1] if body.get("k") == "Call" else "?"
            for vn in vns:
                if vn == "_":
                    for rest in all_vs:
                        mapping.setdefault(rest, ctor)
                else:
                    mapping.setdefault(vn, ctor)
    want_map = {"Off": "NoOp", "Debug": "Debug", "Mandatory": "Default", "Information": "Default"}
    check.expect(mapping == want_map, R, R + "/IastTelemetry/new", hir.loc(f.rec), "verbosity mapping %s" % mapping, "verbosity mapping is %s (documented: Off->NoOp, Debug->Debug, otherwise Default)" % mapping)


def _variant_name_map(prog, g):
    """is g `match self { Status::V => "V", .. }` over every variant of Status (each one its own name)?"""
    if g is None or g.body is None:
        return False
    try:
        variants = {v["name"] for v in prog.adt("transform_status::Status")["variants"]}
    except AnchorMissing:
        return False
    ms = [m for m in hir.walk(g.body) if m.get("k") == "Match"]
    if len(ms) != 1:
        return False
    got = {}
    for a in ms[0]["arms"]:
        v = str(hir.pat_variant(a["pat"])).split("::")[-1]
        got[v] = hir.lit_value(hir.peel(a["body"]))
    return set(got) == variants and all(got[v] == v for v in variants)


def rule_shape(check):
    R = "METRICS-SHAPE"
    check.rule(R, "get_metrics reports status = lower-cased Debug name of the status, the counter and breakdown of the telemetry of this call, and the file name it was called with")
    prog = check.prog
    f = prog.fn("lib_wasm::get_metrics")
    lits = [n for n in hir.walk(f.body) if n.get("k") == "Struct" and (n["res"].get("path") or "").endswith("Metrics")]
    check.floor(R, "Metrics literals", len(lits), 1)
    for n in lits:
        flds = {x["name"]: x["e"] for x in n["fields"]}
        st = hir.peel(flds["status"])
        chain = []
        x = st
        while hir.is_call(x):
            chain.append(hir.callee_name(x) or x.get("method"))
            x = hir.peel(hir.call_args(x)[0])
        ok = chain == ["to_lowercase", "to_string"] and (hir.place(x) or "").endswith(".status")
        if not ok and len(chain) == 2 and chain[0] == "to_lowercase" and (hir.place(x) or "").endswith(".status"):
            # a name function of the crate instead of Display: every variant maps to its own name
            inner = hir.peel(hir.call_args(st)[0])
            ok = _variant_name_map(prog, prog.resolve_local(inner))
        check.expect(ok, R, R + "/status", hir.loc(n), "status = %s(%s)" % (".".join(reversed(chain)), hir.place(x)), "metrics.status is computed as %s of %s" % (chain, hir.describe(x)))
        for fld, meth in (("instrumented_propagation", "get_instrumented_propagation"), ("propagation_debug", "get_propagation_debug")):
            e = hir.peel(flds[fld])
            ok = hir.is_call(e) and hir.callee_name(e) == meth and (hir.place(hir.call_args(e)[0]) or "").endswith(".telemetry")
            check.expect(ok, R, "%s/%s" % (R, fld), hir.loc(n), "%s from telemetry.%s()" % (fld, meth), "metrics.%s does not come from telemetry.%s()" % (fld, meth))
        fe = hir.peel_transparent(flds["file"])
        l = hir.local_of(fe)
        ok = bool(l) and f.bindings()[l[0]]["origin"][0] == "param"
        check.expect(ok, R, R + "/file", hir.loc(n), "file = the file parameter", "metrics.file is not the file parameter")
    # Display delegates to Debug
    disp = [g for g in prog.fns if g.name == "fmt" and (g.rec.get("impl_of_trait") or "").endswith("fmt::Display") and (g.rec.get("self_ty") or "").endswith("Status")]
    if len(disp) != 1:
        raise AnchorMissing("Display for Status")
    calls = [n for n in hir.walk(disp[0].body) if hir.is_call(n)]
    ok = len(calls) == 1 and hir.callee_name(calls[0]) == "fmt" and "Debug" in (calls[0]["callee"]["path"] + calls[0]["callee"].get("trait", ""))
    if not ok:
        # ... or writes the variant's own name through a crate name function
        ws = [n for n in calls if (hir.callee_name(n) or n.get("method")) in ("write_str", "pad")]
        ok = len(ws) == 1 and any(_variant_name_map(prog, prog.resolve_local(x)) for x in hir.walk(ws[0]) if hir.is_call(x) and x is not ws[0])
    check.expect(ok, R, R + "/display", hir.loc(disp[0].rec), "Display for Status = Debug name", "Display for Status no longer delegates to Debug")
    variants = sorted(v["name"] for v in prog.adt("transform_status::Status")["variants"])
    check.expect(variants == ["Cancelled", "Modified", "NotModified"], R, R + "/variants", "-", "Status variants %s" % variants, "Status variants changed: %s" % variants)
    # caller passes its own file
    rw = prog.fn("lib_wasm::Rewriter::rewrite")
    sites = list(hir.calls_in(rw.body, name="get_metrics"))
    check.floor(R, "get_metrics call sites", len(sites), 1)
    rj = list(hir.calls_in(rw.body, name="rewrite_js"))
    for n in sites:
        a = hir.local_of(hir.peel_transparent(hir.call_args(n)[1]))
        b = hir.local_of(hir.peel_transparent(hir.call_args(rj[0])[1])) if rj else None
        ok = bool(a) and a == b and rw.bindings()[a[0]]["origin"][0] == "param"
        check.expect(ok, R, R + "/same-file", hir.loc(n), "metrics are labelled with the file passed to rewrite_js", "get_metrics is not called with the file name of this rewrite")
        st = hir.place(hir.call_args(n)[0]) or ""
        check.expect(st.endswith(".transform_status"), R, R + "/same-status", hir.loc(n), "metrics built from this call's transform status", "get_metrics is fed %s" % st)


def run(check):
    check.guarded("INC-GATE", rule_inc_gate)
    check.guarded("MODIFIED-HOOK", S.rule_modified_implies_hook)
    check.guarded("COUNT-ONCE", rule_count_once)
    check.guarded("TAGS", rule_tags)
    # which verbosity a configuration string stands for decides what is counted at all: `off` read as an
    # unknown name reports counts where none are wanted, `debug` loses the breakdown
    from . import c05 as _c05
    from ..engine import Only as _OnlyV
    check.rule("VERBOSITY-PARSE", "the verbosity names OFF / MANDATORY / INFORMATION / DEBUG are compared case-insensitively and map to their variants; anything else is Information")
    check.guarded("VERBOSITY-PARSE", lambda c: _c05.rule_defaults(_OnlyV(c, "DEFAULTS", "VERBOSITY-PARSE", ("/verbosity-case", "/verbosity-map"))))
    from .. import xformrules as X

    check.guarded("FANOUT", X.rule_fanout)
    check.guarded("SINGLE-VISIT", rule_single_visit)
    check.guarded("TELEMETRY-SIBLING", rule_siblings)
    check.guarded("METRICS-SHAPE", rule_shape)
    check.guarded("SNAPSHOT-ORDER", S.rule_snapshot_order)
    return {
        "explanation": "Control-dependence, provenance and sibling-agreement rules over the typed HIR of the telemetry path: where inc is called and under which guard, which results reach update_status and whether their expression is hook-built, one report per transform result on every path, tag origins, agreement of the three Telemetry implementations, and the shaping of the reported metrics.",
        "assumptions": ["fewer than 2^32 propagations per file (u32 counter)", "serde field renaming of Metrics is as derived"],
        "not_decided": ["that every hook builder call ends up in the printed output exactly once (C02/C03 rules)", "run-time arithmetic"],
    }
